/* /verif/engine/cfgshim/config.h — first on the include path of every /verif build.
 * Pulls in the repository's configure output (or the fallback copy) and lets a profile
 * override the compile-time DEBUG level, which /repo/config.h hard-codes. */
#ifndef VERIF_CFGSHIM_H
#define VERIF_CFGSHIM_H
#include VERIF_REAL_CONFIG_H
#ifdef VERIF_DEBUG
# undef DEBUG
# if VERIF_DEBUG >= 0
#  define DEBUG VERIF_DEBUG
# endif
#endif
#endif
