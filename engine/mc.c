/* mc.c — see mc.h.  Plain C, no dependency on /repo. */
#define _GNU_SOURCE
#include "mc.h"
#include <stdarg.h>
#include <signal.h>
#include <unistd.h>
#include <fcntl.h>
#include <errno.h>
#include <time.h>
#include <malloc.h>
#include <sys/time.h>
#include <sys/wait.h>
#include <sys/mman.h>
#include <sys/resource.h>
#include <sys/stat.h>

#if defined(__has_feature)
# if __has_feature(address_sanitizer)
#  define MC_ASAN 1
# endif
#endif
#if defined(__SANITIZE_ADDRESS__) && !defined(MC_ASAN)
# define MC_ASAN 1
#endif

#if defined(__has_feature)
# if __has_feature(memory_sanitizer)
#  define MC_MSAN 1
# endif
#endif
#if defined(MC_ASAN) || defined(MC_MSAN)
# define MC_SANALLOC 1          /* the common sanitizer allocator interface (block sizes, live bytes, report fd) */
#endif

#ifndef MC_REPO_SRC
# define MC_REPO_SRC "/repo/src/"
#endif

#ifdef MC_SANALLOC
extern size_t __sanitizer_get_current_allocated_bytes(void);
extern size_t __sanitizer_get_allocated_size(const volatile void *p);
extern int __sanitizer_get_ownership(const volatile void *p);
extern void __sanitizer_set_report_fd(void *fd);
#endif
#ifdef MC_MSAN
/* MemorySanitizer build: every read of an uninitialised value that decides a branch, an address or a system call is reported and the run goes on
 * (-fsanitize-recover=memory); the reports are picked up from the report file like UBSan's */
const char *__msan_default_options(void)
{
    return "halt_on_error=0:handle_segv=0:handle_abort=0:handle_sigfpe=0:handle_sigbus=0:handle_sigill=0:allocator_may_return_null=1:"
           "external_symbolizer_path=/usr/bin/llvm-symbolizer-14:allow_user_segv_handler=1:print_stats=0:poison_in_malloc=1:poison_in_free=1:report_umrs=1";
}
#endif
#ifdef MC_MSAN
/* the service and protocol databases are read by uninstrumented libc code into its own static storage: what comes back is initialised */
#include <netdb.h>
extern void __msan_unpoison(const volatile void *a, size_t size);
extern void __msan_unpoison_string(const volatile char *a);
struct servent *__real_getservbyname(const char *, const char *);
struct protoent *__real_getprotobyname(const char *);
__attribute__((weak)) struct servent *__wrap_getservbyname(const char *n, const char *p)
{
    struct servent *s = __real_getservbyname(n, p); __msan_unpoison(&s, sizeof s);
    if (s) { __msan_unpoison(s, sizeof *s); if (s->s_name) __msan_unpoison_string(s->s_name); if (s->s_proto) __msan_unpoison_string(s->s_proto); }
    return s;
}
__attribute__((weak)) struct protoent *__wrap_getprotobyname(const char *n)
{
    struct protoent *s = __real_getprotobyname(n); __msan_unpoison(&s, sizeof s);
    if (s) { __msan_unpoison(s, sizeof *s); if (s->p_name) __msan_unpoison_string(s->p_name); }
    return s;
}
#endif
#ifdef MC_ASAN
extern void __asan_set_error_report_callback(void (*cb)(const char *));
const char *__asan_default_options(void)
{
    return "halt_on_error=0:detect_leaks=0:handle_segv=0:handle_abort=0:handle_sigfpe=0:handle_sigbus=0:"
           "handle_sigill=0:allocator_may_return_null=1:detect_stack_use_after_return=0:"
           "malloc_context_size=4:quarantine_size_mb=8:max_free_fill_size=64:free_fill_byte=221:"
           "malloc_fill_byte=190:max_malloc_fill_size=4096:detect_odr_violation=0:"
           "external_symbolizer_path=/usr/bin/llvm-symbolizer-14:allow_user_segv_handler=1:"
           "strict_string_checks=1:replace_str=1:replace_intrin=1:intercept_strlen=1:intercept_strchr=1:"
           "intercept_strstr=1:intercept_strndup=1:intercept_memcmp=1:strict_memcmp=0";
}
const char *__ubsan_default_options(void)
{
    return "halt_on_error=0:print_stacktrace=0:report_error_type=1";
}
#endif

sigjmp_buf mc_jmp;
volatile int mc_protected;

/* ------------------------------------------------------------------ globals */
static const char *g_prop = "C??";
static int g_out = 1;
static int g_thorough;
static int g_workers = 16;
static uint64_t g_la_cap = 6000000;           /* look-ahead entries kept per BFS level (beyond it: counted as lookahead_dropped) */
static double g_deadline;           /* absolute, 0 = none */
static int g_deadline_hit;
static const char *g_replay;        /* token or NULL */
static int g_verbose;
static char *g_xargs[64];
static int g_nxargs;
static int g_allow_exit;
static int g_is_worker;
static int g_errfd = 2;             /* original stderr */
static int g_sanfd = 2;             /* where the sanitizers report (fd 2 unless the library's own stderr chatter is muted) */
static int g_mute;
static off_t g_err_off;
static volatile uint64_t g_case_serial;
static uint64_t g_viol_serial;
static int g_case_nontrivial_done;

static struct {
    int kind;                       /* 0 none, 1 e1, 2 e2 */
    const char *sysname;
    const mc_sys *sys;
    int level;
    uint64_t idx;
    const uint16_t *hist;
    int hlen;
    int op;                         /* -1: none */
    const char *phase;
    mc_desc_fn describe;
    void *ctx;
    const char *shape;
    char note[600];
} cur;

static struct {
    int active, plen, n, kmax;
    int prefix[MC_MAXPTS], choice[MC_MAXPTS], nopt[MC_MAXPTS];
    int replay_only, replay_len; int replay_vec[MC_MAXPTS];
} e3;

double mc_now(void)
{
    struct timespec ts;
    clock_gettime(CLOCK_MONOTONIC, &ts);
    return ts.tv_sec + ts.tv_nsec * 1e-9;
}
int mc_deadline_hit(void)
{
    if (g_deadline_hit) return 1;
    if (g_deadline > 0 && mc_now() > g_deadline) g_deadline_hit = 1;
    return g_deadline_hit;
}
int mc_thorough(void) { return g_thorough; }
int mc_replaying(void) { return g_replay != NULL; }
int mc_have_asan(void)
{
#ifdef MC_ASAN
    return 1;
#else
    return 0;
#endif
}
int mc_have_msan(void)
{
#ifdef MC_MSAN
    return 1;
#else
    return 0;
#endif
}
void mc_allow_exit(int on) { g_allow_exit = on; }

const char *mc_arg(const char *name, const char *dflt)
{
    size_t n = strlen(name);
    for (int i = g_nxargs - 1; i >= 0; i--)          /* the last one given wins (tools/check --xarg overrides the registered value) */
        if (!strncmp(g_xargs[i], name, n) && g_xargs[i][n] == '=') return g_xargs[i] + n + 1;
    return dflt;
}
long mc_arg_int(const char *name, long dflt)
{
    const char *v = mc_arg(name, NULL);
    return v ? strtol(v, NULL, 0) : dflt;
}

/* ------------------------------------------------------------------ record output */
static void sanitize_field(char *s)
{
    for (; *s; s++) if (*s == '\t' || *s == '\n' || *s == '\r') *s = ' ';
}
static void emit_raw(const char *line, size_t n)
{
    while (n) {
        ssize_t w = write(g_out, line, n);
        if (w < 0) { if (errno == EINTR) continue; return; }
        line += w; n -= (size_t) w;
    }
}
static void emitf(const char *fmt, ...)
{
    char buf[4090];
    va_list ap;
    va_start(ap, fmt);
    int n = vsnprintf(buf, sizeof(buf) - 2, fmt, ap);
    va_end(ap);
    if (n < 0) return;
    if (n > (int) sizeof(buf) - 2) n = sizeof(buf) - 2;
    buf[n++] = '\n';
    emit_raw(buf, (size_t) n);     /* < PIPE_BUF: one atomic append */
}

void mc_esc(const void *p, size_t n, char *out, size_t outn)
{
    const unsigned char *s = p;
    size_t o = 0;
    if (!p) { snprintf(out, outn, "NULL"); return; }
    for (size_t i = 0; i < n && o + 5 < outn; i++) {
        unsigned char c = s[i];
        if (c == '\\') { out[o++] = '\\'; out[o++] = '\\'; }
        else if (c >= 0x20 && c < 0x7f) out[o++] = (char) c;
        else o += (size_t) snprintf(out + o, outn - o, "\\x%02x", c);
    }
    out[o] = 0;
}

/* ------------------------------------------------------------------ stats */
#define MAXSTAT 96
static struct { char key[48]; long v; } g_stat[MAXSTAT];
static int g_nstat;
void mc_stat_add(const char *key, long v)
{
    for (int i = 0; i < g_nstat; i++)
        if (!strcmp(g_stat[i].key, key)) { g_stat[i].v += v; return; }
    if (g_nstat < MAXSTAT) {
        snprintf(g_stat[g_nstat].key, sizeof(g_stat[0].key), "%s", key);
        g_stat[g_nstat++].v = v;
    }
}
static void stats_flush(void)
{
    for (int i = 0; i < g_nstat; i++) if (g_stat[i].v) emitf("S\t%s\t%ld", g_stat[i].key, g_stat[i].v);
    g_nstat = 0;
}
#define MAXOUT 4096
static uint64_t g_outc[MAXOUT];
static int g_noutc, g_outc_capped;
void mc_outcome(uint64_t h)
{
    if (!h) h = 1;
    unsigned i = (unsigned) (h % MAXOUT);
    for (int probe = 0; probe < 64; probe++, i = (i + 1) % MAXOUT) {
        if (g_outc[i] == h) return;
        if (!g_outc[i]) { if (g_noutc > MAXOUT / 2) { g_outc_capped = 1; return; } g_outc[i] = h; g_noutc++; return; }
    }
    g_outc_capped = 1;
}
static void outcomes_flush(void)
{
    for (int i = 0; i < MAXOUT; i++) if (g_outc[i]) { emitf("O\t%016llx", (unsigned long long) g_outc[i]); g_outc[i] = 0; }
    if (g_outc_capped) emitf("S\toutcomes_capped\t1");
    g_noutc = 0; g_outc_capped = 0;
}
uint64_t mc_hash(const void *p, size_t n)
{
    const unsigned char *s = p; uint64_t h = 1469598103934665603ULL;
    for (size_t i = 0; i < n; i++) { h ^= s[i]; h *= 1099511628211ULL; }
    return h;
}
uint64_t mc_hash_str(const char *s) { return s ? mc_hash(s, strlen(s)) : 77; }

void mc_info(const char *key, const char *fmt, ...)
{
    char b[3000]; va_list ap; va_start(ap, fmt); vsnprintf(b, sizeof b, fmt, ap); va_end(ap);
    sanitize_field(b);
    if (!g_is_worker) emitf("I\t%s\t%s", key, b);
}
static int g_nsamples;
void mc_sample(const char *fmt, ...)
{
    char b[3000]; va_list ap;
    if (g_nsamples++ > 12) return;
    va_start(ap, fmt); vsnprintf(b, sizeof b, fmt, ap); va_end(ap);
    sanitize_field(b);
    emitf("X\t%s", b);
}
void mc_nontrivial(void)
{
    if (!g_case_nontrivial_done) { g_case_nontrivial_done = 1; mc_stat_add("nontrivial", 1); }
}
void mc_set_shape(const char *shape) { cur.shape = shape; }
void mc_note(const char *fmt, ...)
{
    va_list ap; va_start(ap, fmt); vsnprintf(cur.note, sizeof cur.note, fmt, ap); va_end(ap);
}

/* ------------------------------------------------------------------ violations */
#define MAXSIG 128
static uint64_t g_sigs[MAXSIG];
static int g_nsigs;
uint64_t mc_viol_serial(void) { return g_viol_serial; }

static void cur_token(char *tok, size_t tn, char *desc, size_t dn)
{
    size_t o = 0;
    tok[0] = desc[0] = 0;
    if (cur.kind == 1) {
        o = (size_t) snprintf(tok, tn, "e1;%s;h=", cur.sysname);
        size_t d = 0;
        for (int i = 0; i < cur.hlen + (cur.op >= 0 ? 1 : 0); i++) {
            int op = i < cur.hlen ? cur.hist[i] : cur.op;
            char nm[160] = "?";
            if (o + 8 < tn) o += (size_t) snprintf(tok + o, tn - o, "%s%d", i ? "," : "", op);
            if (cur.sys && cur.sys->op_name) cur.sys->op_name(op, nm, sizeof nm);
            if (d + 170 < dn) d += (size_t) snprintf(desc + d, dn - d, "%s%s", i ? (i == cur.hlen ? " => " : " ; ") : "", nm);
        }
        if (cur.phase && d + 40 < dn) d += (size_t) snprintf(desc + d, dn - d, " [%s]", cur.phase);
        if (cur.note[0] && d + 20 < dn) snprintf(desc + d, dn - d, " {%s}", cur.note);
    } else if (cur.kind == 2) {
        o = (size_t) snprintf(tok, tn, "e2;%s;%d;%llu", cur.sysname, cur.level, (unsigned long long) cur.idx);
        if (e3.active || e3.n > 0) {
            o += (size_t) snprintf(tok + o, tn - o, ";c=");
            for (int i = 0; i < e3.n && o + 6 < tn; i++) o += (size_t) snprintf(tok + o, tn - o, "%s%d", i ? "," : "", e3.choice[i]);
        }
        if (cur.describe) cur.describe(cur.idx, cur.ctx, desc, dn > 600 ? dn - 600 : dn);
        size_t d = strlen(desc);
        if (cur.note[0] && d + 20 < dn) snprintf(desc + d, dn - d, " {%s}", cur.note);
    } else {
        snprintf(tok, tn, "none");
        snprintf(desc, dn, "%s", cur.note);
    }
}

static void record_violation(const char *site, const char *kind, const char *shape, const char *detail)
{
    char tok[700], desc[MC_DESCMAX], d2[900], sg[400];
    g_viol_serial++;
    mc_stat_add("violations_raw", 1);
    snprintf(sg, sizeof sg, "%s|%s|%s|%s", g_prop, site, kind, shape ? shape : "");
    uint64_t h = mc_hash_str(sg);
    for (int i = 0; i < g_nsigs; i++) if (g_sigs[i] == h) return;     /* first instance per signature per process */
    if (g_nsigs < MAXSIG) g_sigs[g_nsigs++] = h; else return;
    cur_token(tok, sizeof tok, desc, sizeof desc);
    snprintf(d2, sizeof d2, "%s", detail ? detail : "");
    sanitize_field(desc); sanitize_field(d2); sanitize_field(sg); sanitize_field(tok);
    desc[2200] = 0;
    emitf("V\t%s\t%s\t%s\t%s", sg, tok, desc, d2);
    if (g_replay || g_verbose) dprintf(g_errfd, "VIOLATION-DETAIL %s\n   case: %s\n   %s\n", sg, desc, d2);
}

void mc_fail(const char *site, const char *kind, const char *shape, const char *fmt, ...)
{
    char b[900]; va_list ap;
    va_start(ap, fmt); vsnprintf(b, sizeof b, fmt, ap); va_end(ap);
    record_violation(site, kind, shape && *shape ? shape : (cur.shape ? cur.shape : ""), b);
}

/* ------------------------------------------------------------------ sanitizers */
#ifdef MC_ASAN
static void asan_cb(const char *report)
{
    char type[80] = "unknown", site[120] = "?", det[600];
    const char *p = strstr(report, "ERROR: AddressSanitizer: ");
    if (p) {
        p += 25;
        size_t i = 0;
        while (p[i] && p[i] != ' ' && p[i] != '\n' && p[i] != ':' && i < sizeof type - 1) { type[i] = p[i]; i++; }
        type[i] = 0;
        if (!strcmp(type, "attempting")) {          /* "attempting double-free", "attempting free on address which was not malloc()-ed" */
            const char *q = p + 11; i = 0;
            while (q[i] && q[i] != ' ' && q[i] != '\n' && i < sizeof type - 1) { type[i] = q[i]; i++; }
            type[i] = 0;
            if (!strcmp(type, "free")) strcpy(type, "bad-free");
        }
    }
    /* first frame inside the repository sources names the site */
    const char *q = report;
    int found = 0;
    while ((q = strstr(q, " in ")) != NULL) {
        const char *fn = q + 4, *e = fn;
        while (*e && *e != ' ' && *e != '\n') e++;
        const char *eol = strchr(fn, '\n');
        const char *src = strstr(fn, MC_REPO_SRC);
        if (*e == ' ' && src && (!eol || src < eol)) {
            size_t n = (size_t) (e - fn); if (n >= sizeof site) n = sizeof site - 1;
            memcpy(site, fn, n); site[n] = 0; found = 1; break;
        }
        q = fn;
    }
    if (!found) {
        const char *s = strstr(report, "SUMMARY: AddressSanitizer:");
        if (s && (s = strstr(s, " in "))) {
            s += 4; size_t i = 0;
            while (s[i] && s[i] != ' ' && s[i] != '\n' && i < sizeof site - 1) { site[i] = s[i]; i++; }
            site[i] = 0;
        }
    }
    const char *l = strstr(report, "ERROR: AddressSanitizer");
    size_t i = 0;
    if (l) { while (l[i] && l[i] != '\n' && i < 200) { det[i] = l[i]; i++; } }
    det[i] = 0;
    const char *rw = strstr(report, "\nREAD of size");
    if (!rw) rw = strstr(report, "\nWRITE of size");
    if (rw) { rw++; size_t j = 0; det[i++] = ' '; while (rw[j] && rw[j] != '\n' && rw[j] != 't' && i < 260) det[i++] = rw[j++]; det[i] = 0; }
    const char *loc = strstr(report, " is located ");
    if (loc) { const char *b = loc; while (b > report && b[-1] != '\n') b--; size_t j = 0; det[i++] = ' '; while (b[j] && b[j] != '\n' && i < 560) det[i++] = b[j++]; det[i] = 0; }
    char kind[100]; snprintf(kind, sizeof kind, "asan:%s", type);
    record_violation(site, kind, cur.shape ? cur.shape : "", det);
}
#endif

void mc_poll_sanitizers(void)
{
#if defined(MC_ASAN) || defined(MC_MSAN)
    if (g_replay) return;
    off_t end = lseek(g_sanfd, 0, SEEK_END);
    if (end <= g_err_off) { if (end < g_err_off) g_err_off = end; return; }
    char buf[16384];
    off_t from = g_err_off;
    while (from < end) {
        ssize_t n = pread(g_sanfd, buf, sizeof buf - 1, from);
        if (n <= 0) break;
        buf[n] = 0;
        char *p = buf;
#ifdef MC_MSAN
        for (char *w = buf; (w = strstr(w, "WARNING: MemorySanitizer: ")) != NULL; w += 20) {
            char kind[100] = "msan:", site[120] = "?", det[400]; size_t kn = 5, i = 0;
            for (const char *m = w + 26; *m && *m != '\n' && *m != ' ' && kn < sizeof kind - 1; m++) kind[kn++] = *m;
            kind[kn] = 0;
            /* first frame inside the repository sources names the site */
            const char *q = w, *stop = strstr(w + 20, "WARNING: MemorySanitizer: "); int found = 0;
            while ((q = strstr(q, " in ")) != NULL && (!stop || q < stop)) {
                const char *fn = q + 4, *e = fn; while (*e && *e != ' ' && *e != '\n') e++;
                const char *eol = strchr(fn, '\n'), *src = strstr(fn, MC_REPO_SRC);
                if (*e == ' ' && src && (!eol || src < eol)) { size_t n = (size_t) (e - fn); if (n >= sizeof site) n = sizeof site - 1; memcpy(site, fn, n); site[n] = 0; found = 1;
                    const char *ln = src + strlen(MC_REPO_SRC); while (*ln && *ln != '\n' && i < sizeof det - 1) det[i++] = *ln++; break; }
                q = fn;
            }
            det[i] = 0;
            if (!found) { const char *f0 = strstr(w, " in "); if (f0 && (!stop || f0 < stop)) { f0 += 4; size_t n = 0; while (f0[n] && f0[n] != ' ' && f0[n] != '\n' && n < sizeof site - 1) { site[n] = f0[n]; n++; } site[n] = 0; } }
            char d2[500]; snprintf(d2, sizeof d2, "MemorySanitizer: a value that was never initialised decides a branch, an address or a call argument (%s)", det[0] ? det : "outside the library sources");
            record_violation(site, kind, cur.shape ? cur.shape : "", d2);
        }
#endif
        while ((p = strstr(p, "runtime error: ")) != NULL) {
            char *ls = p; while (ls > buf && ls[-1] != '\n') ls--;
            char *le = strchr(p, '\n'); if (le) *le = 0;
            char site[120], kind[160]; const char *msg = p + 15;
            /* "applying zero offset to null pointer" (NULL + 0, e.g. the end pointer of an empty key given as NULL): no byte is touched and every
             * compiler defines it as NULL; it is not one of the listed properties' concerns and is not reported */
            if (!strncmp(msg, "applying zero offset to null pointer", 36)) { if (!le) break; p = le + 1; continue; }
            /* site: file basename + line */
            char *colon = strchr(ls, ':'); const char *base = ls;
            for (char *c = ls; c < p; c++) if (*c == '/') base = c + 1;
            (void) colon;
            size_t sn = 0; const char *c = base; int colons = 0;
            while (c < p && sn < sizeof site - 1) { if (*c == ':' && ++colons == 2) break; site[sn++] = *c++; }
            site[sn] = 0;
            size_t kn = (size_t) snprintf(kind, sizeof kind, "ubsan:");
            for (const char *m = msg; *m && kn < 70; m++) {
                if (*m >= '0' && *m <= '9') { if (kind[kn - 1] != 'N') kind[kn++] = 'N'; }
                else if (*m == ' ') kind[kn++] = '_';
                else if (*m == '-' && kn && kind[kn - 1] == '_' && m[1] >= '0' && m[1] <= '9') { /* sign */ }
                else kind[kn++] = *m;
            }
            kind[kn] = 0;
            record_violation(site, kind, cur.shape ? cur.shape : "", ls);
            if (!le) break;
            p = le + 1;
        }
        from += n;
    }
    g_err_off = end;
    if (end > (64 << 20)) { if (ftruncate(2, 0) == 0) { lseek(2, 0, SEEK_SET); g_err_off = 0; } }
#endif
}

static long g_engine_bytes;          /* heap held by the engine's own tables; excluded from the harness' view */
static long raw_live_bytes(void)
{
#ifdef MC_SANALLOC
    return (long) __sanitizer_get_current_allocated_bytes();
#else
    struct mallinfo2 mi = mallinfo2();
    return (long) (mi.uordblks + mi.hblkhd);
#endif
}
long mc_live_bytes(void) { return raw_live_bytes() - g_engine_bytes; }
size_t mc_block_size(const void *p)
{
    if (!p) return 0;
#ifdef MC_SANALLOC
    if (!__sanitizer_get_ownership(p)) return 0;
    return __sanitizer_get_allocated_size(p);
#else
    return malloc_usable_size((void *) p);
#endif
}

/* ------------------------------------------------------------------ signals, exit trap, watchdog */
static const char *signame(int s)
{
    switch (s) {
    case SIGSEGV: return "SIGSEGV"; case SIGBUS: return "SIGBUS"; case SIGFPE: return "SIGFPE";
    case SIGABRT: return "SIGABRT"; case SIGILL: return "SIGILL"; case SIGXFSZ: return "SIGXFSZ";
    default: return "SIG?";
    }
}
static void on_crash(int sig, siginfo_t *si, void *uc)
{
    (void) uc;
    if (mc_protected) {
        char kind[40], det[120];
        snprintf(kind, sizeof kind, sig == SIGXFSZ ? "hang:runaway-output" : "crash:%s", signame(sig));
        snprintf(det, sizeof det, "signal %d at address %p", sig, si ? si->si_addr : NULL);
        record_violation(cur.sysname ? cur.sysname : "?", kind, cur.shape ? cur.shape : "", det);
        if (sig == SIGXFSZ) { stats_flush(); _exit(3); }
        mc_protected = 0;
        siglongjmp(mc_jmp, sig);
    }
    dprintf(g_errfd, "mc: fatal signal %d outside a guarded call (harness bug)\n", sig);
    emitf("E\tharness crashed with signal %d outside guarded region", sig);
    _exit(2);
}
static uint64_t wd_last_prof, wd_last_real; static int wd_ticks_prof, wd_ticks_real;
static int g_hang_cpu_s = 8, g_hang_wall_s = 90;
static void on_tick(int sig)
{
    uint64_t *last = sig == SIGPROF ? &wd_last_prof : &wd_last_real;
    int *ticks = sig == SIGPROF ? &wd_ticks_prof : &wd_ticks_real;
    int limit = sig == SIGPROF ? g_hang_cpu_s : g_hang_wall_s / 5;
    if (!mc_protected || *last != g_case_serial) { *last = g_case_serial; *ticks = 0; return; }
    if (++*ticks < limit) return;
    record_violation(cur.sysname ? cur.sysname : "?", sig == SIGPROF ? "hang:cpu" : "hang:blocked", cur.shape ? cur.shape : "",
                     sig == SIGPROF ? "no progress within the CPU-time horizon of one case" : "blocked beyond the wall-time horizon of one case");
    stats_flush();
    emitf("S\tincomplete\t1");
    _exit(3);
}
void __real_exit(int code) __attribute__((noreturn, weak));
void (*mc_exit_hook)(void);
void __wrap_exit(int code);
void __wrap_exit(int code)
{
    if (mc_protected && !g_allow_exit) {
        char det[64]; snprintf(det, sizeof det, "exit(%d) called by the library", code);
        record_violation(cur.sysname ? cur.sysname : "?", "crash:exit", cur.shape ? cur.shape : "", det);
        mc_protected = 0;
        siglongjmp(mc_jmp, 99);
    }
    if (g_is_worker || g_allow_exit) {
        if (mc_exit_hook) { void (*h)(void) = mc_exit_hook; mc_exit_hook = NULL; h(); }         /* stands in for an exit handler of the program under test (run once) */
        fflush(NULL); _exit(code);
    }
    if (__real_exit) __real_exit(code);
    _exit(code);
}
void mc_child_reset(void)
{
    int sigs[] = { SIGSEGV, SIGBUS, SIGFPE, SIGABRT, SIGILL, SIGXFSZ, SIGPROF, SIGALRM };
    struct itimerval z = { {0, 0}, {0, 0} };
    setitimer(ITIMER_PROF, &z, NULL); setitimer(ITIMER_REAL, &z, NULL);
    for (unsigned i = 0; i < sizeof sigs / sizeof *sigs; i++) signal(sigs[i], SIG_DFL);
    mc_protected = 0; g_allow_exit = 1; g_is_worker = 1;
    alarm(60);                              /* a cell that never ends is ended by SIGALRM and seen as a signal by the parent */
}
static void install_handlers(void)
{
    static char altstack[1 << 16];
    stack_t ss = { .ss_sp = altstack, .ss_size = sizeof altstack, .ss_flags = 0 };
    sigaltstack(&ss, NULL);
    struct sigaction sa; memset(&sa, 0, sizeof sa);
    sa.sa_sigaction = on_crash; sa.sa_flags = SA_SIGINFO | SA_NODEFER | SA_ONSTACK;
    int sigs[] = { SIGSEGV, SIGBUS, SIGFPE, SIGABRT, SIGILL, SIGXFSZ };
    for (unsigned i = 0; i < sizeof sigs / sizeof *sigs; i++) sigaction(sigs[i], &sa, NULL);
    struct sigaction st; memset(&st, 0, sizeof st);
    st.sa_handler = on_tick; st.sa_flags = SA_RESTART | SA_ONSTACK;
    sigaction(SIGPROF, &st, NULL); sigaction(SIGALRM, &st, NULL);
    signal(SIGPIPE, SIG_IGN);
}
static void start_watchdog(void)
{
    struct itimerval p = { {1, 0}, {1, 0} }, r = { {5, 0}, {5, 0} };
    setitimer(ITIMER_PROF, &p, NULL);
    setitimer(ITIMER_REAL, &r, NULL);
}
static void redirect_stderr(void)
{
    char path[] = "/tmp/verif-mc-err-XXXXXX";
    const char *td = getenv("VERIF_SCRATCH");
    char buf[512];
    int fd;
    if (g_replay) return;
    if (td) { snprintf(buf, sizeof buf, "%s/err-XXXXXX", td); fd = mkstemp(buf); if (fd >= 0) unlink(buf); }
    else { fd = mkstemp(path); if (fd >= 0) unlink(path); }
    if (fd < 0) return;
    fflush(stderr);
    dup2(fd, 2); close(fd);
    g_err_off = 0;
#ifdef MC_SANALLOC
    if (g_mute) {       /* runs at a runtime debug level > 0: the library's trace output goes to /dev/null, sanitizer reports stay in the scanned file */
        g_sanfd = dup(2);
        __sanitizer_set_report_fd((void *) (intptr_t) g_sanfd);
        int nul = open("/dev/null", O_WRONLY);
        if (nul >= 0) { dup2(nul, 2); close(nul); }
    }
#else
    if (g_mute) { int nul = open("/dev/null", O_WRONLY); if (nul >= 0) { dup2(nul, 2); close(nul); } }
#endif
}
long mc_dlevel(void)
{
    long n = mc_arg_int("dlevel", 0);
    if (n > 0) g_mute = 1;
    return n;
}

/* ------------------------------------------------------------------ init / finish */
static double g_t0;
void mc_init(const char *property, int argc, char **argv)
{
    g_prop = property;
    g_t0 = mc_now();
    const char *w = getenv("VERIF_WORKERS");
    if (w) g_workers = atoi(w);
    for (int i = 1; i < argc; i++) {
        const char *a = argv[i];
        if (!strncmp(a, "--out=", 6)) { g_out = open(a + 6, O_WRONLY | O_CREAT | O_APPEND, 0644); if (g_out < 0) { perror(a + 6); _exit(2); } }
        else if (!strcmp(a, "--tier=thorough")) g_thorough = 1;
        else if (!strcmp(a, "--tier=quick")) g_thorough = 0;
        else if (!strncmp(a, "--workers=", 10)) g_workers = atoi(a + 10);
        else if (!strncmp(a, "--deadline=", 11)) g_deadline = mc_now() + atof(a + 11);
        else if (!strncmp(a, "--la-cap=", 9)) g_la_cap = strtoull(a + 9, NULL, 10);
        else if (!strncmp(a, "--replay=", 9)) g_replay = a + 9;
        else if (!strcmp(a, "--verbose")) g_verbose = 1;
        else if (!strncmp(a, "--hang-cpu=", 11)) g_hang_cpu_s = atoi(a + 11);
        else if (!strncmp(a, "--", 2) && strchr(a, '=') && g_nxargs < 64) g_xargs[g_nxargs++] = (char *) a + 2;
    }
    if (g_workers < 1) g_workers = 1;
    if (g_workers > 64) g_workers = 64;
    if (g_replay) g_workers = 1;
    g_errfd = dup(2);
    fcntl(g_errfd, F_SETFD, FD_CLOEXEC);
    struct rlimit rl = { 1L << 30, 1L << 30 };
    setrlimit(RLIMIT_FSIZE, &rl);
    struct rlimit core = { 0, 0 };
    setrlimit(RLIMIT_CORE, &core);
    install_handlers();
#ifdef MC_ASAN
    __asan_set_error_report_callback(asan_cb);
#endif
    redirect_stderr();
    start_watchdog();
    cur.op = -1;
}
int mc_finish(void)
{
    stats_flush();
    outcomes_flush();
    emitf("S\twall_ms\t%ld", (long) ((mc_now() - g_t0) * 1000));
    if (g_deadline_hit) emitf("S\tdeadline_hit\t1");
    emitf("Z\tdone");
    return 0;
}

/* ------------------------------------------------------------------ helpers */
__attribute__((noinline)) void mc_dirty_stack(int byte, size_t n)
{
    volatile char *p = alloca(n);
    for (size_t i = 0; i < n; i++) p[i] = (char) byte;
    __asm__ volatile("" : : "r"(p) : "memory");
}
void mc_dirty_heap(int byte)
{
    static const size_t sz[] = { 8, 16, 24, 32, 48, 64, 96, 128, 256, 512, 1024, 4096, 20480, 32768 };
    void *b[14][4];
    for (unsigned i = 0; i < 14; i++) for (int j = 0; j < 4; j++) { b[i][j] = malloc(sz[i]); if (b[i][j]) memset(b[i][j], byte, sz[i]); }
    for (unsigned i = 0; i < 14; i++) for (int j = 0; j < 4; j++) free(b[i][j]);
}
char *mc_heapstr(const char *s)
{
    if (!s) return NULL;
    size_t n = strlen(s) + 1; char *p = malloc(n); memcpy(p, s, n); return p;
}
void *mc_heapmem(const void *p, size_t n)
{
    void *q = malloc(n ? n : 1); if (n && p) memcpy(q, p, n); return q;
}
uint64_t mc_words_of_len(int k, int len)
{
    uint64_t r = 1; for (int i = 0; i < len; i++) r *= (uint64_t) k; return r;
}
uint64_t mc_words_count(int k, int maxlen)
{
    uint64_t r = 0; for (int l = 0; l <= maxlen; l++) r += mc_words_of_len(k, l); return r;
}
void mc_word_decode(uint64_t idx, int k, int len, int *digits)
{
    for (int i = len - 1; i >= 0; i--) { digits[i] = (int) (idx % (uint64_t) k); idx /= (uint64_t) k; }
}

/* ------------------------------------------------------------------ worker plumbing */
typedef struct { volatile uint64_t inflight_i; volatile int inflight_op; volatile int done; volatile int complete; volatile uint64_t cases; volatile uint64_t beat; } wslot;
static wslot *g_slots;
static void slots_init(void)
{
    if (!g_slots) g_slots = mmap(NULL, sizeof(wslot) * 64, PROT_READ | PROT_WRITE, MAP_SHARED | MAP_ANONYMOUS, -1, 0);
    memset(g_slots, 0, sizeof(wslot) * 64);
}
static wslot *g_myslot;             /* the forked worker's own slot: every guarded step leaves a heartbeat there */
#define BEAT() do { if (g_myslot) g_myslot->beat++; } while (0)
/* the parent's backstop: a worker whose heartbeat stands still for longer than its own watchdogs could explain (wedged inside the allocator or
 * the sanitizer runtime after the library corrupted the heap, signal handlers included) is killed; the caller records the case it was running */
static void wait_workers(pid_t *pids, int W, int *status)
{
    uint64_t last[64]; double since[64]; int alive[64], left = W;
    double limit = (double) (g_hang_wall_s + g_hang_cpu_s + 120);
    for (int w = 0; w < W; w++) { last[w] = g_slots[w].beat; since[w] = mc_now(); alive[w] = 1; status[w] = 0; }
    while (left > 0) {
        int reaped = 0;
        for (int w = 0; w < W; w++) {
            if (!alive[w]) continue;
            int st = 0; pid_t r = waitpid(pids[w], &st, WNOHANG);
            if (r == pids[w] || (r < 0 && errno != EINTR)) { alive[w] = 0; left--; status[w] = st; reaped = 1; continue; }
            uint64_t b = g_slots[w].beat; double now = mc_now();
            if (b != last[w]) { last[w] = b; since[w] = now; }
            else if (now - since[w] > limit) { kill(pids[w], SIGKILL); since[w] = now; }
        }
        if (!reaped && left > 0) { struct timespec ts = { 0, 20 * 1000 * 1000 }; nanosleep(&ts, NULL); }
    }
}
static void worker_enter(void)
{
    g_is_worker = 1;
    g_nstat = 0; g_noutc = 0; memset(g_outc, 0, sizeof g_outc);
    redirect_stderr();
    start_watchdog();
}
static void worker_leave(int w, int complete)
{
    stats_flush(); outcomes_flush();
    g_slots[w].complete = complete; g_slots[w].done = 1;
    fflush(NULL);
    _exit(0);
}

int mc_guarded(const char *sysname, const char *what, void (*fn)(void *), void *ctx)
{
    int sig;
    memset(&cur, 0, sizeof cur);
    cur.kind = 0; cur.sysname = sysname; cur.op = -1;
    snprintf(cur.note, sizeof cur.note, "%s", what);
    g_case_serial++;
    mc_protected = 1;
    if ((sig = sigsetjmp(mc_jmp, 0)) == 0) fn(ctx);
    mc_protected = 0;
    mc_poll_sanitizers();
    return sig;
}

/* ------------------------------------------------------------------ E2 */
static int token_e2(const char *tok, const char *sysname, int level, uint64_t *idx)
{
    /* e2;<sys>;<level>;<idx>[;c=...] */
    char sys[128]; int lv; unsigned long long ix; int n = 0;
    if (strncmp(tok, "e2;", 3)) return 0;
    const char *p = tok + 3; const char *semi = strchr(p, ';'); if (!semi) return 0;
    size_t sl = (size_t) (semi - p); if (sl >= sizeof sys) return 0;
    memcpy(sys, p, sl); sys[sl] = 0;
    if (sscanf(semi + 1, "%d;%llu%n", &lv, &ix, &n) < 2) return 0;
    if (strcmp(sys, sysname) || lv != level) return 0;
    *idx = ix;
    const char *c = strstr(semi + 1 + n, ";c=");
    e3.replay_only = 0;
    if (c) {
        e3.replay_only = 1; e3.replay_len = 0; c += 3;
        while (*c && e3.replay_len < MC_MAXPTS) { e3.replay_vec[e3.replay_len++] = (int) strtol(c, (char **) &c, 10); if (*c == ',') c++; }
    }
    return 1;
}
/* what errno holds when a case or an operation starts is none of the library's business: it is left over from something unrelated.
 * Deterministic (a function of the case index / the operation), so that a replay sees the same value. */
static const int STALE_ERRNO[4] = { 0, ENOMEM, EINTR, EAGAIN };
static void e2_one(mc_case_fn fn, uint64_t idx, void *ctx)
{
    cur.idx = idx; cur.note[0] = 0; cur.shape = NULL;
    g_case_serial++; g_case_nontrivial_done = 0; BEAT();
    e3.active = 0; e3.n = 0;
    mc_protected = 1;
    if (sigsetjmp(mc_jmp, 0) == 0) { errno = STALE_ERRNO[idx & 3]; fn(idx, ctx); }
    mc_protected = 0;
    e3.active = 0;
    mc_poll_sanitizers();
    e3.n = 0;
}
int mc_e2_level(const char *sysname, int level, uint64_t n_cases, mc_case_fn fn, mc_desc_fn describe, void *ctx)
{
    memset(&cur, 0, sizeof cur);
    cur.kind = 2; cur.sysname = sysname; cur.level = level; cur.describe = describe; cur.ctx = ctx; cur.op = -1;
    if (g_replay) {
        uint64_t idx;
        if (!token_e2(g_replay, sysname, level, &idx)) return 1;
        char d[MC_DESCMAX] = ""; if (describe) describe(idx, ctx, d, sizeof d);
        dprintf(g_errfd, "replaying %s level %d case %llu: %s\n", sysname, level, (unsigned long long) idx, d);
        uint64_t before = g_viol_serial;
        e2_one(fn, idx, ctx);
        dprintf(g_errfd, "replay finished: %s\n", g_viol_serial != before ? "VIOLATION reproduced" : "no violation");
        mc_stat_add("evaluations", 1);
        return 1;
    }
    if (n_cases == 0) return 1;
    if (mc_deadline_hit()) { mc_stat_add("incomplete", 1); mc_stat_add("levels_skipped", 1); return 0; }
    int W = g_workers; if ((uint64_t) W > n_cases) W = (int) n_cases;
    slots_init();
    pid_t pids[64];
    fflush(NULL);
    for (int w = 0; w < W; w++) {
        pid_t p = fork();
        if (p < 0) { emitf("E\tfork failed"); _exit(2); }
        if (p == 0) {
            worker_enter(); g_myslot = &g_slots[w];
            uint64_t n = 0; int complete = 1;
            for (uint64_t idx = (uint64_t) w; idx < n_cases; idx += (uint64_t) W) {
                if ((n & 255) == 0 && mc_deadline_hit()) { complete = 0; break; }
                g_slots[w].inflight_i = idx;
                e2_one(fn, idx, ctx);
                n++;
            }
            mc_stat_add("evaluations", (long) n);
            if (!complete) mc_stat_add("incomplete", 1);
            /* a few samples: first and last case of worker 0, middle of others */
            if (describe && n) {
                char d[MC_DESCMAX];
                if (w == 0) { describe(0, ctx, d, sizeof d); g_nsamples = 0; mc_sample("%s[L%d #0] %s", sysname, level, d); }
                if (w == W - 1) { uint64_t last = n_cases - 1; describe(last, ctx, d, sizeof d); g_nsamples = 0; mc_sample("%s[L%d #%llu] %s", sysname, level, (unsigned long long) last, d); }
                if (w == W / 2 && n_cases > 2) { uint64_t mid = n_cases / 2; describe(mid, ctx, d, sizeof d); g_nsamples = 0; mc_sample("%s[L%d #%llu] %s", sysname, level, (unsigned long long) mid, d); }
            }
            worker_leave(w, complete);
        }
        pids[w] = p;
    }
    int all = 1; int wst[64];
    wait_workers(pids, W, wst);
    for (int w = 0; w < W; w++) {
        int st = wst[w];
        if (!g_slots[w].done) {
            cur.idx = g_slots[w].inflight_i;
            char det[160]; snprintf(det, sizeof det, "worker died (wait status 0x%x) while running this case", st);
            if (!(WIFEXITED(st) && WEXITSTATUS(st) == 3))      /* 3: hang already recorded by the worker */
                record_violation(sysname, "crash:worker-died", "", det);
            mc_stat_add("incomplete", 1);
            all = 0;
        } else if (!g_slots[w].complete) { all = 0; g_deadline_hit = 1; }
    }
    mc_stat_add(all ? "levels_completed" : "levels_incomplete", 1);
    return all;
}

/* ------------------------------------------------------------------ E3 */
int mc_e3_active(void) { return e3.active; }
void mc_e3_choices(char *buf, size_t n)
{
    size_t o = 0; buf[0] = 0;
    for (int i = 0; i < e3.n && o + 6 < n; i++) o += (size_t) snprintf(buf + o, n - o, "%s%d", i ? "," : "", e3.choice[i]);
}
int mc_choose(int nopt)
{
    if (!e3.active) return 0;
    if (e3.n >= e3.kmax || e3.n >= MC_MAXPTS) return 0;
    int c = e3.n < e3.plen ? e3.prefix[e3.n] : 0;
    if (c >= nopt) {
        emitf("E\tE3 replay divergence: choice %d of %d at point %d", c, nopt, e3.n);
        c = 0;
    }
    e3.choice[e3.n] = c; e3.nopt[e3.n] = nopt; e3.n++;
    return c;
}
static void e3_exec(void (*run)(void *), void *ctx, const int *prefix, int plen, int kmax, mc_e3_stats *st)
{
    BEAT();
    memcpy(e3.prefix, prefix, sizeof(int) * (size_t) plen);
    e3.plen = plen; e3.n = 0; e3.kmax = kmax; e3.active = 1;
    g_case_serial++;
    run(ctx);
    e3.active = 0;
    mc_poll_sanitizers();
    if (st) st->executions++;
    { int dev = 0; for (int i = 0; i < e3.n; i++) if (e3.choice[i]) dev = 1; if (dev) mc_stat_add("e3_with_deviation", 1); }
}
static void e3_rec(void (*run)(void *), void *ctx, const int *prefix, int plen, int kmax, int bound, int exact, mc_e3_stats *st)
{
    /* 'exact': only executions with exactly 'bound' deviations are new at this bound, but every
     * execution has to run to learn its choice points; executions are cheap, so all run. */
    (void) exact;
    e3_exec(run, ctx, prefix, plen, kmax, st);
    int n = e3.n, choice[MC_MAXPTS], nopt[MC_MAXPTS];
    memcpy(choice, e3.choice, sizeof(int) * (size_t) n);
    memcpy(nopt, e3.nopt, sizeof(int) * (size_t) n);
    for (int i = plen; i < n; i++) {
        int devs = 0;
        for (int j = 0; j < i; j++) if (choice[j]) devs++;
        if (devs + 1 > bound) continue;
        for (int alt = 1; alt < nopt[i]; alt++) {
            int np[MC_MAXPTS];
            memcpy(np, choice, sizeof(int) * (size_t) i);
            np[i] = alt;
            e3_rec(run, ctx, np, i + 1, kmax, bound, exact, st);
        }
    }
}
void mc_e3_explore(void (*run)(void *ctx), void *ctx, int kmax, int dev_bound, mc_e3_stats *out)
{
    mc_e3_stats st = { 0, -1 };
    if (kmax > MC_MAXPTS) kmax = MC_MAXPTS;
    if (g_replay && e3.replay_only) {
        e3_exec(run, ctx, e3.replay_vec, e3.replay_len, kmax, &st);
        if (out) *out = st;
        return;
    }
    /* iterate the deviation bound: the first counterexample has the fewest deviations */
    uint64_t v0 = g_viol_serial;
    for (int b = 0; b <= dev_bound; b++) {
        e3_rec(run, ctx, NULL, 0, kmax, b, 1, &st);
        st.bound_completed = b;
        if (g_viol_serial != v0) break;
    }
    if (g_viol_serial == v0) st.bound_completed = dev_bound;
    if (out) *out = st;
}

/* ------------------------------------------------------------------ E1 */
typedef struct { char **slot; size_t cap, n; } strset;
static void ss_init(strset *s, size_t cap) { s->cap = cap; s->n = 0; s->slot = calloc(cap, sizeof(char *)); }
static int ss_find(const strset *s, const char *k, size_t *pos)
{
    size_t i = (size_t) (mc_hash_str(k) & (s->cap - 1));
    while (s->slot[i]) { if (!strcmp(s->slot[i], k)) { *pos = i; return 1; } i = (i + 1) & (s->cap - 1); }
    *pos = i; return 0;
}
static void ss_grow(strset *s)
{
    long b0 = raw_live_bytes();
    strset n; ss_init(&n, s->cap * 2);
    for (size_t i = 0; i < s->cap; i++) if (s->slot[i]) { size_t p; ss_find(&n, s->slot[i], &p); n.slot[p] = s->slot[i]; n.n++; }
    free(s->slot); *s = n;
    g_engine_bytes += raw_live_bytes() - b0;
}
static int ss_add(strset *s, const char *k)      /* 1 if new */
{
    size_t p;
    if (ss_find(s, k, &p)) return 0;
    long b0 = raw_live_bytes();
    s->slot[p] = strdup(k); s->n++;
    g_engine_bytes += raw_live_bytes() - b0;
    if (s->n * 2 > s->cap) ss_grow(s);
    return 1;
}

typedef struct { uint32_t i; uint16_t op; uint16_t klen; } e1rec;
typedef struct { uint16_t *ops; char *key; int la_only; } fentry;
#define E1_LA 0x8000u
struct mrec { e1rec r; char *key; };
static int mrec_cmp(const void *a, const void *b)
{
    const struct mrec *x = a, *y = b;
    if (x->r.i != y->r.i) return x->r.i < y->r.i ? -1 : 1;
    return (int) x->r.op - (int) y->r.op;
}

static void e1_guarded_apply(const mc_sys *sys, void *st, int op, int *crashed)
{
    *crashed = 0;
    g_case_serial++; BEAT();
    mc_protected = 1;
    if (sigsetjmp(mc_jmp, 0) == 0) { errno = STALE_ERRNO[op & 3]; sys->apply(st, op); } else *crashed = 1;
    mc_protected = 0;
}
static void *e1_build(const mc_sys *sys, const uint16_t *hist, int len, int *crashed)
{
    void *st;
    *crashed = 0;
    cur.hist = hist; cur.hlen = 0; cur.op = -1; cur.phase = "replay";
    g_case_serial++;
    mc_protected = 1;
    if (sigsetjmp(mc_jmp, 0) == 0) {
        st = sys->fresh();
        for (int j = 0; j < len; j++) { cur.hlen = j; cur.op = hist[j]; BEAT(); errno = STALE_ERRNO[hist[j] & 3]; sys->apply(st, hist[j]); }
    } else { *crashed = 1; st = NULL; }
    mc_protected = 0;
    cur.hlen = len; cur.op = -1; cur.phase = NULL;
    return st;
}
static void e1_guarded(void (*fn)(void *), void *st, const char *phase, int *crashed)
{
    *crashed = 0;
    if (!fn) return;
    cur.phase = phase;
    g_case_serial++; BEAT();
    mc_protected = 1;
    if (sigsetjmp(mc_jmp, 0) == 0) fn(st); else *crashed = 1;
    mc_protected = 0;
    mc_poll_sanitizers();
    cur.phase = NULL;
}
/* the observer runs on whatever the last operation left behind: a crash in it is a violation of that transition, not the end of the worker */
static const mc_sys *g_canon_sys; static char *g_canon_buf; static size_t g_canon_n;
static void canon_tramp(void *st) { g_canon_sys->canon(st, g_canon_buf, g_canon_n); }
static int e1_canon(const mc_sys *sys, void *st, char *key, size_t n)
{
    int c; g_canon_sys = sys; g_canon_buf = key; g_canon_n = n; key[0] = 0;
    e1_guarded(canon_tramp, st, "observe", &c);
    return !c;
}
static void e1_replay(const mc_sys *sys, const char *spec)
{
    uint16_t h[MC_MAXHIST]; int n = 0;
    while (*spec && n < MC_MAXHIST) { h[n++] = (uint16_t) strtol(spec, (char **) &spec, 10); if (*spec == ',') spec++; }
    memset(&cur, 0, sizeof cur);
    cur.kind = 1; cur.sysname = sys->name; cur.sys = sys; cur.hist = h; cur.op = -1;
    dprintf(g_errfd, "replaying %d operations on system %s\n", n, sys->name);
    uint64_t v0 = g_viol_serial;
    void *st = sys->fresh();
    char key[MC_KEYMAX], nm[200];
    sys->canon(st, key, sizeof key);
    dprintf(g_errfd, "  initial            -> %s\n", key);
    for (int j = 0; j < n; j++) {
        int crashed;
        if (h[j] >= sys->n_ops) { dprintf(g_errfd, "  op %d out of range\n", h[j]); break; }
        sys->op_name(h[j], nm, sizeof nm);
        if (!sys->enabled(st, h[j])) dprintf(g_errfd, "  (op %s is not enabled here)\n", nm);
        cur.hlen = j; cur.op = h[j];
        e1_guarded_apply(sys, st, h[j], &crashed);
        if (crashed) { dprintf(g_errfd, "  %-18s -> CRASH\n", nm); st = NULL; break; }
        if (!e1_canon(sys, st, key, sizeof key)) { dprintf(g_errfd, "  %-18s -> CRASH while observing the result\n", nm); st = NULL; break; }
        dprintf(g_errfd, "  %-18s -> %s\n", nm, key);
    }
    cur.hlen = n; cur.op = -1;
    if (st) { int c; e1_guarded(sys->probe, st, "probe", &c); if (!c) e1_guarded(sys->teardown, st, "teardown", &c); }
    dprintf(g_errfd, "replay finished: %s\n", g_viol_serial != v0 ? "VIOLATION reproduced" : "no violation");
    mc_stat_add("transitions", n); mc_stat_add("states", 1);
}

int mc_e1_run(const mc_sys *sys, int max_depth)
{
    if (g_replay) {
        char pre[200]; snprintf(pre, sizeof pre, "e1;%s;h=", sys->name);
        if (!strncmp(g_replay, pre, strlen(pre))) e1_replay(sys, g_replay + strlen(pre));
        return 0;
    }
    if (max_depth > MC_MAXHIST - 1) max_depth = MC_MAXHIST - 1;
    memset(&cur, 0, sizeof cur);
    cur.kind = 1; cur.sysname = sys->name; cur.sys = sys; cur.op = -1;
    strset seen; ss_init(&seen, 1 << 12);
    fentry *F = calloc(1, sizeof(fentry)); size_t nF = 1;
    uint64_t states = 0, transitions = 0;
    int fixpoint = 0, depth_done = -1, incomplete = 0;
    uint64_t la_dropped = 0;
    char key[MC_KEYMAX];
    {   /* level 0: the initial state */
        int c; void *st = e1_build(sys, NULL, 0, &c);
        if (c || !st) { emitf("E\tinitial state of %s cannot be built", sys->name); free(F); return 0; }
        sys->canon(st, key, sizeof key);
        { long b0 = raw_live_bytes(); F[0].ops = NULL; F[0].key = strdup(key); g_engine_bytes += raw_live_bytes() - b0; }
        ss_add(&seen, key); states = 1;
        e1_guarded(sys->probe, st, "probe", &c);
        if (!c) e1_guarded(sys->teardown, st, "teardown", &c);
        mc_sample("%s: <initial> -> %s", sys->name, key);
    }
    int L;
    for (L = 0; ; L++) {
        if (nF == 0) { fixpoint = 1; break; }
        if (L >= max_depth) break;
        if (mc_deadline_hit()) { incomplete = 1; break; }
        int W = g_workers; if ((size_t) W > nF) W = (int) nF;
        int fds[64]; pid_t pids[64];
        slots_init();
        fflush(NULL);
        for (int w = 0; w < W; w++) {
            char path[] = "/tmp/verif-mc-e1-XXXXXX"; char buf[512]; const char *td = getenv("VERIF_SCRATCH");
            if (td) { snprintf(buf, sizeof buf, "%s/e1-XXXXXX", td); fds[w] = mkstemp(buf); if (fds[w] >= 0) unlink(buf); }
            else { fds[w] = mkstemp(path); if (fds[w] >= 0) unlink(path); }
            if (fds[w] < 0) { emitf("E\tcannot create scratch file"); _exit(2); }
            pid_t p = fork();
            if (p < 0) { emitf("E\tfork failed"); _exit(2); }
            if (p == 0) {
                worker_enter(); g_myslot = &g_slots[w];
                FILE *out = fdopen(fds[w], "w");
                static char outbuf[1 << 16];
                setvbuf(out, outbuf, _IOFBF, sizeof outbuf);
                uint64_t tr = 0, replays = 0, la_tr = 0; int complete = 1;
                for (size_t i = (size_t) w; i < nF; i += (size_t) W) {
                    if (mc_deadline_hit()) { complete = 0; break; }
                    int crashed;
                    /* determinism: the replayed prefix must reproduce the recorded key */
                    void *st = e1_build(sys, F[i].ops, L, &crashed);
                    if (crashed || !st) { emitf("E\t%s: replay of a recorded history crashed (nondeterminism)", sys->name); continue; }
                    sys->canon(st, key, sizeof key);
                    if (strcmp(key, F[i].key)) emitf("E\t%s: replay diverged: recorded key [%s] now [%s]", sys->name, F[i].key, key);
                    for (int op = 0; op < sys->n_ops; op++) {
                        if (op > 0) { st = e1_build(sys, F[i].ops, L, &crashed); replays++; if (crashed || !st) continue; }
                        if (!sys->enabled(st, op)) { e1_guarded(sys->teardown, st, "teardown", &crashed); continue; }
                        g_slots[w].inflight_i = i; g_slots[w].inflight_op = op;
                        cur.hist = F[i].ops; cur.hlen = L; cur.op = op; cur.note[0] = 0; cur.shape = NULL;
                        uint64_t v0 = g_viol_serial;
                        e1_guarded_apply(sys, st, op, &crashed);
                        mc_poll_sanitizers();
                        tr++;
                        if (F[i].la_only) la_tr++;
                        if (crashed) continue;
                        if (g_viol_serial != v0) { e1_guarded(sys->teardown, st, "teardown-after-violation", &crashed); g_viol_serial = g_viol_serial; continue; }
                        if (F[i].la_only) {             /* look-ahead entry: queries and teardown oracles only, nothing is added to the search */
                            e1_guarded(sys->probe, st, "probe", &crashed);
                            if (!crashed) e1_guarded(sys->teardown, st, "teardown", &crashed);
                            continue;
                        }
                        if (!e1_canon(sys, st, key, sizeof key)) continue;
                        if (ss_add(&seen, key)) {
                            e1_guarded(sys->probe, st, "probe", &crashed);
                            if (crashed) continue;
                            e1rec r = { (uint32_t) i, (uint16_t) op, (uint16_t) strlen(key) };
                            fwrite(&r, sizeof r, 1, out); fwrite(key, 1, r.klen, out);
                        } else if (sys->lookahead && L + 1 < max_depth) {
                            e1rec r = { (uint32_t) i, (uint16_t) (op | E1_LA), (uint16_t) strlen(key) };
                            fwrite(&r, sizeof r, 1, out); fwrite(key, 1, r.klen, out);
                        }
                        e1_guarded(sys->teardown, st, "teardown", &crashed);
                    }
                }
                fflush(out);
                mc_stat_add("transitions", (long) tr);
                mc_stat_add("replays", (long) replays);
                if (la_tr) mc_stat_add("lookahead_transitions", (long) la_tr);
                worker_leave(w, complete);
            }
            pids[w] = p;
        }
        int all = 1; int wst[64];
        wait_workers(pids, W, wst);
        for (int w = 0; w < W; w++) {
            int st = wst[w];
            if (!g_slots[w].done) {
                size_t i = (size_t) g_slots[w].inflight_i;
                if (i < nF) { cur.hist = F[i].ops; cur.hlen = L; cur.op = g_slots[w].inflight_op; }
                char det[160]; snprintf(det, sizeof det, "worker died (wait status 0x%x) while running this transition", st);
                if (!(WIFEXITED(st) && WEXITSTATUS(st) == 3)) record_violation(sys->name, "crash:worker-died", "", det);
                all = 0; incomplete = 1;
            } else if (!g_slots[w].complete) { all = 0; incomplete = 1; g_deadline_hit = 1; }
        }
        /* merge: deterministic order (frontier index, op) */
        size_t nrec = 0, caprec = 1024; struct mrec *R = malloc(caprec * sizeof *R);
        for (int w = 0; w < W; w++) {
            lseek(fds[w], 0, SEEK_SET);
            FILE *in = fdopen(fds[w], "r");
            e1rec r;
            while (in && fread(&r, sizeof r, 1, in) == 1) {
                char *k = malloc((size_t) r.klen + 1);
                if (fread(k, 1, r.klen, in) != r.klen) { free(k); break; }
                k[r.klen] = 0;
                if (nrec == caprec) { caprec *= 2; R = realloc(R, caprec * sizeof *R); }
                R[nrec].r = r; R[nrec].key = k; nrec++;
            }
            if (in) fclose(in); else close(fds[w]);
        }
        qsort(R, nrec, sizeof *R, mrec_cmp);
        fentry *NF = malloc((nrec ? nrec : 1) * sizeof(fentry)); size_t nNF = 0, n_la = 0;
        for (size_t k = 0; k < nrec; k++) {
            int la = (R[k].r.op & E1_LA) != 0; R[k].r.op &= (uint16_t) ~E1_LA;
            if (!la && !ss_add(&seen, R[k].key)) la = sys->lookahead && L + 1 < max_depth ? 1 : 2;     /* found by two workers: the second one is a duplicate */
            if (la == 1 && n_la >= g_la_cap) { la_dropped++; la = 2; }
            if (la == 2) { free(R[k].key); continue; }
            if (la == 1) {
                uint16_t *ops = malloc(sizeof(uint16_t) * (size_t) (L + 1));
                if (L) memcpy(ops, F[R[k].r.i].ops, sizeof(uint16_t) * (size_t) L);
                ops[L] = R[k].r.op;
                NF[nNF].ops = ops; NF[nNF].key = R[k].key; NF[nNF].la_only = 1; nNF++; n_la++;
                continue;
            }
            {
                uint16_t *ops = malloc(sizeof(uint16_t) * (size_t) (L + 1));
                if (L) memcpy(ops, F[R[k].r.i].ops, sizeof(uint16_t) * (size_t) L);
                ops[L] = R[k].r.op;
                NF[nNF].ops = ops; NF[nNF].key = R[k].key; NF[nNF].la_only = 0; nNF++;
                states++;
                if (nNF == 1 || (k == nrec - 1)) {
                    cur.hist = ops; cur.hlen = L + 1; cur.op = -1; cur.phase = NULL; cur.note[0] = 0;
                    char tok[700], desc[MC_DESCMAX]; cur_token(tok, sizeof tok, desc, sizeof desc);
                    desc[900] = 0; g_nsamples = 0;
                    mc_sample("%s: %s -> %s", sys->name, desc, R[k].key);
                }
            }
        }
        free(R);
        for (size_t i = 0; i < nF; i++) { free(F[i].ops); free(F[i].key); }
        free(F);
        F = NF; nF = nNF;
        if (all) depth_done = L + 1;
        if (!all) break;
    }
    for (size_t i = 0; i < nF; i++) { free(F[i].ops); free(F[i].key); }
    free(F);
    (void) transitions;
    mc_stat_add("states", (long) states);
    if (incomplete) mc_stat_add("incomplete", 1);
    if (la_dropped) mc_stat_add("lookahead_dropped", (long) la_dropped);
    if (fixpoint) mc_stat_add("fixpoints", 1); else mc_stat_add("depth_bounded_systems", 1);
    mc_stat_add("systems", 1);
    mc_info(sys->name, "states=%llu depth_completed=%d fixpoint=%d ops=%d%s", (unsigned long long) states, depth_done, fixpoint, sys->n_ops,
            incomplete ? " INCOMPLETE" : "");
    for (size_t i = 0; i < seen.cap; i++) free(seen.slot[i]);
    free(seen.slot);
    return fixpoint;
}
