/*
 * mc.h — bounded exhaustive exploration core shared by all /verif harnesses.
 *
 *  E1  mc_e1_run()    breadth-first search over operation histories on a live
 *                     object; states are histories, deduplicated by canonical key,
 *                     rebuilt by replay on a fresh object; level-parallel (fork).
 *  E2  mc_e2_level()  exhaustive enumeration of an indexed finite case space,
 *                     sharded over forked workers (idx % W).
 *  E3  mc_e3_explore() deviation-bounded DFS over the answers given at hooked
 *                     environment calls (mc_choose()).
 *
 * Every executed transition / case runs inside a recovery shell: ASan report
 * callback, UBSan stderr scan, SIGSEGV/SIGBUS/SIGFPE/SIGABRT -> siglongjmp,
 * exit() trap, hang watchdog.  Harness output is a record stream (one write()
 * per line) consumed by tools/check.
 */
#ifndef VERIF_MC_H
#define VERIF_MC_H

#include <stddef.h>
#include <stdint.h>
#include <stdio.h>
#include <stdlib.h>
#include <string.h>
#include <setjmp.h>

#define MC_MAXHIST   48
#define MC_KEYMAX    1536
#define MC_DESCMAX   3000
#define MC_MAXPTS    64

typedef struct mc_sys {
    const char *name;
    int   n_ops;
    void  (*op_name)(int op, char *buf, size_t n);
    void *(*fresh)(void);
    int   (*enabled)(void *st, int op);
    void  (*apply)(void *st, int op);
    void  (*probe)(void *st);                       /* may be NULL */
    void  (*canon)(void *st, char *buf, size_t n);
    void  (*teardown)(void *st);
    int   lookahead;                                /* 1: a transition that lands on an already-seen canonical key is still extended by every op once
                                                       (one-step differential between the concrete state reached here and the key's representative) */
} mc_sys;

typedef void (*mc_case_fn)(uint64_t idx, void *ctx);
typedef void (*mc_desc_fn)(uint64_t idx, void *ctx, char *buf, size_t n);

/* ---- life cycle ---- */
void mc_init(const char *property, int argc, char **argv);
int  mc_finish(void);
int  mc_thorough(void);                 /* tier */
const char *mc_arg(const char *name, const char *dflt);   /* --name=value extra args */
long mc_arg_int(const char *name, long dflt);
extern void (*mc_exit_hook)(void);   /* forked cells (mc_child_reset): called once when the library calls exit(), before the process ends - an exit handler that uses the library again */
long mc_dlevel(void);        /* --dlevel=N: the runtime debug level of this run (the harness assigns it to libast_debug_level); N > 0 sends the library's own stderr chatter in workers to /dev/null, sanitizer reports stay scanned */
int  mc_replaying(void);
double mc_now(void);
int  mc_deadline_hit(void);

/* ---- explorers ---- */
/* returns 1 if a fixpoint (closed state space) was reached, 0 if stopped at max_depth/deadline */
int  mc_e1_run(const mc_sys *sys, int max_depth);
/* returns 1 if the level was completed by every worker */
int  mc_e2_level(const char *sysname, int level, uint64_t n_cases,
                 mc_case_fn fn, mc_desc_fn describe, void *ctx);
/* E3: run() is executed repeatedly; inside, hooked calls ask mc_choose(nopt) (0 = default).
 * check() is called after each execution.  Only the first kmax choice points branch. */
typedef struct mc_e3_stats { uint64_t executions; int bound_completed; } mc_e3_stats;
void mc_e3_explore(void (*run)(void *ctx), void *ctx, int kmax, int dev_bound, mc_e3_stats *out);
int  mc_choose(int nopt);
int  mc_e3_active(void);
/* text of the choice vector of the execution in flight, e.g. "0,2,0,1" */
void mc_e3_choices(char *buf, size_t n);

/* ---- verdicts & bookkeeping ---- */
void mc_fail(const char *site, const char *kind, const char *shape, const char *fmt, ...)
    __attribute__((format(printf, 4, 5)));
uint64_t mc_viol_serial(void);          /* increases with every violation recorded */
void mc_stat_add(const char *key, long v);
void mc_info(const char *key, const char *fmt, ...) __attribute__((format(printf, 2, 3)));
void mc_sample(const char *fmt, ...) __attribute__((format(printf, 1, 2)));
void mc_nontrivial(void);               /* the case in flight is non-trivial by the harness' rule */
void mc_outcome(uint64_t h);            /* distinct-outcome accounting */
uint64_t mc_hash(const void *p, size_t n);
uint64_t mc_hash_str(const char *s);
void mc_set_shape(const char *shape);   /* attached to sanitizer/crash signatures of the case in flight */
void mc_note(const char *fmt, ...) __attribute__((format(printf, 1, 2)));  /* extra text for the case in flight (replay description) */

/* ---- oracles ---- */
long mc_live_bytes(void);               /* bytes currently allocated (ASan statistics or mallinfo2) */
size_t mc_block_size(const void *p);    /* usable/allocated size of a heap block, 0 if unknown */
int  mc_have_asan(void);
int  mc_have_msan(void);                             /* MemorySanitizer build: reading bytes nobody wrote is reported, so probes stay off slack the harness did not fill */
void mc_poll_sanitizers(void);          /* scan stderr growth for UBSan reports (called by the engine after each case) */
void mc_allow_exit(int on);
void mc_child_reset(void);              /* in a forked cell: default signal actions, no watchdog, exit allowed — the parent judges the wait status */             /* harnesses that fork children which must really exit */
/* guarded call from harness code outside the engine's own guard (warm-ups, positive controls):
 * returns 0 if fn returned, else the signal; a crash is recorded as a violation of system 'sysname' */
int mc_guarded(const char *sysname, const char *what, void (*fn)(void *), void *ctx);
extern sigjmp_buf mc_jmp;
extern volatile int mc_protected;

/* fill 'n' bytes of stack below the caller and prime malloc free lists with 'byte' */
void mc_dirty_stack(int byte, size_t n);
void mc_dirty_heap(int byte);

/* exact-size heap copies, so redzones start right after the data */
char *mc_heapstr(const char *s);                /* malloc(strlen+1) */
void *mc_heapmem(const void *p, size_t n);      /* malloc(n?n:1) */

/* small helpers */
uint64_t mc_words_count(int k, int maxlen);                     /* number of words of length 0..maxlen over k symbols */
uint64_t mc_words_of_len(int k, int len);
void mc_word_decode(uint64_t idx, int k, int len, int *digits); /* idx-th word of exactly len symbols */
void mc_esc(const void *p, size_t n, char *out, size_t outn);   /* printable escape */

#endif
