# /verif/Makefile — setup builds the engine + every quick-tier harness against /repo's working tree (offline).
.PHONY: setup manifest clean
setup:
	python3 tools/setup.py
manifest:
	python3 tools/gen_manifest.py
clean:
	rm -rf build replays
