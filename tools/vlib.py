"""vlib.py — build /repo's library objects per profile, build harnesses, run them, and turn
their record streams into verdict lines, replay files and evidence.  Offline, stdlib only
(jsonschema is used for self-validation when importable)."""
import concurrent.futures as cf
import hashlib
import json
import os
import re
import shutil
import subprocess
import sys
import tempfile
import time

VERIF = os.path.dirname(os.path.dirname(os.path.abspath(__file__)))
REPO = os.path.abspath(os.environ.get("VERIF_REPO", "/repo"))
_tag = "repo" if REPO == "/repo" else "alt-" + hashlib.sha1(REPO.encode()).hexdigest()[:10]
BUILD = os.path.join(VERIF, "build", _tag)
NCPU = min(16, os.cpu_count() or 4)

UBSAN = "signed-integer-overflow,shift,bounds,null,pointer-overflow,integer-divide-by-zero,return,unreachable,vla-bound,object-size,bool,enum"
PROFILES = {
    "asan": ("clang", ["-O1", "-g", "-fsanitize=address," + UBSAN, "-fsanitize-recover=all",
                       "-fno-omit-frame-pointer", "-fno-optimize-sibling-calls", "-fno-builtin"]),
    # MemorySanitizer: library, harness and engine are all instrumented; libc goes through the runtime's interceptors
    "msan": ("clang", ["-O0", "-g", "-fsanitize=memory", "-fsanitize-recover=memory", "-fsanitize-memory-track-origins=1",
                       "-fno-omit-frame-pointer", "-fno-optimize-sibling-calls"]),
    "plain0": ("gcc", ["-O0", "-g"]),
    "plain2": ("gcc", ["-O2", "-g"]),
}
for _n in (0, 1, 2, 3, 4, 5, 9999):
    PROFILES["dbg%d" % _n] = ("gcc", ["-O0", "-g", "-DVERIF_DEBUG=%d" % _n])
    PROFILES["asan_dbg%d" % _n] = ("clang", PROFILES["asan"][1] + ["-DVERIF_DEBUG=%d" % _n])
PROFILES["msan_dbg5"] = ("clang", PROFILES["msan"][1] + ["-DVERIF_DEBUG=5"])
PROFILES["dbgundef"] = ("gcc", ["-O0", "-g", "-DVERIF_DEBUG=-1"])
# release-style builds: NDEBUG belongs to <assert.h>, not to libast; the gates must not depend on it
PROFILES["dbg4nd"] = ("gcc", ["-O2", "-g", "-DVERIF_DEBUG=4", "-DNDEBUG"])
PROFILES["dbg0nd"] = ("gcc", ["-O2", "-g", "-DVERIF_DEBUG=0", "-DNDEBUG"])

WARN_OFF = ["-w"]


def log(*a):
    print(*a, file=sys.stderr, flush=True)


def repo_sources():
    mk = open(os.path.join(REPO, "src", "Makefile.am")).read()
    m = re.search(r"libast_la_SOURCES\s*=\s*((?:.*\\\n)*.*)\n", mk)
    names = m.group(1).replace("\\\n", " ").split()
    return [n for n in names if n.endswith(".c")]


def include_flags():
    real_cfg = os.path.join(REPO, "config.h")
    fb = os.path.join(VERIF, "engine", "fallback_headers")
    assumptions = []
    if not os.path.exists(real_cfg):
        real_cfg = os.path.join(fb, "config.h")
        assumptions.append("config.h missing in repo: fallback copy from /verif/engine/fallback_headers used")
    flags = ["-I" + os.path.join(VERIF, "engine", "cfgshim"), "-I" + REPO, "-I" + os.path.join(REPO, "include"),
             "-I" + os.path.join(REPO, "include", "libast")]
    if not (os.path.exists(os.path.join(REPO, "include", "libast", "types.h"))
            and os.path.exists(os.path.join(REPO, "include", "libast", "sysdefs.h"))):
        flags += ["-I" + fb, "-I" + os.path.join(fb, "libast")]
        assumptions.append("generated include/libast/{types,sysdefs}.h missing in repo: fallback copies used")
    flags += ["-DHAVE_CONFIG_H", "-DLIBAST_VERIF", '-DVERIF_REAL_CONFIG_H="%s"' % real_cfg,
              '-DMC_REPO_SRC="%s/src/"' % REPO, "-D_GNU_SOURCE"]
    return flags, assumptions


_hdr_hash = None


def headers_hash():
    global _hdr_hash
    if _hdr_hash is None:
        h = hashlib.sha256()
        roots = [os.path.join(REPO, "include"), os.path.join(VERIF, "engine"), os.path.join(VERIF, "harness")]
        files = [os.path.join(REPO, "config.h")]
        for r in roots:
            for d, _, fs in os.walk(r):
                for f in fs:
                    if f.endswith(".h"):
                        files.append(os.path.join(d, f))
        for f in sorted(files):
            if os.path.exists(f):
                h.update(f.encode())
                h.update(open(f, "rb").read())
        _hdr_hash = h.hexdigest()
    return _hdr_hash


def _compile(cc, flags, src, obj, extra_dep_text=b""):
    h = hashlib.sha256()
    h.update((cc + " " + " ".join(flags)).encode())
    h.update(headers_hash().encode())
    h.update(open(src, "rb").read())
    h.update(extra_dep_text)
    stamp = obj + ".sha"
    key = h.hexdigest()
    if os.path.exists(obj) and os.path.exists(stamp) and open(stamp).read() == key:
        return obj
    os.makedirs(os.path.dirname(obj), exist_ok=True)
    r = subprocess.run([cc] + flags + ["-c", src, "-o", obj], capture_output=True, text=True)
    if r.returncode != 0:
        raise RuntimeError("compile failed: %s\n%s" % (src, r.stderr[-4000:]))
    open(stamp, "w").write(key)
    return obj


def build_lib(profile):
    """Compile every libast source of the working tree; returns {basename: object path}."""
    cc, pf = PROFILES[profile]
    inc, _ = include_flags()
    flags = pf + inc + WARN_OFF
    outdir = os.path.join(BUILD, profile, "lib")
    srcs = repo_sources()
    objs = {}
    with cf.ThreadPoolExecutor(NCPU) as ex:
        futs = {}
        for s in srcs:
            src = os.path.join(REPO, "src", s)
            obj = os.path.join(outdir, s[:-2] + ".o")
            futs[ex.submit(_compile, cc, flags, src, obj)] = s
        for f in cf.as_completed(futs):
            objs[futs[f]] = f.result()
    return objs


def _repo_text_for(includes_repo_src):
    b = b""
    for s in includes_repo_src:
        b += open(os.path.join(REPO, "src", s), "rb").read()
    return b


def build_harness(name, profile, sources, exclude=(), wraps=(), cflags=(), includes_repo_src=(), dep_files=(), libs=("-lX11", "-lpcre", "-ldl", "-lm", "-lpthread")):
    """sources: harness/engine C files (relative to /verif).  exclude: library sources whose object
    must not be linked because the harness #includes the .c itself."""
    cc, pf = PROFILES[profile]
    inc, _ = include_flags()
    flags = pf + inc + WARN_OFF + ["-I" + os.path.join(VERIF, "engine"), "-I" + os.path.join(VERIF, "harness"),
                                   "-I" + os.path.join(REPO, "src"), '-DVERIF_REPO_DIR="%s"' % REPO] + list(cflags)
    lib = build_lib(profile)
    outdir = os.path.join(BUILD, profile, "h", name)
    dep = _repo_text_for(includes_repo_src)
    for df in dep_files:
        dep += open(df, "rb").read()
    objs = []
    with cf.ThreadPoolExecutor(NCPU) as ex:
        futs = []
        for s in list(sources) + ["engine/mc.c"]:
            src = s if os.path.isabs(s) else os.path.join(VERIF, s)
            obj = os.path.join(outdir, os.path.basename(s)[:-2] + ".o")
            futs.append(ex.submit(_compile, cc, flags, src, obj, dep))
        for f in futs:
            objs.append(f.result())
    libobjs = [o for s, o in sorted(lib.items()) if s not in exclude]
    exe = os.path.join(outdir, name)
    if profile.startswith("msan"):
        wraps = list(wraps) + [w for w in ("getservbyname", "getprotobyname") if w not in wraps]      # engine/mc.c: results of uninstrumented lookups are initialised
    wrapflags = ["-Wl,--wrap=%s" % w for w in (["exit"] + list(wraps))]
    sanit = [f for f in pf if f.startswith("-fsanitize")]
    cmd = [cc] + sanit + ["-g"] + objs + libobjs + wrapflags + list(libs) + ["-o", exe]
    h = hashlib.sha256((" ".join(cmd)).encode())
    for o in objs + libobjs:
        h.update(open(o + ".sha").read().encode())
    stamp = exe + ".sha"
    if not (os.path.exists(exe) and os.path.exists(stamp) and open(stamp).read() == h.hexdigest()):
        r = subprocess.run(cmd, capture_output=True, text=True)
        if r.returncode != 0:
            raise RuntimeError("link failed: %s\n%s" % (name, r.stderr[-4000:]))
        open(stamp, "w").write(h.hexdigest())
    return exe


class Records:
    def __init__(self):
        self.stats = {}
        self.info = []
        self.samples = []
        self.outcomes = set()
        self.viol = []       # dicts
        self.errors = []
        self.done = 0
        self.runs = 0

    def parse(self, path, runinfo):
        self.runs += 1
        if not os.path.exists(path):
            self.errors.append("no output from %s" % runinfo["name"])
            return
        for line in open(path, errors="replace"):
            f = line.rstrip("\n").split("\t")
            t = f[0]
            if t == "S" and len(f) >= 3:
                try:
                    self.stats[f[1]] = self.stats.get(f[1], 0) + int(f[2])
                except ValueError:
                    pass
            elif t == "I" and len(f) >= 3:
                self.info.append("%s: %s" % (f[1], f[2]))
            elif t == "X" and len(f) >= 2:
                self.samples.append(f[1])
            elif t == "O" and len(f) >= 2:
                self.outcomes.add(f[1])
            elif t == "V" and len(f) >= 5:
                self.viol.append({"signature": f[1], "token": f[2], "case": f[3], "detail": f[4], "run": runinfo})
            elif t == "E":
                self.errors.append("\t".join(f[1:]))
            elif t == "Z":
                self.done += 1


def run_harness(exe, args, tier, scratch, deadline_s, outpath, env_extra=None, timeout=None):
    env = dict(os.environ)
    env["VERIF_SCRATCH"] = scratch
    env["TMPDIR"] = scratch
    env.setdefault("ASAN_SYMBOLIZER_PATH", "/usr/bin/llvm-symbolizer-14")
    if env_extra:
        env.update(env_extra)
    cmd = [exe, "--out=" + outpath, "--tier=" + tier, "--deadline=%d" % deadline_s] + list(args)
    t0 = time.time()
    # own process group: on a driver timeout the harness and every worker it forked are killed together, nothing is left behind
    p = subprocess.Popen(cmd, env=env, cwd=scratch, stdout=subprocess.DEVNULL, stderr=subprocess.PIPE, start_new_session=True)
    try:
        _, e = p.communicate(timeout=timeout or (deadline_s * 2 + 600))
        rc, err = p.returncode, e.decode(errors="replace")[-3000:]
    except subprocess.TimeoutExpired:
        rc, err = -999, "driver timeout"
    finally:
        try:
            os.killpg(p.pid, 9)          # workers that outlived the harness (orphans of a killed or crashed parent)
        except (ProcessLookupError, PermissionError):
            pass
        try:
            p.communicate(timeout=5)
        except Exception:
            pass
    return rc, err, time.time() - t0


def load_known():
    p = os.path.join(VERIF, "known_findings.json")
    if not os.path.exists(p):
        return []
    return json.load(open(p)).get("findings", [])


def validate_evidence(ev):
    try:
        import jsonschema
    except Exception:  # noqa: not importable in this interpreter
        return None
    schema_path = "/root/.vp/EVIDENCE.schema.json"
    if not os.path.exists(schema_path):
        schema_path = os.path.join(VERIF, "tools", "EVIDENCE.schema.json")
    if not os.path.exists(schema_path):
        return None
    try:
        jsonschema.validate(ev, json.load(open(schema_path)))
        return None
    except Exception as e:  # noqa
        return str(e)[:500]
