#!/bin/sh
# tools/mk_seed_worktree.sh <dir> — scratch git worktree of /repo (outside /repo and /verif) that can run the
# repository's own "make && make -C test test": the configure outputs, which are git-ignored, are copied in.
set -e
D=$1
git -C /repo worktree add -q --detach "$D" HEAD
cd /repo
git ls-files -o -i --exclude-standard | grep -v -E '\.(o|lo|la|a)$|\.libs/|^test/(libast-test|perf-test)$|autom4te' | while read f; do
  mkdir -p "$D/$(dirname "$f")"; cp -p "$f" "$D/$f" 2>/dev/null || true
done
# stale absolute paths in generated Makefiles are fine: they use relative top_srcdir
echo "worktree ready: $D"
