#!/usr/bin/env python3
"""Regenerate /verif/MANIFEST.json from tools/props.py (and validate it against the schema)."""
import glob, json, os, sys
here = os.path.dirname(os.path.abspath(__file__))
sys.path.insert(0, here)
for _p in glob.glob("/opt/veriftools/pyvenv/lib/python3*/site-packages"):
    sys.path.insert(1, _p)
import props
VERIF = os.path.dirname(here)
ids = [json.loads(l)["id"] for l in open(os.path.join(VERIF, "properties.jsonl"))]
checks, na = [], []
for i in ids:
    P = props.PROPS.get(i)
    if not P:
        na.append({"property_id": i, "reason": props.NOT_CLAIMED.get(i, "check not built yet in this round; see DESIGN.md section 3 for the planned bounded-exhaustive harness")})
        continue
    c = {"property_id": i,
         "quick_cmd": "tools/check %s --tier quick" % i,
         "thorough_cmd": "tools/check %s --tier thorough" % i,
         "evidence_file": "/verif/evidence/%s.json" % i,
         "replay_cmd_template": "tools/check %s --replay {path}" % i,
         "engine": "mc",
         "level_claimed": {"category": P["level"], "text": P.get("claim", P["rule"]), "design_ref": "DESIGN.md section 3, " + i},
         "level_note": P.get("note", "Trusted base: the reference model and oracle code in the harness, clang-14 ASan/UBSan/MSan, the enumeration engine (engine/mc.c). Bounds: quick %s; thorough %s." % (P.get("bounds", {}).get("quick", "?"), P.get("bounds", {}).get("thorough", "?"))),
         "technique": P["technique"]}
    checks.append(c)
m = {"version": 1,
     "setup_cmd": "make -C /verif setup",
     "hooks": {"guard": "LIBAST_VERIF",
               "enable": "no source hook exists: harnesses compile /repo/src/*.c from the working tree with -DLIBAST_VERIF (referenced by no source line) and reach private state by #including conf.c / mem.c into the harness translation unit; environment calls are redirected with -Wl,--wrap",
               "baseline_off_cmd": "make -C /repo && make -C /repo/test test",
               "source_commits": [], "add_only": True},
     "engines": [{"name": "mc", "path": "engine/mc.c", "serves_properties": [c["property_id"] for c in checks],
                  "kind_free_text": "hand-written bounded exhaustive explorer on the real code: E1 BFS over operation histories with canonical-key dedup and replay-on-fresh-object, E2 exhaustive input-language enumeration, E3 deviation-bounded environment-answer schedules; forked workers with heartbeat supervision, a stale errno at the start of every case, ASan/UBSan/MSan report capture and signal recovery shell"}],
     "checks": checks,
     "notes": "All checks rebuild the library objects they need from /repo's working tree into /verif/build (content-hashed cache). Exit 0 = held on everything explored, 1 = VIOLATION line printed, 2 = harness/build error.",
     "not_applicable": na}
json.dump(m, open(os.path.join(VERIF, "MANIFEST.json"), "w"), indent=1)
try:
    import jsonschema
    jsonschema.validate(m, json.load(open(os.path.join(here, "MANIFEST.schema.json"))))
    print("MANIFEST.json valid: %d checks, %d not_applicable" % (len(checks), len(na)))
except ImportError:
    print("MANIFEST.json written (jsonschema not importable)")
