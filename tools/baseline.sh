#!/bin/sh
# Run the repository's own suite (guard off) and summarise: passes, and failures other than the
# module-load test that also fails in the pinned baseline of this image.  The suite's socket test binds
# a fixed TCP port, so it runs in a private network namespace when that is possible.
R=${1:-/repo}
make -C "$R" >/dev/null 2>&1 || { echo "BUILD FAILED"; exit 1; }
if unshare -n true 2>/dev/null; then
  out=$(unshare -n sh -c "ip link set lo up; make -C '$R/test' test" 2>&1)
else
  out=$(make -C "$R/test" test 2>&1)
fi
p=$(echo "$out" | grep -c '\.\.\.passed')
f=$(echo "$out" | grep '\.\.\.failed' | grep -v 'spif_module_load' )
echo "passed=$p"
[ -n "$f" ] && { echo "UNEXPECTED FAILURES:"; echo "$f"; exit 1; }
[ "$p" -ge 119 ] || { echo "too few passes"; echo "$out" | tail -5; exit 1; }
exit 0
