#!/usr/bin/env python3
"""Pre-build library profiles and harnesses so the first check does not pay for compilation."""
import glob, os, sys
sys.path.insert(0, os.path.dirname(os.path.abspath(__file__)))
import vlib, props
ok = True
for pid, P in sorted(props.PROPS.items()):
    for R in P["runs"]:
        try:
            if R.get("gen") == "nullmatrix":
                import gen_nullmatrix
                out = gen_nullmatrix.generate(vlib.REPO, vlib.VERIF, os.path.join(vlib.BUILD, "gen"))[0]
                R = dict(R, cflags=list(R.get("cflags", ())) + ['-DNULL_GEN_FILE="%s"' % out], dep_files=[out])
            vlib.build_harness(R["name"], R.get("profile", "asan"), R["sources"], exclude=R.get("exclude", ()),
                               wraps=R.get("wraps", ()), cflags=R.get("cflags", ()), includes_repo_src=R.get("exclude", ()), dep_files=R.get("dep_files", ()))
            print("built", pid, R["name"])
        except Exception as e:
            ok = False
            print("FAILED", pid, R["name"], str(e)[:2000])
sys.exit(0 if ok else 1)
