#!/usr/bin/env python3
"""tools/seed_recheck.py [name ...] — re-run the quick check of every recorded seeded change against the current /repo and
the current checks: apply seeded/<name>/patch.diff to /repo, run tools/check <property> --tier quick --no-evidence, undo.
Updates "checks"/"detected_by"/"rechecked_at_repo_commit" in seeded/<name>/meta.json (the validity fields — suite passes,
demonstration fails with / passes without the change — were established by tools/seed_eval.py and are left alone)."""
import json
import os
import subprocess
import sys
import time

VERIF = os.path.dirname(os.path.dirname(os.path.abspath(__file__)))


def sh(cmd, timeout=3600):
    r = subprocess.run(cmd, shell=True, capture_output=True, text=True, errors="replace", timeout=timeout)
    return r.returncode, r.stdout + r.stderr


def main():
    names = sys.argv[1:] or sorted(os.listdir(os.path.join(VERIF, "seeded")))
    if sh("git -C /repo status --porcelain --untracked-files=no")[1].strip():
        print("refusing: /repo has local modifications")
        sys.exit(2)
    head = sh("git -C /repo rev-parse --short HEAD")[1].strip()
    missed = []
    for n in names:
        d = os.path.join(VERIF, "seeded", n)
        mp = os.path.join(d, "meta.json")
        if not os.path.exists(mp):
            continue
        meta = json.load(open(mp))
        patch = os.path.join(d, "patch.diff")
        rc, out = sh("git -C /repo apply --check %s" % patch)
        if rc != 0:
            rc, out = sh("git -C /repo apply --check -3 %s" % patch)
            meta["applies_to_current_repo"] = False
            meta["apply_error"] = out[-300:]
            json.dump(meta, open(mp, "w"), indent=1)
            print("%-8s patch no longer applies: %s" % (n, out.strip().split("\n")[-1][:120]))
            missed.append(n)
            continue
        meta["applies_to_current_repo"] = True
        meta.pop("apply_error", None)
        props = [meta["property"]] + [p for p in meta.get("detected_by", []) if p != meta["property"]]
        sh("git -C /repo apply %s" % patch)
        checks = {}
        try:
            for p in props:
                t0 = time.time()
                rc, out = sh("%s/tools/check %s --tier quick --no-evidence" % (VERIF, p))
                sigs = [l.strip()[11:] for l in out.split("\n") if l.strip().startswith("signature:")]
                checks[p] = {"exit": rc, "violation_lines": out.count("VIOLATION property="), "signatures": sigs[:8], "wall_s": round(time.time() - t0, 1)}
        finally:
            sh("git -C /repo checkout -- .")
        meta["checks"] = checks
        meta["detected_by"] = [p for p, c in checks.items() if c["exit"] == 1]
        meta["rechecked_at_repo_commit"] = head
        json.dump(meta, open(mp, "w"), indent=1)
        ok = meta["property"] in meta["detected_by"]
        print("%-8s %s %s" % (n, "detected" if ok else "MISSED", {p: c["exit"] for p, c in checks.items()}))
        if not ok:
            missed.append(n)
    print("rechecked %d seeds at /repo %s; not detected by their own property's quick check: %s" % (len(names), head, missed or "none"))


if __name__ == "__main__":
    main()
