#!/usr/bin/env python3
"""gen_nullmatrix.py — C16: build the (function x guarded pointer parameter) table from /repo/src/*.c and
emit the harness source that calls every row with that parameter NULL and the others valid.

The table generated from the pinned tree is committed as /verif/c16_guards.json.  At check time the
table is regenerated and the UNION of committed and fresh rows is run: a guard that was dropped is
still exercised (and fails), a new guarded entry point is exercised and reported as unpinned."""
import json
import os
import re
import sys

SCOPE = ["obj.c", "str.c", "ustr.c", "mbuff.c", "objpair.c", "tok.c", "url.c", "regexp.c", "socket.c", "array.c", "linked_list.c",
         "dlinked_list.c", "strings.c", "conf.c", "msgs.c", "mem.c", "file.c", "options.c"]
STATIC_OK = {"array.c", "linked_list.c", "dlinked_list.c"}          # their static methods are the class-table slots; the harness #includes these files

# type -> (constructor expression, destructor statement using 'v', snapshot kind)
OBJ = lambda mk, rm: (mk, rm, "none")
FACT = {
    "spif_str_t": ("spif_str_new_from_ptr((spif_charptr_t) \"abc\")", "spif_str_del(v)", "str"),
    "spif_ustr_t": ("spif_ustr_new_from_ptr((spif_charptr_t) \"abc\")", "spif_ustr_del(v)", "str"),
    "spif_mbuff_t": ("spif_mbuff_new_from_ptr((spif_byteptr_t) \"abc\", 3)", "spif_mbuff_del(v)", "mbuff"),
    "spif_obj_t": ("SPIF_OBJ(spif_str_new_from_ptr((spif_charptr_t) \"abc\"))", "SPIF_OBJ_DEL(v)", "str"),
    "spif_objpair_t": ("mk_pair()", "spif_objpair_del(v)", "none"),
    "spif_tok_t": ("spif_tok_new_from_ptr((spif_charptr_t) \"a b\")", "spif_tok_del(v)", "none"),
    "spif_url_t": ("spif_url_new_from_ptr((spif_charptr_t) \"http://h:8/p\")", "spif_url_del(v)", "str"),
    "spif_regexp_t": ("spif_regexp_new_from_ptr((spif_charptr_t) \"a*\")", "spif_regexp_del(v)", "str"),
    "spif_socket_t": ("spif_socket_new()", "spif_socket_del(v)", "none"),
    "spif_array_t": ("(spif_array_t) mk_list(0)", "SPIF_OBJ_DEL(SPIF_OBJ(v))", "list"),
    "spif_linked_list_t": ("(spif_linked_list_t) mk_list(1)", "SPIF_OBJ_DEL(SPIF_OBJ(v))", "list"),
    "spif_dlinked_list_t": ("(spif_dlinked_list_t) mk_list(2)", "SPIF_OBJ_DEL(SPIF_OBJ(v))", "list"),
    "spif_list_t": ("mk_list(0)", "SPIF_OBJ_DEL(v)", "list"),
    "spif_array_iterator_t": ("(spif_array_iterator_t) SPIF_LIST_ITERATOR(g_lists[0] = mk_list(0))", "SPIF_OBJ_DEL(SPIF_OBJ(v)); SPIF_OBJ_DEL(g_lists[0])", "none"),
    "spif_linked_list_iterator_t": ("(spif_linked_list_iterator_t) SPIF_LIST_ITERATOR(g_lists[1] = mk_list(1))", "SPIF_OBJ_DEL(SPIF_OBJ(v)); SPIF_OBJ_DEL(g_lists[1])", "none"),
    "spif_dlinked_list_iterator_t": ("(spif_dlinked_list_iterator_t) SPIF_LIST_ITERATOR(g_lists[2] = mk_list(2))", "SPIF_OBJ_DEL(SPIF_OBJ(v)); SPIF_OBJ_DEL(g_lists[2])", "none"),
    "spif_linked_list_item_t": ("mk_ll_item()", "free(v)", "none"),
    "spif_dlinked_list_item_t": ("mk_dl_item()", "free(v)", "none"),
    "spif_charptr_t": ("(spif_charptr_t) mc_heapstr(\"abc\")", "free(v)", "cstr"),
    "const spif_charptr_t": ("(spif_charptr_t) mc_heapstr(\"abc\")", "free(v)", "cstr"),
    "spif_byteptr_t": ("(spif_byteptr_t) mc_heapstr(\"abc\")", "free(v)", "cstr"),
    "char *": ("mc_heapstr(\"abc\")", "free(v)", "cstr"),
    "const char *": ("mc_heapstr(\"abc\")", "free((void *) v)", "cstr"),
    "register const char *": ("mc_heapstr(\"abc\")", "free((void *) v)", "cstr"),
    "register char *": ("mc_heapstr(\"abc\")", "free(v)", "cstr"),
    "register const spif_charptr_t": ("(spif_charptr_t) mc_heapstr(\"abc\")", "free(v)", "cstr"),
    "register spif_charptr_t": ("(spif_charptr_t) mc_heapstr(\"abc\")", "free(v)", "cstr"),
    "spif_charptr_t *": ("mk_strarray()", "free_strarray(v)", "none"),
    "char **": ("(char **) mk_strarray()", "free_strarray((spif_charptr_t *) v)", "none"),
    "FILE *": ("fopen(\"/dev/null\", \"r\")", "fclose(v)", "none"),
    "void *": ("malloc(32)", "free(v)", "none"),
    "const void *": ("malloc(32)", "free((void *) v)", "none"),
    "spifmem_memrec_t *": ("calloc(1, sizeof(spifmem_memrec_t))", "free(v->ptrs); free(v)", "none"),
    "ctx_handler_t": ("stub_ctx", "", "none"),
    "spifconf_func_ptr_t": ("stub_builtin", "", "none"),
    "regex_t **": ("&g_rexp", "", "none"),
}
SCALAR = {"int": "1", "long": "1", "size_t": "1", "unsigned long": "1", "unsigned short": "1", "spif_stridx_t": "0", "spif_ustridx_t": "0", "spif_memidx_t": "0", "spif_listidx_t": "0",
          "spif_char_t": "'a'", "spif_uint8_t": "'a'", "spif_int32_t": "2", "spif_uint32_t": "1", "spif_bool_t": "TRUE", "unsigned char": "0", "char": "'a'", "register size_t": "1",
          "spif_uint16_t": "1", "double": "1.0", "unsigned int": "1", "spif_sockport_t": "1", "register unsigned short": "1", "register spif_int32_t": "2"}

# the other ("valid") arguments also come in their empty state: objects that own no buffer / hold no element yet
FACT_EMPTY = {
    "spif_str_t": "spif_str_new()", "spif_ustr_t": "spif_ustr_new()", "spif_mbuff_t": "spif_mbuff_new()", "spif_obj_t": "SPIF_OBJ(spif_str_new())",
    "spif_array_t": "(spif_array_t) mk_elist(0)", "spif_linked_list_t": "(spif_linked_list_t) mk_elist(1)", "spif_dlinked_list_t": "(spif_dlinked_list_t) mk_elist(2)", "spif_list_t": "mk_elist(0)",
}
IDX_TYPES = ("spif_listidx_t", "spif_stridx_t", "spif_ustridx_t", "spif_memidx_t")
IDX_ALT = ["40", "-1"]          # the other arguments are "valid" for any position value: past the end and negative positions too

FUNC_RE = re.compile(r"^((?:static\s+)?[A-Za-z_][\w \t\*]*?)\s*\n(\w+)\(([^)]*)\)\s*\n\{", re.M)
GUARDS = [
    (re.compile(r"\b(ASSERT_RVAL|REQUIRE_RVAL)\(\(?\s*!SPIF_\w+_ISNULL\((\w+)\)\s*\)?,\s*(.*)\);\s*$"), "isnull"),
    (re.compile(r"\b(ASSERT_RVAL|REQUIRE_RVAL)\(\(?\s*(\w+) != \([^)]*\) NULL\s*\)?,\s*(.*)\);\s*$"), "cast"),
    (re.compile(r"\b(ASSERT_RVAL|REQUIRE_RVAL)\(\(?\s*(\w+) != NULL\s*\)?,\s*(.*)\);\s*$"), "plain"),
]
GUARDS_VOID = [
    re.compile(r"\b(ASSERT|REQUIRE)\(\(?\s*!SPIF_\w+_ISNULL\((\w+)\)\s*\)?\);\s*$"),
    re.compile(r"\b(ASSERT|REQUIRE)\(\(?\s*(\w+) != (?:\([^)]*\) )?NULL\s*\)?\);\s*$"),
]
COMP = re.compile(r"\bSPIF_(?:OBJ_)?COMP_CHECK_NULL\((\w+), (\w+)\);")


def split_params(text):
    text = text.strip()
    if not text or text == "void":
        return []
    out = []
    for p in text.split(","):
        p = " ".join(p.split())
        if p == "...":
            out.append(("...", "..."))
            continue
        m = re.match(r"^(.*?)(\w+)(\[\])?$", p)
        ty, name = m.group(1).strip(), m.group(2)
        ty = re.sub(r"\bregister\s+", "", ty)
        if m.group(3):
            ty += " *"
        ty = ty.replace(" *", " *").replace("* ", "*").replace("*", " *").replace("  ", " ").strip()
        ty = re.sub(r"\s+\*", " *", ty)
        ty = ty.replace(" * *", " **")
        out.append((ty, name))
    return out


def strip_disabled(src, repo):
    """Blank out '#if !(HAVE_X)' ... '#endif' regions whose HAVE_X is defined by config.h: libc's function is used there, not libast's."""
    cfg = os.path.join(repo, "config.h")
    if not os.path.exists(cfg):
        cfg = os.path.join(os.path.dirname(os.path.dirname(os.path.abspath(__file__))), "engine", "fallback_headers", "config.h")
    have = set(re.findall(r"^#define (HAVE_\w+) 1", open(cfg).read(), re.M))
    out, skip, depth = [], False, 0
    for line in src.split("\n"):
        m = re.match(r"#\s*if\s*!\s*\(?\s*(HAVE_\w+)\s*\)?\s*$", line.strip())
        m2 = re.match(r"#\s*if\s+\(?\s*(HAVE_\w+)\s*\)?\s*$", line.strip())
        if not skip and ((m and m.group(1) in have) or (m2 and m2.group(1) not in have)):
            skip, depth = True, 1
            out.append("")
            continue
        if skip:
            if re.match(r"#\s*if", line.strip()):
                depth += 1
            elif re.match(r"#\s*endif", line.strip()):
                depth -= 1
                if depth == 0:
                    skip = False
            out.append("")
            continue
        out.append(line)
    return "\n".join(out)


def scan(repo):
    rows, funcs = [], {}
    for f in SCOPE:
        path = os.path.join(repo, "src", f)
        if not os.path.exists(path):
            continue
        src = strip_disabled(open(path, errors="replace").read(), repo)
        for m in FUNC_RE.finditer(src):
            ret, name, params = " ".join(m.group(1).split()), m.group(2), split_params(m.group(3))
            static = ret.startswith("static")
            if static and f not in STATIC_OK:
                continue
            ret = ret.replace("static ", "").strip()
            # body up to the closing brace in column 0
            end = src.find("\n}\n", m.end())
            body = src[m.end(): end if end > 0 else len(src)]
            funcs[name] = {"file": f, "ret": ret, "params": params, "static": static}
            pnames = [p[1] for p in params]
            for line in body.split("\n"):
                line = line.strip()
                for rx, _ in GUARDS:
                    g = rx.search(line)
                    if g and g.group(2) in pnames:
                        rows.append({"func": name, "file": f, "pos": pnames.index(g.group(2)), "param": g.group(2), "kind": g.group(1), "val": g.group(3).strip()})
                for rx in GUARDS_VOID:
                    g = rx.search(line)
                    if g and g.group(2) in pnames:
                        rows.append({"func": name, "file": f, "pos": pnames.index(g.group(2)), "param": g.group(2), "kind": g.group(1), "val": ""})
                g = COMP.search(line)
                if g and g.group(1) in pnames and g.group(2) in pnames:
                    rows.append({"func": name, "file": f, "pos": pnames.index(g.group(1)), "param": g.group(1), "kind": "COMP", "val": "SPIF_CMP_LESS"})
                    rows.append({"func": name, "file": f, "pos": pnames.index(g.group(2)), "param": g.group(2), "kind": "COMP", "val": "SPIF_CMP_GREATER"})
    # one row per (func, pos): the first guard on that parameter decides
    seen, uniq = set(), []
    for r in rows:
        k = (r["func"], r["pos"])
        if k not in seen:
            seen.add(k)
            uniq.append(r)
    return uniq, funcs


SKIP_FUNCS = {"libast_fatal_error", "spifopt_usage", "spiftool_hex_dump", "spifmem_dump_mem_tables", "memrec_dump_pointers", "memrec_dump_resources"}


def emit(rows, funcs, out_path, pinned_keys):
    L = []
    L.append("/* generated by tools/gen_nullmatrix.py — do not edit */")
    L.append("#include \"h_null_pre.h\"")
    cases = []
    unsupported = []
    expanded = []
    for r in rows:
        expanded.append(r)
        fn = funcs.get(r["func"])
        names = [nm for (ty, nm) in fn["params"] if ty in IDX_TYPES] if fn else []
        if names:
            for alt in IDX_ALT:
                expanded.append(dict(r, variant=alt, variant_names="/".join(names)))
        if fn and any(ty in FACT_EMPTY for i, (ty, nm) in enumerate(fn["params"]) if i != r["pos"]):
            expanded.append(dict(r, empty=True))
    for r in expanded:
        fn = funcs.get(r["func"])
        if not fn:
            unsupported.append("%s: function no longer defined" % r["func"])
            continue
        if r["func"] in SKIP_FUNCS:
            continue
        params = fn["params"]
        if any(p[0] == "..." for p in params) and r["pos"] >= len([p for p in params if p[0] != "..."]):
            continue
        decl, args, cleanup, snaps, ok = [], [], [], [], True
        for i, (ty, nm) in enumerate(params):
            if ty == "...":
                continue
            if i == r["pos"]:
                if ty not in FACT and ty not in ("spif_vector_t", "spif_map_t", "spif_iterator_t"):
                    if ty in SCALAR:
                        ok = False
                        break
                args.append("(%s) NULL" % ty)
                continue
            if ty in FACT:
                mk, rm, snap = FACT[ty]
                if r.get("empty") and ty in FACT_EMPTY:
                    mk = FACT_EMPTY[ty]
                decl.append("    %s a%d = %s;" % (ty, i, mk))
                if rm:
                    cleanup.append("    { %s v = a%d; %s; }" % (ty, i, rm))
                if snap != "none":
                    snaps.append((i, snap))
                args.append("a%d" % i)
            elif ty in SCALAR:
                args.append("(%s) %s" % (ty.replace("register ", ""), r["variant"] if ("variant" in r and ty in IDX_TYPES) else SCALAR[ty]))
            else:
                ok = False
                unsupported.append("%s: parameter type '%s'" % (r["func"], ty))
                break
        if not ok:
            continue
        cid = len(cases)
        ret = fn["ret"]
        void = ret == "void"
        body = ["static void case_%d(res_t *r)" % cid, "{"]
        body += decl
        for i, snap in snaps:
            body.append("    snap_t s%d; snap_take(&s%d, (void *) a%d, SNAP_%s);" % (i, i, i, snap.upper()))
        body.append("    long live0 = mc_live_bytes();")
        call = "%s(%s)" % (r["func"], ", ".join(args))
        if void:
            body.append("    %s;" % call)
            body.append("    r->returned = 1; r->ret_ok = 1;")
        else:
            body.append("    %s ret = %s;" % (ret, call))
            val = r["val"]
            pn = [p[1] for p in params if p[0] != "..."]
            if any(re.search(r"\b%s\b" % re.escape(x), val) for x in pn):
                body.append("    (void) ret; r->returned = 1; r->ret_ok = 1; r->alloc_delta = 0; goto done;   /* the stated value is itself a call on the arguments (an initialiser): only 'no crash' is demanded */")
            elif ret == "spif_classname_t" and "NULLSTR" in val:
                body.append("    r->returned = 1; r->ret_ok = (ret != NULL && !strcmp((char *) ret, (char *) (%s)));" % val)
            elif "NAN" in val:
                body.append("    r->returned = 1; r->ret_ok = isnan((double) ret);")
            else:
                body.append("    r->returned = 1; r->ret_ok = (ret == (%s) (%s));" % (ret, val))
        body.append("    r->alloc_delta = mc_live_bytes() - live0;")
        for i, snap in snaps:
            body.append("    if (!snap_same(&s%d, (void *) a%d)) r->arg_changed = %d + 1;" % (i, i, i))
        body.append("done: ;")
        body += cleanup
        body.append("}")
        L += body
        key = "%s#%d" % (r["func"], r["pos"])
        label = r["param"]
        if "variant" in r:
            label = "%s (with %s=%s)" % (r["param"], r["variant_names"], r["variant"])
        elif r.get("empty"):
            label = "%s (the other objects empty)" % r["param"]
        cases.append((cid, dict(r, param=label), key in pinned_keys))
    L.append("const null_case_t NULL_CASES[] = {")
    for cid, r, pinned in cases:
        L.append("    { case_%d, \"%s\", %d, \"%s\", \"%s\", \"%s\", %d }," % (cid, r["func"], r["pos"], r["param"], r["kind"], r["val"].replace("\\", "\\\\").replace("\"", "\\\""), 1 if pinned else 0))
    L.append("};")
    L.append("const int N_NULL_CASES = %d;" % len(cases))
    L.append("const char *NULL_UNSUPPORTED = \"%s\";" % "; ".join(sorted(set(unsupported)))[:1500].replace("\"", "'"))
    open(out_path, "w").write("\n".join(L) + "\n")
    return len(cases), sorted(set(unsupported))


def generate(repo, verif, outdir):
    fresh, funcs = scan(repo)
    pinned_path = os.path.join(verif, "c16_guards.json")
    pinned = json.load(open(pinned_path))["rows"] if os.path.exists(pinned_path) else []
    keys = {(r["func"], r["pos"]) for r in fresh}
    rows = list(fresh) + [r for r in pinned if (r["func"], r["pos"]) not in keys]          # union: dropped guards stay in
    pinned_keys = {"%s#%d" % (r["func"], r["pos"]) for r in pinned}
    os.makedirs(outdir, exist_ok=True)
    out = os.path.join(outdir, "h_null_gen.c")
    n, unsup = emit(rows, funcs, out, pinned_keys)
    return out, n, unsup, len(fresh), len(pinned)


if __name__ == "__main__":
    verif = os.path.dirname(os.path.dirname(os.path.abspath(__file__)))
    repo = os.environ.get("VERIF_REPO", "/repo")
    if len(sys.argv) > 1 and sys.argv[1] == "--pin":
        rows, _ = scan(repo)
        json.dump({"note": "guard table of the pinned tree; regenerate with tools/gen_nullmatrix.py --pin", "rows": rows}, open(os.path.join(verif, "c16_guards.json"), "w"), indent=0)
        print("pinned %d guarded (function, parameter) rows" % len(rows))
    else:
        out, n, unsup, nf, np_ = generate(repo, verif, os.path.join(verif, "build", "gen"))
        print("%s: %d cases (%d fresh rows, %d pinned rows); unsupported: %s" % (out, n, nf, np_, unsup))
