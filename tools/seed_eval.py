#!/usr/bin/env python3
"""tools/seed_eval.py <PROP> <seed-dir> <name> [--asan] [--demo-cmd CMD]
Confirm a seeded change (patch.diff + demo.c + README) and record it under /verif/seeded/<name>/:
  1. in a scratch worktree: the patch applies, the library builds with the repository's own make, the repository's
     own suite still passes, the demonstration fails with the change and passes without it;
  2. on /repo itself: apply the patch, run the property's quick check (and optionally others), undo the patch.
meta.json records what was run and what was observed."""
import json
import os
import shutil
import subprocess
import sys
import time

VERIF = os.path.dirname(os.path.dirname(os.path.abspath(__file__)))


def sh(cmd, cwd=None, timeout=900):
    r = subprocess.run(cmd, shell=True, cwd=cwd, capture_output=True, text=True, errors="replace", timeout=timeout)
    return r.returncode, (r.stdout + r.stderr)


def suite(wt):
    # private network namespace: the suite's socket test binds a fixed TCP port
    rc, out = sh("make >/dev/null 2>&1; echo MAKE=$?; unshare -n sh -c 'ip link set lo up; make -C test test' 2>&1", cwd=wt)
    ok_build = "MAKE=0" in out
    passed = out.count("...passed")
    failed = [l for l in out.split("\n") if "...failed" in l and "spif_module_load" not in l]
    return ok_build, passed, failed


def main():
    prop, seed, name = sys.argv[1:4]
    asan = "--asan" in sys.argv
    demo_cmd = None
    if "--demo-cmd" in sys.argv:
        demo_cmd = sys.argv[sys.argv.index("--demo-cmd") + 1]
    extra_props = []
    if "--also" in sys.argv:
        extra_props = sys.argv[sys.argv.index("--also") + 1].split(",")
    patch = os.path.join(seed, "patch.diff")
    wt = "/tmp/seedchk_%s" % name
    meta = {"property": prop, "name": name, "source": "independent sub-agent given only the property text and a scratch worktree", "ran": []}
    sh("git -C /repo worktree remove --force %s" % wt)
    rc, out = sh("%s/tools/mk_seed_worktree.sh %s" % (VERIF, wt))
    try:
        # the seed directory is copied into the scratch worktree (demos may include sources relative to their own location)
        vdir = os.path.basename(os.path.abspath(seed))
        os.makedirs(os.path.join(wt, "seed"), exist_ok=True)
        shutil.copytree(seed, os.path.join(wt, "seed", vdir), dirs_exist_ok=True)
        rc, out = sh("git apply %s" % patch, cwd=wt)
        meta["patch_applies"] = (rc == 0)
        if rc != 0:
            meta["error"] = out[-500:]
            raise SystemExit
        ok_build, passed, failed = suite(wt)
        meta["builds_with_change"] = ok_build
        meta["suite_with_change"] = {"passed_lines": passed, "unexpected_failures": failed}
        meta["ran"].append("make && make -C test test (scratch worktree, with the change)")
        if not demo_cmd:
            demo_cmd = "gcc -g %s-I. -Iinclude -Iinclude/libast -DHAVE_CONFIG_H %s/demo.c src/.libs/libast.a -lX11 -lpcre -ldl -lm -lpthread -o /tmp/seedchk_%s_demo" % (
                "-fsanitize=address " if asan else "", os.path.abspath(seed), name)
        run_demo = "/tmp/seedchk_%s_demo" % name
        rc, out = sh(demo_cmd, cwd=wt)
        meta["demo_build"] = demo_cmd
        if rc != 0:
            meta["demo_build_error"] = out[-800:]
        rc1, out1 = sh("cd %s && timeout 60 %s" % (wt, run_demo))
        meta["demo_with_change"] = {"exit": rc1, "tail": out1[-300:]}
        sh("git checkout -- src include && make >/dev/null 2>&1", cwd=wt)
        rc, out = sh(demo_cmd, cwd=wt)
        rc0, out0 = sh("cd %s && timeout 60 %s" % (wt, run_demo))
        meta["demo_without_change"] = {"exit": rc0, "tail": out0[-300:]}
        meta["ran"].append("demonstration built and run with and without the change")
    finally:
        sh("git -C /repo worktree remove --force %s" % wt)
        shutil.rmtree(wt, ignore_errors=True)
        try:
            os.unlink("/tmp/seedchk_%s_demo" % name)
        except OSError:
            pass
    # step 2: the real /repo
    st = subprocess.run("git -C /repo status --porcelain --untracked-files=no", shell=True, capture_output=True, text=True).stdout.strip()
    if st:
        print("refusing: /repo has local modifications")
        sys.exit(2)
    checks = {}
    rc, out = sh("git -C /repo apply %s" % os.path.abspath(patch))
    try:
        for p in [prop] + extra_props:
            t0 = time.time()
            rc, out = sh("%s/tools/check %s --tier quick --no-evidence" % (VERIF, p), cwd=VERIF, timeout=1800)
            sigs = [l.strip()[11:] for l in out.split("\n") if l.strip().startswith("signature:")]
            checks[p] = {"exit": rc, "violation_lines": out.count("VIOLATION property="), "signatures": sigs[:8], "wall_s": round(time.time() - t0, 1)}
            meta["ran"].append("git -C /repo apply patch.diff; tools/check %s --tier quick --no-evidence" % p)
    finally:
        sh("git -C /repo checkout -- .")
    meta["checks"] = checks
    meta["detected_by"] = [p for p, c in checks.items() if c["exit"] == 1]
    valid = (meta.get("patch_applies") and meta.get("builds_with_change") and not meta["suite_with_change"]["unexpected_failures"]
             and meta["suite_with_change"]["passed_lines"] >= 119 and meta["demo_with_change"]["exit"] != 0 and meta["demo_without_change"]["exit"] == 0)
    meta["confirmed_valid_seed"] = bool(valid)
    dest = os.path.join(VERIF, "seeded", name)
    os.makedirs(dest, exist_ok=True)
    for f in ("patch.diff", "demo.c", "README"):
        if os.path.exists(os.path.join(seed, f)):
            shutil.copy(os.path.join(seed, f), os.path.join(dest, f))
    readme = open(os.path.join(seed, "README"), errors="replace").read() if os.path.exists(os.path.join(seed, "README")) else ""
    meta["needs_to_manifest"] = readme[:1200]
    json.dump(meta, open(os.path.join(dest, "meta.json"), "w"), indent=1)
    print("%s: valid=%s detected_by=%s  demo with/without=%s/%s suite=%s" % (name, valid, meta["detected_by"], meta["demo_with_change"]["exit"], meta["demo_without_change"]["exit"], meta["suite_with_change"]))


if __name__ == "__main__":
    main()
