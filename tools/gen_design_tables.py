#!/usr/bin/env python3
"""Regenerate the machine-derived appendix of DESIGN.md (between the AUTOGEN markers): the list of repaired defects
(fix: commits of /repo joined with known_findings.json) and the seeded-change detection matrix (seeded/*/meta.json)."""
import glob, json, os, subprocess, sys
V = os.path.dirname(os.path.dirname(os.path.abspath(__file__)))
kf = json.load(open(os.path.join(V, "known_findings.json")))["findings"]
by_commit = {}
for f in kf:
    if f.get("status") == "fixed":
        by_commit.setdefault(f["commit"], []).append(f)
log = subprocess.run("git -C /repo log --reverse --format='%h %s' 585bfc1..HEAD", shell=True, capture_output=True, text=True).stdout.strip().split("\n")
sys.path.insert(0, os.path.join(V, "tools"))
import props as _props
out = ["<!-- AUTOGEN-BEGIN (tools/gen_design_tables.py) -->", "", "### D.0 Checks as registered (tools/props.py) and what the last committed evidence run covered", "",
       "| id | level | runs | quick bound | thorough bound | last evidence: tier, evaluations, states, wall |", "|---|---|---|---|---|---|"]
for pid in sorted(_props.PROPS):
    P = _props.PROPS[pid]
    ev = {}
    try:
        ev = json.load(open(os.path.join(V, "evidence", pid + ".json")))
    except Exception:
        pass
    cov = ev.get("coverage", {})
    out.append("| %s | %s | %s | %s | %s | %s, %s, %s, %s s |" % (pid, P["level"], ", ".join(r["name"] for r in P["runs"]), P["bounds"].get("quick", "").replace("|", "/"), P["bounds"].get("thorough", "").replace("|", "/"),
                                                            ev.get("tier", "-"), cov.get("evaluations", "-"), cov.get("states", "-"), ev.get("wall_s", "-")))
out += ["", "### D.1 Genuine defects repaired in /repo (one `fix:` commit each)", "",
       "| # | commit | property (first reporting check) | defect (commit subject) |", "|---|---|---|---|"]
n = 0
for l in log:
    h, subj = l.split(" ", 1)
    if not subj.startswith("fix:"):
        continue
    n += 1
    props = sorted({f["property"] for f in by_commit.get(h, [])})
    out.append("| %d | `%s` | %s | %s |" % (n, h, ", ".join(props) if props else "(found while triaging; covered by the checks of the file's properties)", subj[5:].replace("|", "\\|")))
out += ["", "Open known findings: %d." % len([f for f in kf if f.get("status") == "open"]), ""]
metas = sorted(glob.glob(os.path.join(V, "seeded", "*", "meta.json")))
sp = os.path.join(V, "seeded", "strengthened.json")
STR = json.load(open(sp)) if os.path.exists(sp) else {}
out += ["### D.2 Seeded changes (independent sub-agents) and the checks that catch them", "",
        "| seed | breaks | valid seed (builds, suite passes, demo fails with / passes without) | quick checks reporting a VIOLATION | first signatures | caught at first evaluation? |", "|---|---|---|---|---|---|"]
for m in metas:
    d = json.load(open(m))
    sig = "; ".join((d.get("checks", {}).get(d["property"], {}).get("signatures") or [])[:2]).replace("|", "\\|")
    out.append("| %s | %s | %s | %s | %s | %s |" % (d["name"], d["property"], "yes" if d.get("confirmed_valid_seed") else "NO (%s)" % d.get("invalid_reason", "see meta.json"),
                                             ", ".join(d.get("detected_by", [])) or ("none: behaviour-preserving since repair %s" % d["neutralised_by_fix"]["commit"] if d.get("neutralised_by_fix") else ("none: not claimed (see meta.json)" if d.get("not_claimed") else "**none**")), sig[:160], ("no - added: " + STR[d["name"]]) if d["name"] in STR else "yes"))
out += ["", "<!-- AUTOGEN-END -->"]
p = os.path.join(V, "DESIGN.md")
s = open(p).read()
b, e = "<!-- AUTOGEN-BEGIN", "<!-- AUTOGEN-END -->"
if b in s:
    s = s[:s.index(b)] + "\n".join(out) + s[s.index(e) + len(e):]
else:
    s += "\n---------------------------------------------------------------------------------------\n\n## Appendix D. Repaired defects and seeded changes (generated)\n\n" + "\n".join(out) + "\n"
open(p, "w").write(s)
print("DESIGN.md appendix D: %d fixes, %d seeds" % (n, len(metas)))
