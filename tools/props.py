"""Registry: property id -> how it is decided (harness runs, tier arguments, evidence level)."""

PROPS = {}


def prop(pid, **kw):
    PROPS[pid] = kw


prop("C13",
     level="exploration",
     technique="bounded exhaustive input enumeration (E2) against reference transformations, ASan/UBSan byte-exact oracle",
     rule="every (size,src,dest-prefix) triple, every (string,idx,cnt) triple and every string over a 7-symbol alphabet up to the "
          "length bound is executed once on the real function; a case is non-trivial when the call changes its buffer, "
          "truncates, or returns a slice (i.e. is not a refusal/no-op); cases are distinct by construction",
     bounds={"quick": "L=6", "thorough": "L=9"},
     runs=[dict(name="h_bounded", sources=["harness/h_bounded.c"], profile="asan",
                args={"quick": ["--L=6"], "thorough": ["--L=9"]}),
           # the same with sources made of UTF-8 sequences, in the C locale and after setlocale(LC_ALL, "C.utf8") (skipped with a note where that locale is missing)
           dict(name="h_bounded_u8", binary="h_bounded", sources=["harness/h_bounded.c"], profile="asan", args={"quick": ["--L=6", "--src=utf8"], "thorough": ["--L=9", "--src=utf8"]}),
           dict(name="h_bounded_u8loc", binary="h_bounded", sources=["harness/h_bounded.c"], profile="asan", args={"quick": ["--L=6", "--src=utf8", "--locale=C.utf8"], "thorough": ["--L=9", "--src=utf8", "--locale=C.utf8"]}),
           # plain -O2 build: the in-place helpers on a string of more than 2^31 characters
           dict(name="h_bounded_huge", sources=["harness/h_bounded.c"], profile="plain2", args={"quick": ["--only=huge", "--workers=2", "--hang-cpu=300"], "thorough": ["--only=huge", "--workers=2", "--hang-cpu=300"]}),
           dict(name="h_compat", sources=["harness/h_compat.c"], profile="asan", args={})],
     deadline={"quick": 120, "thorough": 1200})


_C01_RULE = ("E1: breadth-first search over operation histories of one str/ustr object starting from every constructor; a state is a history, "
             "deduplicated by the canonical key (text, len, capacity slack class, NULL-buffer flag); every alphabet operation is executed from "
             "every reachable state on a fresh replayed object and compared with a byte-array reference model and invariants I1/I2; every "
             "query is probed in every new state; stream/descriptor constructors: E2 over (source kind x length x newline position) x E3 "
             "read() answer schedules {complete,1 byte,half,EINTR}; non-trivial = distinct reachable states + multi-chunk/newline stream cases")
prop("C01",
     level="model_checking",
     technique="explicit-state BFS over operation histories on the real object (replay on fresh object, canonical-key dedup) vs reference model; deviation-bounded read() schedules for fd/fp constructors",
     rule=_C01_RULE,
     bounds={"quick": "sigma={a,B,space} L=3 fixpoint; fd ctor k=4 dev<=2", "thorough": "sigma={a,B,space,7} L=5 fixpoint; fd ctor k=6 dev<=2"},
     runs=[dict(name="h_str", sources=["harness/h_str.c"], profile="asan", wraps=["read"],
                args={"quick": ["--L=3", "--sigma=3"], "thorough": ["--L=5", "--sigma=4"]}),
           dict(name="h_ustr", sources=["harness/h_str.c"], profile="asan", wraps=["read"], cflags=["-DUSTR"],
                args={"quick": ["--L=3", "--sigma=3"], "thorough": ["--L=5", "--sigma=4"]}),
           # plain -O2 build: texts whose lengths are 2^31 and more apart
           dict(name="h_str_huge", sources=["harness/h_str.c"], profile="plain2", wraps=["read"], args={"quick": ["--only=huge", "--workers=2", "--hang-cpu=120"], "thorough": ["--only=huge", "--workers=2", "--hang-cpu=120"]})],
     deadline={"quick": 200, "thorough": 3000})


prop("C07",
     level="model_checking",
     technique="explicit-state BFS over operation histories on the real mbuff object (replay on fresh object, canonical-key dedup) vs byte-array reference model; deviation-bounded read() schedules for fd/fp constructors",
     rule=_C01_RULE.replace("str/ustr", "mbuff").replace("I1/I2", "size>=len, allocation>=size"),
     bounds={"quick": "sigma={0x00,a,space} L=3 fixpoint; fd ctor k=4 dev<=2", "thorough": "sigma={0x00,a,space,0xFF} L=5 fixpoint; fd ctor k=6 dev<=2"},
     runs=[dict(name="h_mbuff", sources=["harness/h_mbuff.c"], profile="asan", wraps=["read"],
                args={"quick": ["--L=3", "--sigma=3"], "thorough": ["--L=5", "--sigma=4"]}),
           # plain -O2 build: buffers whose lengths are 2^31 and more apart (the big block is calloc'ed and never touched)
           dict(name="h_mbuff_huge", sources=["harness/h_mbuff.c"], profile="plain2", wraps=["read"], args={"quick": ["--only=huge", "--workers=2"], "thorough": ["--only=huge", "--workers=2"]})],
     deadline={"quick": 200, "thorough": 3000})


prop("C02",
     level="model_checking",
     technique="explicit-state BFS over list-interface histories on the three real classes vs one reference sequence with identities and NULL holes; link invariants read from the public structs",
     rule="E1 per class (array, linked_list, dlinked_list): BFS over histories of {append, prepend, insert_at over window(n), remove, remove_at over window(n), reverse} "
          "with elements a,b,c up to the size cap, dedup by the label sequence (holes included); every op from every reachable sequence, every query probed in "
          "every new state (count, get, index, find, contains, to_array, iterator, dup, show); the same model decides all three classes, so they are pairwise interchangeable; "
          "non-trivial = distinct reachable sequences",
     bounds={"quick": "size cap 5, fixpoint, one-step look-ahead from every transition", "thorough": "size cap 8, fixpoint; one-step look-ahead from every transition at size cap 6"},
     runs=[dict(name="h_list", sources=["harness/h_list.c"], profile="asan",
                args={"quick": ["--S=5"], "thorough": ["--S=8", "--lookahead=0"]}),
           # unoptimised plain build: 400000-element lists duplicated (per-element stack use shows; under ASan the array's growth is quadratic)
           dict(name="h_list_huge", sources=["harness/h_list.c"], profile="plain0", args={"quick": ["--only=huge"], "thorough": ["--only=huge"]}),
           dict(name="h_list_la", sources=["harness/h_list.c"], profile="asan", tiers=["thorough"],
                args={"quick": ["--S=5"], "thorough": ["--S=6"]})],
     deadline={"quick": 300, "thorough": 3000})


prop("C03",
     level="model_checking",
     technique="explicit-state BFS over map-interface histories on the three real map classes vs a sorted reference dictionary; caller objects mutated and deleted after each set; storage-order and link invariants",
     rule="E1 per class (array, linked_list, dlinked_list map): BFS over histories of {set(k,v), set(pair(k,v),NULL), remove(k)} over the key/value alphabet to a fixpoint "
          "(every dictionary over the key set is reached); dedup by dictionary; every op from every dictionary; every query probed in every new state; non-trivial = distinct dictionaries",
     bounds={"quick": "4 keys x 2 values, fixpoint (81 dictionaries/class)", "thorough": "7 keys x 2 values, fixpoint (2187 dictionaries/class)"},
     runs=[dict(name="h_map", sources=["harness/h_map.c"], profile="asan", args={"quick": ["--keys=4"], "thorough": ["--keys=7"]})],
     deadline={"quick": 200, "thorough": 3000})

prop("C04",
     level="model_checking",
     technique="explicit-state BFS over vector-interface histories on the three real vector classes vs a reference multiset with identities; sortedness/permutation/link invariants",
     rule="E1 per class: BFS over histories of {insert(x), remove(p)} with duplicate, minimum, maximum and absent probes to a fixpoint of the capped multiset space; "
          "dedup by multiplicity vector; every op from every multiset; find/contains/iterator/to_array/dup probed in every new state; non-trivial = distinct multisets",
     bounds={"quick": "4 values, multiplicity<=3, size<=7, fixpoint, one-step look-ahead", "thorough": "6 values, multiplicity<=4, size<=14, fixpoint, one-step look-ahead"},
     runs=[dict(name="h_vector", sources=["harness/h_vector.c"], profile="asan",
                args={"quick": ["--values=4", "--mult=3", "--S=7"], "thorough": ["--values=6", "--mult=4", "--S=14"]}),
           # unoptimised plain build: linked vectors of 400000 elements (an insert, a find or a copy that uses stack per element shows)
           dict(name="h_vector_huge", sources=["harness/h_vector.c"], profile="plain0", args={"quick": ["--only=huge"], "thorough": ["--only=huge"]})],
     deadline={"quick": 200, "thorough": 3000})


prop("C12",
     level="exploration",
     technique="bounded exhaustive input enumeration (E2) of all strings over an 8-symbol quoting alphabet x delimiter sets against a reference tokenizer and word grammar; exact-size heap inputs under ASan",
     rule="every string of length <= N over {a,b,space,comma,dquote,squote,backslash,tab} is split with three delimiter sets, tokenised by the tok class (twice), and run through "
          "num_words/get_word/get_pword for every index 0..num_words+2, each compared with the reference grammar; plus all join/split round trips of <= 4 plain tokens; "
          "non-trivial = inputs with a quote, a backslash or more than one token (counted per delimiter set)",
     bounds={"quick": "N=6 (299593 strings); again with the second letter replaced by 0xA0 and by 0x89", "thorough": "N=8 (19.2 M strings); with 0xA0 / 0x89 as the second letter at N=7"},
     runs=[dict(name="h_tokens", sources=["harness/h_tokens.c"], profile="asan", args={"quick": ["--N=6", "--hang-cpu=120"], "thorough": ["--N=8", "--hang-cpu=120"]}),      # the 70000-token cases take a minute of CPU: split and tok measure the rest of the input for every token
           dict(name="h_tokens_hbA0", binary="h_tokens", sources=["harness/h_tokens.c"], profile="asan", args={"quick": ["--N=6", "--hb=0xA0"], "thorough": ["--N=7", "--hb=0xA0"]}),
           dict(name="h_tokens_hb89", binary="h_tokens", sources=["harness/h_tokens.c"], profile="asan", args={"quick": ["--N=6", "--hb=0x89"], "thorough": ["--N=7", "--hb=0x89"]}),
           # the second letter replaced by the white-space characters a hand-written blank test forgets: vertical tab, form feed
           dict(name="h_tokens_hb0B", binary="h_tokens", sources=["harness/h_tokens.c"], profile="asan", args={"quick": ["--N=6", "--hb=0x0B"], "thorough": ["--N=7", "--hb=0x0B"]}),
           dict(name="h_tokens_hb0C", binary="h_tokens", sources=["harness/h_tokens.c"], profile="asan", args={"quick": ["--N=5", "--hb=0x0C"], "thorough": ["--N=7", "--hb=0x0C"]}),
           # ... and by control characters that are NOT white space (below the space character, and DEL): they are letters like any other
           dict(name="h_tokens_hb01", binary="h_tokens", sources=["harness/h_tokens.c"], profile="asan", args={"quick": ["--N=5", "--hb=0x01"], "thorough": ["--N=7", "--hb=0x01"]}),
           dict(name="h_tokens_hb1F", binary="h_tokens", sources=["harness/h_tokens.c"], profile="asan", args={"quick": ["--N=4", "--hb=0x1F"], "thorough": ["--N=6", "--hb=0x1F"]})],
     deadline={"quick": 200, "thorough": 3000})


prop("C17",
     level="exploration",
     technique="bounded exhaustive enumeration (E2) of all ordered pairs of fragment strings with a stack-fill differential for determinism, ASan/UBSan for safety, and the statement's ordering laws on all pairs of generated well-formed versions",
     rule="all ordered pairs (x,y) of strings of <= N fragments over the fragment alphabet: compare(x,y) is run under two stack fills and compare(y,x) once; checks: termination, "
          "sanitizer silence, determinism, antisymmetry, reflexivity; all ordered pairs of well-formed versions: the four ordering laws where they apply; all ordered pairs of 29 number spellings (zero-padded, 18..34 digits, around 2^32/2^63/2^64) in 5 version forms against decimal comparison; "
          "non-trivial = pairs that compare unequal / well-formed pairs to which a law applies",
     bounds={"quick": "21+12 fragments, <=2 per side (1.19 M pairs); well-formed: 3 numbers (5.9 M pairs); 4205 number-spelling pairs",
             "thorough": "same + 14-fragment core, <=3 per side (8.7 M pairs); well-formed: 5 numbers (81 M pairs)"},
     runs=[dict(name="h_vercmp", sources=["harness/h_vercmp.c"], profile="asan", args={"quick": ["--frags=2", "--nn=3"], "thorough": ["--frags=2", "--nn=5"]}),
           dict(name="h_vercmp_plain", sources=["harness/h_vercmp.c"], profile="plain0", args={"quick": ["--frags=2", "--nn=3"], "thorough": ["--frags=2", "--nn=4"]}),
           dict(name="h_vercmp_core", sources=["harness/h_vercmp.c"], profile="asan", tiers=("thorough",), args={"thorough": ["--frags=3", "--core=1"]})],
     deadline={"quick": 240, "thorough": 3000})


prop("C18",
     level="exploration",
     technique="bounded exhaustive enumeration (E2) over (length, alignment, seed, content pattern) against independent reference implementations; keys end at an ASan redzone at every alignment and sit against PROT_NONE pages on both sides; three builds (ASan -O1, gcc -O0, gcc -O2)",
     rule="every (length 0..N, alignment 0..7, seed in {0,1,0xf721b64d,0xffffffff}, pattern in {00.., FF.., counting, each single byte set to 0x01/0x80}) case runs all six hashes "
          "against references written from the published definitions; over-/under-reads fault at a redzone or PROT_NONE page; jenkins32 also with a 'table + i' expression over 32-bit words; keys of 2^29..2^30 words and 2^31..2^32-1 bytes in a lazily mapped region (plain -O2 build); non-trivial = keys of length > 0",
     bounds={"quick": "lengths 0..40 (55 k cases) + all 1-byte keys + 8 keys of 2 GiB", "thorough": "lengths 0..100 (333 k cases) + all 1- and 2-byte keys + 25 keys of 2..4 GiB"},
     assumptions=["little-endian host (jenkins == jenkinsLE is asserted)", "spifhash_jenkins32 is driven with a length in 32-bit words (keys at every byte alignment; the host allows unaligned 32-bit loads)"],
     runs=[dict(name="h_hash", sources=["harness/h_hash.c"], profile="asan", args={"quick": ["--maxlen=40"], "thorough": ["--maxlen=100"]}),
           # unoptimised and -O2 builds: a load the optimiser drops at -O1 is still a read past the key in the other builds (PROT_NONE pages catch it)
           dict(name="h_hash_O0", sources=["harness/h_hash.c"], profile="plain0", args={"quick": ["--maxlen=40"], "thorough": ["--maxlen=100"]}),
           dict(name="h_hash_O2", sources=["harness/h_hash.c"], profile="plain2", args={"quick": ["--maxlen=40"], "thorough": ["--maxlen=100"]}),
           # keys of 2 GiB and more (a lazily mapped region): lengths at which a byte count or a signed length wraps
           dict(name="h_hash_huge", binary="h_hash_O2", sources=["harness/h_hash.c"], profile="plain2", args={"quick": ["--only=huge", "--hang-cpu=300"], "thorough": ["--only=huge", "--hang-cpu=300"]})],
     deadline={"quick": 120, "thorough": 1200})


prop("C05",
     level="exploration",
     technique="bounded exhaustive enumeration (E2) of (class x family x reachable state x continuation) for dup independence and of all pairs/triples of pool objects for the comparison laws, under ASan",
     rule="for every value class and every list/vector/map class of the three families, every pool state (built by a construction/mutation history) is duplicated and put through "
          "every continuation: compare class/type()/value; mutate copy with each mutator; mutate original with each mutator; delete copy first; delete original first; "
          "all ordered pairs (reflexivity, antisymmetry, NULL first, value order for str/ustr/mbuff) and all triples (transitivity) of pool states per class; "
          "spif_obj_comp on synthetic addresses up to 2^40 apart; non-trivial = all dup continuations, pairs that compare unequal, all triples",
     bounds={"quick": "pools of 4..11 states per class; full pair/triple sets", "thorough": "same (the space is enumerated completely in both tiers)"},
     runs=[dict(name="h_proto", sources=["harness/h_proto.c"], profile="asan", args={}),
           # plain build: buffers whose lengths differ by 2^31..2^32+1 (a calloc'ed block that is never touched)
           dict(name="h_proto_huge", sources=["harness/h_proto.c"], profile="plain2", args={"quick": ["--only=huge", "--workers=2", "--hang-cpu=120"], "thorough": ["--only=huge", "--workers=2", "--hang-cpu=120"]})],
     deadline={"quick": 200, "thorough": 1200})


prop("C06",
     level="model_checking",
     technique="explicit-state BFS over object-API programs (two slots per class: build, dup, ownership-correct mutators, del) with the allocator as the invariant: live heap after teardown == baseline, ASan double-free/use-after-free",
     rule="E1 per class and family: BFS over programs {s = build(state i), s' = dup(s), s.mutator_j (setters, done/re-init, remove*/to_array/iterator/get_keys.. with hand-back released by the program), del(s)} "
          "on two slots up to the depth bound; dedup by (observable value of both slots, bytes held); after every explored history the program deletes what it owns and the heap must equal its baseline; "
          "non-trivial = distinct reachable (value, held-bytes) states; in addition the complete str/ustr/mbuff operation histories of C01/C07 (every refused and every aliasing call included) are run with the same heap oracle",
     bounds={"quick": "depth <= 4 per class (16 class/family systems); str/ustr/mbuff histories L=3 fixpoint", "thorough": "depth <= 6; with the large builder states (70000-byte texts, 300-element containers) depth <= 4; str/ustr/mbuff histories L=4 fixpoint"},
     runs=[dict(name="h_own", sources=["harness/h_own.c"], profile="asan", args={"quick": ["--depth=4"], "thorough": ["--depth=6", "--big=0"]}),
           # the large builder states (70000-byte texts, 300-element containers) at the quick depth: each replay costs hundreds of allocations
           dict(name="h_own_big", binary="h_own", sources=["harness/h_own.c"], profile="asan", tiers=["thorough"], args={"thorough": ["--depth=4", "--big=1"]}),
           # the complete C01/C07 operation alphabets (refused operations and aliasing included) with the allocator as the oracle
           dict(name="h_str_leak", sources=["harness/h_str.c"], profile="asan", wraps=["read"], cflags=["-DVERIF_LEAKRUN"],
                args={"quick": ["--L=3", "--sigma=3", "--only=e1"], "thorough": ["--L=4", "--sigma=3", "--only=e1"]}),
           dict(name="h_ustr_leak", sources=["harness/h_str.c"], profile="asan", wraps=["read"], cflags=["-DUSTR", "-DVERIF_LEAKRUN"],
                args={"quick": ["--L=3", "--sigma=3", "--only=e1"], "thorough": ["--L=4", "--sigma=3", "--only=e1"]}),
           dict(name="h_mbuff_leak", sources=["harness/h_mbuff.c"], profile="asan", wraps=["read"], cflags=["-DVERIF_LEAKRUN"],
                args={"quick": ["--L=3", "--sigma=3", "--only=e1"], "thorough": ["--L=4", "--sigma=3", "--only=e1"]})],
     deadline={"quick": 240, "thorough": 3000})


prop("C14",
     level="exploration",
     technique="bounded exhaustive enumeration (E2) of URL component tuples x protocol/service lookup outcomes against an assembled-components oracle, and of all short strings for robustness; lookups interposed, results freed at the next lookup, parser stack pre-filled",
     rule="every component tuple in the accepted shape x 5 lookup outcomes: parse, compare all seven components, unparse, compare the canonical text, re-parse and compare again; "
          "every string of length <= N over {a : / @ ? .} x 5 lookup outcomes: parse/unparse/re-parse under ASan; non-trivial = unambiguous tuples and strings containing a structural character",
     bounds={"quick": "7680 tuples x 5 outcomes; strings N=5", "thorough": "same tuples; strings N=8 (2.0 M x 5)"},
     runs=[dict(name="h_url", sources=["harness/h_url.c"], profile="asan", wraps=["getprotobyname", "getservbyname"], args={"quick": ["--N=5"], "thorough": ["--N=8"]})],
     deadline={"quick": 200, "thorough": 2400})


prop("C19",
     level="fault_enumeration",
     technique="deviation-bounded exhaustive enumeration of read()/write() answers (E3) on the real send/recv path, and explicit-state BFS over socket lifecycle histories with injected syscall failures against a descriptor-ownership model",
     rule="transfer: for every payload length in {1,2,4095,4096,4097,8192,16385,20000} x {peer closes, stays open}, every sequence of answers for the first k read/write calls with at most d non-default answers "
          "({complete,1 byte,half,EINTR} on read, +EAGAIN on write) is executed on a real UNIX-domain connection and the received bytes compared with the payload; "
          "lifecycle: BFS over {new, open, open with socket/bind/listen/connect failure, accept, failed accept, accept and dup with dup() failing, set_nbio, send, recv, close, dup, del} with the invariant fd>=0 <=> owns an open descriptor "
          "and a descriptor census after deleting everything; non-trivial = every transfer case (each expands into its schedule tree) + distinct lifecycle states",
     bounds={"quick": "k=5 calls, <=2 deviations; lifecycle depth 8 with one-step look-ahead", "thorough": "k=7 calls, <=3 deviations; lifecycle to its fixpoint (depth cap 30) with one-step look-ahead"},
     runs=[dict(name="h_sock", sources=["harness/h_sock.c"], profile="asan",
                wraps=["read", "write", "select", "socket", "bind", "listen", "connect", "accept", "dup"],
                args={"quick": ["--k=5", "--dev=2", "--depth=8"], "thorough": ["--k=7", "--dev=3", "--depth=30"]})],
     deadline={"quick": 240, "thorough": 3000})


_MW = ["malloc", "calloc", "realloc", "free", "XCreateGC", "XFreeGC", "XCreatePixmap", "XFreePixmap"]      # Xlib is replaced by stubs in the tracker harness
prop("C15",
     level="model_checking",
     technique="explicit-state BFS over tracked allocation histories through the real MALLOC/CALLOC/REALLOC/STRDUP/FREE macros vs a dictionary model of the tracker table (mem.c compiled into the harness TU); allocator interposed to choose realloc moves/stays",
     rule="E1: BFS over histories of the five tracked operations on a small pointer pool incl. REALLOC of NULL / to 0, unknown and already-freed pointers, with the allocator's move/stay answer chosen by the harness, "
          "to a fixpoint of (slot size/line/tracked, dead-pointer) states, for runtime levels 5, 4 and 0xffffffff in a DEBUG=5 build and for a DEBUG=4 build; after every step the private table equals the model as a set "
          "(address, size, 20-char file, line); plus the C06 object programs in a DEBUG=5 build at level 5: table empty after every teardown; non-trivial = distinct states",
     bounds={"quick": "pool of 2 pointers, fixpoint; object programs depth 2", "thorough": "pool of 3 pointers, fixpoint; object programs depth 3"},
     runs=[dict(name="h_memtrack5", sources=["harness/h_memtrack.c"], profile="asan_dbg5", exclude=["mem.c"], wraps=_MW, args={"quick": ["--pool=2"], "thorough": ["--pool=3"]}),
           dict(name="h_memtrack4", sources=["harness/h_memtrack.c"], profile="asan_dbg4", exclude=["mem.c"], wraps=_MW, args={"quick": ["--pool=2"], "thorough": ["--pool=3"]}),
           # the tracked build once more under MemorySanitizer (quick bounds in both tiers)
           dict(name="h_memtrack5_msan", sources=["harness/h_memtrack.c"], profile="msan_dbg5", exclude=["mem.c"], wraps=_MW, args={"quick": ["--pool=2"], "thorough": ["--pool=2"]}),
           # plain build: the table of 66000 live blocks (under ASan every growth step of the table is a copy)
           dict(name="h_memtrack5_plain", sources=["harness/h_memtrack.c"], profile="dbg5", exclude=["mem.c"], wraps=_MW, args={"quick": ["--only=many"], "thorough": ["--only=many"]}),
           dict(name="h_own_track", sources=["harness/h_own.c"], profile="asan_dbg5", exclude=["mem.c"], cflags=["-DVERIF_TRACKCHECK"], args={"quick": ["--depth=2"], "thorough": ["--depth=3"]})],
     deadline={"quick": 240, "thorough": 3000})


prop("C08",
     level="exploration",
     technique="bounded exhaustive enumeration (E2) of command lines built from semantic items x spellings x parser settings against an item-level (non-parsing) oracle, and of hostile token vectors under ASan with a diagnostic-count horizon",
     rule="part A: every sequence of <= K items over the spelling alphabet x {pre-parse} x {remove-args} x {arglist/abstract options in the normal or the pre-parse pass}; the parser is called as a client would "
          "(pre-parse pass, then normal pass) and every target variable, guard word, handler call and the final argv are compared with the assignment computed from the items; "
          "part B: every vector of <= N hostile tokens x 4 settings: terminates (<= 1000 diagnostics), ASan clean, foreign bits and guard words untouched, argv a NULL-terminated sub-sequence; "
          "non-trivial = valid item sequences, and hostile vectors that raise the bad-option count",
     bounds={"quick": "K=3 items (48 spellings), N=4 tokens (22 tokens)", "thorough": "K=4, N=5"},
     runs=[dict(name="h_opt", sources=["harness/h_opt.c"], profile="asan", wraps=["libast_print_error", "libast_print_warning"],
                args={"quick": ["--K=3", "--N=4"], "thorough": ["--K=4", "--N=5"]})],
     deadline={"quick": 240, "thorough": 3000})


_CONFWRAPS = ["getenv", "system", "fork", "vfork", "execve", "execv", "execvp", "popen", "posix_spawn", "fopen", "fdopen", "fclose", "libast_print_error", "libast_print_warning", "rand"]
prop("C09",
     level="exploration",
     technique="bounded exhaustive enumeration (E2) of config files over a line alphabet (incl. %include trees) against a reference reading that emits the expected handler-call trace with state threading; full depth sweep 1..255; private stacks read through TU inclusion of conf.c",
     rule="every file of <= N lines over 16 line kinds is written to disk and parsed by the real spifconf_parse; the recorded handler calls (context, begin/end/text, text, state received) must equal the trace of the reference reading, "
          "diagnostics must match, files opened == files closed, file stack back at 0, context stack at the number of unclosed blocks, index < capacity at every handler call; "
          "depth sweep: every d in 1..255 balanced and unbalanced; include chains 1..30; non-trivial = files with a block or an include, all sweep cases",
     bounds={"quick": "N=4 (69905 files) + 510 depth cases + 30 include chains", "thorough": "N=5 (1.1 M files) + sweeps"},
     runs=[dict(name="h_conf", sources=["harness/h_conf.c"], profile="asan", exclude=["conf.c"], wraps=_CONFWRAPS, args={"quick": ["--N=4"], "thorough": ["--N=5"]})],
     deadline={"quick": 240, "thorough": 3000})


prop("C10",
     level="exploration",
     technique="bounded exhaustive enumeration (E2) of value strings built from expansion fragments x environments against a reference expander, each call repeated under two stack/heap fill patterns (purity) and on exact-size heap inputs (over-read); explicit-state BFS over %put/%get histories; length-limit sweep",
     rule="every concatenation of <= N fragments x HOME in {/h, empty, unset} is expanded by the real spifconf_shell_expand twice (memory pre-filled with 0xA5, then 0x5A); both results must agree with each other and with the reference expander "
          "(inputs with a '%' that starts no built-in get the safety/purity oracle only); the input sits in an exact-size heap block whenever the expected result fits; "
          "%put/%get: BFS over 9 operations to a fixpoint with the store's order/uniqueness invariant; limit: 10 fragments x 14 distances from 20479 x 2; non-trivial = inputs containing a special character",
     bounds={"quick": "N=3 (22765 strings x 3 HOME)", "thorough": "N=4 (637 k strings x 3 HOME)"},
     runs=[dict(name="h_expand", sources=["harness/h_expand.c"], profile="asan", exclude=["conf.c"], wraps=_CONFWRAPS, args={"quick": ["--N=3"], "thorough": ["--N=4"]}),
           dict(name="h_expand_O2", sources=["harness/h_expand.c"], profile="plain2", exclude=["conf.c"], wraps=_CONFWRAPS, args={"quick": ["--N=2", "--only=a"], "thorough": ["--N=3", "--only=a"]})],
     deadline={"quick": 240, "thorough": 3000})


prop("C11",
     level="exploration",
     technique="bounded exhaustive enumeration (E2) of hostile config files and path-length combinations under ASan with spawn traps (system/fork/exec/popen interposed, positive controls), temp-file matrix, and explicit-state BFS over init/register/parse/expand/free cycles with a heap baseline",
     rule="(1) every file of <= N lines over 29 hostile line kinds x 4 file-shape variants, 6 special files and 64 program-name-length cases: parse returns, ASan/UBSan silent, nothing spawned, files closed, file stack restored; "
          "(2) every (file length x dir x pathlist shape) combination up to 70000 characters through spifconf_find_file; (3) spawn-trap positive controls; spiftool_temp_file for every umask x TMPDIR/TMP x template length: mode 0600, 50 distinct names; "
          "(4) BFS over lifecycle histories (two init..free cycles, incl. parse through an emulated preprocessor, lines given outside a file, a queued stream): heap back at the baseline after every free, %get answers per cycle, temporary files gone; registration counter sweep 0..300; non-trivial = every case except the shortest paths",
     bounds={"quick": "N=2 hostile lines; lifecycle depth 7", "thorough": "N=3 hostile lines; lifecycle depth 9"},
     runs=[dict(name="h_confsafe", sources=["harness/h_confsafe.c"], profile="asan", exclude=["conf.c"], wraps=_CONFWRAPS, args={"quick": ["--N=2", "--depth=7"], "thorough": ["--N=3", "--depth=9"]})],
     deadline={"quick": 240, "thorough": 3000})


prop("C16",
     level="exploration",
     technique="exhaustive walk of the finite (entry point x guarded pointer parameter x runtime debug level) matrix generated from the source's own guards (union with a pinned table), each cell in a forked child so the fatal-error path is observable",
     rule="tools/gen_nullmatrix.py parses every definition in the anchored files (and the class-table methods of the three container classes) and its ASSERT/REQUIRE/COMP_CHECK_NULL guards; every (function, guarded parameter) row of the union "
          "of the pinned and the freshly generated table is called with that parameter NULL and the others valid at runtime levels 0, 1 and 3: level 0 must return the stated failure value, leave the other arguments and the heap unchanged; "
          "level >= 1 may instead exit through the fatal-error path with its diagnostic (ASSERT guards only); never a signal; rows of the configuration module run on an initialised subsystem and ordinary use afterwards (next context/builtin/file-state/context-state IDs, context lookup, handler calls) must be what it is without the refused call; non-trivial = every cell",
     bounds={"quick": "full matrix (~690 rows incl. position and empty-object variants x 4 cells: levels 0, 1, 3 and level 1 silenced)", "thorough": "same: the matrix is finite and walked completely in both tiers"},
     assumptions=["pthreads.c and module.c entry points are outside the anchored scope", "DEBUG=4 build (the configured default)"],
     runs=[dict(name="h_null", sources=["harness/h_null.c"], gen="nullmatrix", profile="asan", exclude=["array.c", "linked_list.c", "dlinked_list.c"], args={})],
     deadline={"quick": 240, "thorough": 1200})


_GATE_BUILDS = ["dbgundef", "dbg0", "dbg1", "dbg2", "dbg3", "dbg4", "dbg5", "dbg9999", "dbg4nd", "dbg0nd"]
prop("C20",
     level="exploration",
     technique="exhaustive walk of the configuration matrix (8 compile-time DEBUG builds + 2 with NDEBUG and -O2 x probe x runtime level x silent), each cell in a forked child with stderr on a pipe, against a table-driven gate model",
     rule="for each build DEBUG in {undefined,0,1,2,3,4,5,9999} the probe program and the library are compiled with that DEBUG; every (macro probe x runtime level in {0..6,9999}) cell and every (output primitive x level x silent) cell runs in a child: "
          "bytes written to stderr, side-effect counters in the macro arguments/conditions, the return value, whether the function continued and the exit status must match the gate model; a condition whose text holds \"100%%\" keeps both percent signs in the diagnostic; thorough adds one real in-library statement per D_* family; "
          "non-trivial = every executed cell",
     bounds={"quick": "10 builds x 43 probes x 10 levels (0..6, 9999, 0x80000000, 0xffffffff) x silent {off,TRUE,0x100} x history {fresh process, after four refused output calls}", "thorough": "same + 4 in-library statements per build"},
     runs=[dict(name="h_gate_" + b, sources=["harness/h_gate.c"], profile=b, args={"quick": ["--build=" + b], "thorough": ["--build=" + b]}) for b in _GATE_BUILDS],
     deadline={"quick": 300, "thorough": 1200})


# ---- the runtime debug level is part of "every configuration": each harness is run a second time with the library's
# runtime debug level at 9999 (every compiled-in D_* statement evaluates its arguments, a failed ASSERT is fatal).  The
# level runs use the quick-tier bounds where the thorough bounds are expensive.  C15, C16 and C20 set levels themselves.
_DL_THOROUGH_AT_QUICK = {"C01", "C02", "C03", "C06", "C07", "C09", "C12", "C13", "C17"}
for _pid in ("C01", "C02", "C03", "C04", "C05", "C06", "C07", "C08", "C09", "C10", "C11", "C12", "C13", "C14", "C17", "C18", "C19"):
    _P = PROPS[_pid]
    _extra = []
    for _r in _P["runs"]:
        if _r["name"].endswith("_leak") or _r["name"].endswith("_la") or _r["name"].endswith("_big") or "_hb" in _r["name"] or "_u8" in _r["name"] or _r["name"] == "h_compat" or _r.get("profile") not in ("asan",):
            continue
        _d = dict(_r)
        _d["name"] = _r["name"] + "_dl"
        _d["binary"] = _r["name"]
        _a = _r.get("args", {})
        _q = list(_a.get("quick", []))
        _t = _q if _pid in _DL_THOROUGH_AT_QUICK else list(_a.get("thorough", []))
        if _pid == "C02":
            _q = _q + ["--lookahead=0"]          # the look-ahead pass is done at level 0; the level run repeats the plain search
            _t = _q
        _d["args"] = {"quick": _q + ["--dlevel=9999"], "thorough": [x for x in _t if x != "--lookahead=0"] + ["--dlevel=9999"]}
        _extra.append(_d)
    _P["runs"] = _P["runs"] + _extra
    _P["bounds"] = {k: v + "; repeated at runtime debug level 9999" + (" (quick bounds)" if (k == "thorough" and _pid in _DL_THOROUGH_AT_QUICK) else "") for k, v in _P["bounds"].items()}

# MemorySanitizer runs (clang -O0, library + harness + engine instrumented): the first (main) run of each property once more, quick bounds in both tiers;
# every use of a value that was never initialised - a local read on a rarely taken path, a field a constructor forgot - is a violation wherever the
# stack or heap contents happen to hide it in the other builds
_MSAN = ("C01", "C02", "C03", "C04", "C05", "C06", "C07", "C08", "C09", "C10", "C11", "C12", "C13", "C14", "C16", "C17", "C18", "C19")
for _pid in _MSAN:
    _P = PROPS[_pid]
    _r = _P["runs"][0]
    _d = dict(_r)
    _d["name"] = _r["name"] + "_msan"
    _d["profile"] = "msan"
    _d.pop("binary", None)
    _q = list(_r.get("args", {}).get("quick", []))
    if _pid == "C02":
        _q = ["--S=4", "--lookahead=0"]          # the uninstrumented-memory question is settled at a smaller cap; the full alphabet stays
    _d["args"] = {"quick": _q, "thorough": _q}
    _P["runs"] = _P["runs"] + [_d]
    _P["bounds"] = {k: v + "; main run repeated under MemorySanitizer (quick bounds%s)" % (", size cap 4" if _pid == "C02" else "") for k, v in _P["bounds"].items()}

NOT_CLAIMED = {}
