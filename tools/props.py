"""Registry: property id -> how it is decided (harness runs, tier arguments, evidence level)."""

PROPS = {}


def prop(pid, **kw):
    PROPS[pid] = kw


prop("C13",
     level="exploration",
     technique="bounded exhaustive input enumeration (E2) against reference transformations, ASan/UBSan byte-exact oracle",
     rule="every (size,src,dest-prefix) triple, every (string,idx,cnt) triple and every string over a 7-symbol alphabet up to the "
          "length bound is executed once on the real function; a case is non-trivial when the call changes its buffer, "
          "truncates, or returns a slice (i.e. is not a refusal/no-op); cases are distinct by construction",
     bounds={"quick": "L=4", "thorough": "L=9"},
     runs=[dict(name="h_bounded", sources=["harness/h_bounded.c"], profile="asan",
                args={"quick": ["--L=4"], "thorough": ["--L=9"]})],
     deadline={"quick": 120, "thorough": 1200})
NOT_CLAIMED = {}
