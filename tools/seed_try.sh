#!/bin/sh
# tools/seed_try.sh <seed-name> <PROP> [extra tools/check args...] — apply seeded/<name>/patch.diff to /repo, run the check, undo.
# (development aid; the recorded verdicts come from tools/seed_eval.py / tools/seed_recheck.py)
N=$1; P=$2; shift 2
[ -z "$(git -C /repo status --porcelain --untracked-files=no)" ] || { echo "refusing: /repo has local modifications"; exit 2; }
git -C /repo apply /verif/seeded/$N/patch.diff || exit 2
/verif/tools/check $P --tier ${TIER:-quick} --no-evidence "$@" 2>&1 | grep -v '^VIOLATION' | cut -c1-330 | tail -${LINES_:-8}
git -C /repo checkout -- .
