#!/bin/sh
# tools/mk_seed_round.sh <round-tag> <A> <B> — one scratch worktree per property under /tmp/<round-tag>_Cnn with PROPERTY.json and
# TASK.md (from tools/seed_task_template.md); <A>/<B> are the letters of the two seeds each sub-agent is asked for.
# Give each sub-agent only: "Read the file /tmp/<tag>_Cnn/TASK.md and do exactly what it says. Work only inside /tmp/<tag>_Cnn. Do not read or touch /verif or /repo."
# Afterwards: tools/seed_eval.py Cnn /tmp/<tag>_Cnn/seed/<A> Cnn-<A> ... ; git -C /repo worktree remove --force /tmp/<tag>_Cnn
set -e
TAG=$1; A=$2; B=$3
V=$(cd "$(dirname "$0")/.." && pwd)
for i in 01 02 03 04 05 06 07 08 09 10 11 12 13 14 15 16 17 18 19 20; do
  D=/tmp/${TAG}_C$i
  "$V/tools/mk_seed_worktree.sh" "$D" >/dev/null 2>&1
  python3 - "$V" "$D" "C$i" "$A" "$B" <<'PY'
import json, sys
v, d, pid, a, b = sys.argv[1:6]
for l in open(v + "/properties.jsonl"):
    p = json.loads(l)
    if p["id"] == pid:
        json.dump(p, open(d + "/PROPERTY.json", "w"), indent=1)
tried = json.load(open(v + "/tools/seed_tried.json")).get(pid, [])
t = open(v + "/tools/seed_task_template.md").read().replace("{DIR}", d).replace("{A}", a).replace("{B}", b).replace("{TRIED}", ", ".join(tried) or "(none)")
open(d + "/TASK.md", "w").write(t)
PY
done
echo "worktrees: /tmp/${TAG}_C01 .. /tmp/${TAG}_C20"
