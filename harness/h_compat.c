/* h_compat.c — C13 (and the same helpers' 0.5-API spellings): the compatibility names chomp(), downcase_str(), upcase_str(), safe_str(),
 * condense_whitespace() are other entry points to the same helpers.  Each is called with arguments that have side effects
 * (p[i++]): the argument is evaluated exactly once, the designated string gets exactly the helper's transformation and its
 * neighbours are left alone. */
#define LIBAST_COMPAT_05_API 1
#include "hcommon.h"
#include <ctype.h>

enum { A_CHOMP, A_DOWN, A_UP, A_SAFE, A_CONDENSE, NALIAS };
static const char *AN[NALIAS] = { "chomp", "downcase_str", "upcase_str", "safe_str", "condense_whitespace" };
static const char *IN[4] = { "  Ab\x01  cD ", "", " \t ", "xY" };
static void expect(int a, const char *in, char *out)
{
    size_t n = strlen(in), o = 0;
    switch (a) {
    case A_CHOMP: { size_t x = 0, y = n; while (x < n && isspace((unsigned char) in[x])) x++; while (y > x && isspace((unsigned char) in[y - 1])) y--; memcpy(out, in + x, y - x); out[y - x] = 0; break; }
    case A_DOWN: for (size_t i = 0; i <= n; i++) out[i] = (char) tolower((unsigned char) in[i]); break;
    case A_UP: for (size_t i = 0; i <= n; i++) out[i] = (char) toupper((unsigned char) in[i]); break;
    case A_SAFE: for (size_t i = 0; i <= n; i++) out[i] = (i < n && iscntrl((unsigned char) in[i])) ? '.' : in[i]; break;
    default: { int sp = 0; for (size_t i = 0; i < n; i++) { if (isspace((unsigned char) in[i])) { if (!sp) out[o++] = ' '; sp = 1; } else { out[o++] = in[i]; sp = 0; } } if (o && out[o - 1] == ' ') o--; out[o] = 0; break; }
    }
}
static void desc(uint64_t idx, void *ctx, char *b, size_t n) { (void) ctx; char e[64]; mc_esc(IN[idx % 4], strlen(IN[idx % 4]), e, sizeof e); snprintf(b, n, "%s(p[i++]) with p = { \"%s\", \"  keep \", \"  Keep2 \" }", AN[idx / 4], e); }
static void case_fn(uint64_t idx, void *ctx)
{
    int a = (int) (idx / 4); const char *in = IN[idx % 4]; (void) ctx;
    mc_set_shape(AN[a]);
    char *p[3] = { mc_heapstr(in), mc_heapstr("  keep "), mc_heapstr("  Keep2 ") }; unsigned short cnt[2] = { (unsigned short) strlen(in), 3 };
    int i = 0, j = 0; char *r = NULL, want[64];
    expect(a, in, want);
    switch (a) {
    case A_CHOMP: r = (char *) chomp((spif_charptr_t) p[i++]); break;
    case A_DOWN: r = (char *) downcase_str((spif_charptr_t) p[i++]); break;
    case A_UP: r = (char *) upcase_str((spif_charptr_t) p[i++]); break;
    case A_SAFE: r = (char *) safe_str((spif_charptr_t) p[i++], cnt[j++]); break;
    default: r = (char *) condense_whitespace((spif_charptr_t) p[i++]); p[0] = r; break;       /* condense may hand back a re-allocated block */
    }
    if (i != 1 || (a == A_SAFE && j != 1)) FAIL(AN[a], "model:argument-evaluated-more-than-once", AN[a], "the argument expression p[i++] was evaluated %d times", i);
    if (!r || strcmp(r, want)) { char e1[80], e2[80]; mc_esc(r ? r : "", r ? strlen(r) : 0, e1, sizeof e1); mc_esc(want, strlen(want), e2, sizeof e2); FAIL(AN[a], "model:content", AN[a], "the compatibility name gives \"%s\", the helper's transformation is \"%s\"", e1, e2); }
    if (strcmp(p[1], "  keep ") || strcmp(p[2], "  Keep2 ")) FAIL(AN[a], "model:neighbour-changed", AN[a], "a string that was not the argument was changed");
    free(p[0]); free(p[1]); free(p[2]);
    mc_nontrivial();
    mc_outcome(idx);
}
int main(int argc, char **argv)
{
    mc_init("C13", argc, argv);
    libast_debug_level = (unsigned) mc_dlevel();
    mc_info("alphabet", "the five 0.5-API names of the in-place helpers x 4 strings, each called as name(p[i++])");
    mc_e2_level("compat_names", 1, NALIAS * 4, case_fn, desc, NULL);
    return mc_finish();
}
