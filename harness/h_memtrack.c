/* h_memtrack.c — C15: the debug memory tracker mirrors the live allocation set exactly.
 * E1 over {MALLOC, CALLOC, STRDUP, REALLOC (grow/shrink/to 0/of NULL, allocator moves or stays),
 * FREE, FREE/REALLOC of unknown and of already-freed pointers} on a small pointer pool, through
 * the real macros, against a dictionary address -> (size, file[0..20), line).  mem.c is compiled
 * into this translation unit so the private table can be read.  The libc allocator is interposed
 * (pass-through) so that "realloc moves / stays" is the harness' choice and a free() of an
 * already-freed pointer is absorbed instead of being undefined behaviour.
 * Built in a DEBUG=5 profile (tracker compiled in) and a DEBUG=4 profile (macros map to libc). */
#include <config.h>
#include "mem.c"                       /* from <repo>/src, on the include path */
#include "mc.h"
#include <malloc.h>
/* ASan or MSan build: the cases that need blocks above 4 GiB or 66000 live blocks are left to the plain build */
#if defined(__SANITIZE_ADDRESS__)
# define SANITIZED_BUILD 1
#elif defined(__has_feature)
# if __has_feature(address_sanitizer) || __has_feature(memory_sanitizer)
#  define SANITIZED_BUILD 1
# endif
#endif
#ifndef SANITIZED_BUILD
# define SANITIZED_BUILD 0
#endif
/* Xlib is replaced by stubs (link-time): the tracker's X wrappers can be called without a display */
GC __wrap_XCreateGC(Display *d, Drawable w, unsigned long m, XGCValues *v) { (void) d; (void) w; (void) m; (void) v; static long n; return (GC) (uintptr_t) (0x77000 + 16 * ++n); }
int __wrap_XFreeGC(Display *d, GC gc) { (void) d; (void) gc; return 1; }
Pixmap __wrap_XCreatePixmap(Display *d, Drawable w, unsigned int wd, unsigned int h, unsigned int depth) { (void) d; (void) w; (void) wd; (void) h; (void) depth; static Pixmap n = 0x5500; return ++n; }
int __wrap_XFreePixmap(Display *d, Pixmap p) { (void) d; (void) p; return 1; }

#define FAIL(site, kind, shape, ...) mc_fail(site, kind, shape, __VA_ARGS__)

#if DEBUG >= 5
# define TRACKED 1
#else
# define TRACKED 0
#endif

/* ------------------------------------------------------------------ allocator interposition */
void *__real_malloc(size_t); void *__real_calloc(size_t, size_t); void *__real_realloc(void *, size_t); void __real_free(void *);
static int g_realloc_mode;            /* 0 natural, 1 force move, 2 force stay (when it fits) — applies to the next realloc only */
static void *g_dead[8]; static int g_ndead;      /* pointers the harness knows to be freed already */
static int g_absorbed;
void *__wrap_malloc(size_t n) { return __real_malloc(n); }
void *__wrap_calloc(size_t a, size_t b) { return __real_calloc(a, b); }
void __wrap_free(void *p)
{
    for (int i = 0; i < g_ndead; i++) if (p && g_dead[i] == p) { g_absorbed++; return; }     /* absorbed double free */
    __real_free(p);
}
void *__wrap_realloc(void *p, size_t n)
{
    int mode = g_realloc_mode; g_realloc_mode = 0;
    for (int i = 0; i < g_ndead; i++) if (p && g_dead[i] == p) { g_absorbed++; return __real_malloc(n); }
    if (p && n && mode == 1) { size_t old = malloc_usable_size(p); void *q = __real_malloc(n); memcpy(q, p, old < n ? old : n); __real_free(p); return q; }
    if (p && n && mode == 2 && malloc_usable_size(p) >= n) return p;
    return __real_realloc(p, n);
}

/* ------------------------------------------------------------------ system */
#define NSLOT 3
static int P = 2; static unsigned LEVEL = 5;      /* the runtime debug level is an unsigned int: 0xffffffff is the highest level there is */
typedef struct { void *p; size_t size; int tracked; char file[24]; unsigned line; unsigned char fill; } slot_t;
typedef struct { slot_t s[NSLOT]; void *raw; void *dead; int ntracked; } st_t;
enum { K_MALLOC8, K_MALLOC64, K_CALLOC, K_STRDUP, K_REALLOC_NULL, K_REALLOC0, K_REALLOC8_MOVE, K_REALLOC8_STAY, K_REALLOC64_MOVE, K_REALLOC64_STAY, K_FREE, NK_SLOT,
       K_FREE_UNKNOWN = 100, K_REALLOC_UNKNOWN, K_FREE_DEAD, K_REALLOC_DEAD, K_FREE_NULL };
typedef struct { int k, slot; } op_t;
static op_t OPS[64]; static int NOPS;
static const char *KN[] = { "MALLOC(8)", "MALLOC(64)", "CALLOC(int,4)", "STRDUP(\"xy\")", "REALLOC(NULL,8)", "REALLOC(p,0)", "REALLOC(p,8)[moves]", "REALLOC(p,8)[stays]", "REALLOC(p,64)[moves]", "REALLOC(p,64)[stays]", "FREE(p)" };
static void build_ops(void)
{
    NOPS = 0;
    for (int s = 0; s < P; s++) for (int k = 0; k < NK_SLOT; k++) OPS[NOPS++] = (op_t) { k, s };
    OPS[NOPS++] = (op_t) { K_FREE_UNKNOWN, 0 }; OPS[NOPS++] = (op_t) { K_REALLOC_UNKNOWN, 0 };
    OPS[NOPS++] = (op_t) { K_FREE_DEAD, 0 }; OPS[NOPS++] = (op_t) { K_REALLOC_DEAD, 0 }; OPS[NOPS++] = (op_t) { K_FREE_NULL, 0 };
}
static void op_name(int i, char *b, size_t n)
{
    op_t *o = &OPS[i];
    if (o->k < NK_SLOT) snprintf(b, n, "p%d: %s", o->slot, KN[o->k]);
    else snprintf(b, n, "%s", o->k == K_FREE_UNKNOWN ? "FREE(untracked block)" : (o->k == K_REALLOC_UNKNOWN ? "REALLOC(untracked block,8)" : (o->k == K_FREE_DEAD ? "FREE(already freed pointer)" : (o->k == K_REALLOC_DEAD ? "REALLOC(already freed pointer,8)" : "FREE(NULL)"))));
}
#if TRACKED
/* history: the tracker's other tables (pixmaps, GCs) have been through 40 additions and 35 removals before the malloc table is used;
 * anything the record-set code keeps outside a record set (capacity, cursor, cache) has been written by a sibling table */
static void sibling_tables_prelude(void)
{
    static int done; if (done) return; done = 1;
    for (unsigned long k = 1; k <= 40; k++) memrec_add_var(&pixmap_rec, "pix.c", k, (void *) (0x1000 + 16 * k), 4 * k);
    for (unsigned long k = 1; k <= 35; k++) memrec_rem_var(&pixmap_rec, "pm", "pix.c", k, (void *) (0x1000 + 16 * k));
    for (unsigned long k = 1; k <= 5; k++) memrec_add_var(&gc_rec, "gc.c", k, (void *) (0x9000 + 16 * k), sizeof(void *));
}
#endif
static void *fresh(void)
{
#if TRACKED
    { unsigned lv = libast_debug_level; libast_debug_level = 0; sibling_tables_prelude(); libast_debug_level = lv; }
#endif
    st_t *s = __real_calloc(1, sizeof *s);
    libast_debug_level = (unsigned) LEVEL;
    g_ndead = 0; g_realloc_mode = 0;
#if TRACKED
    malloc_rec.cnt = 0;                         /* every history starts with an empty table (the previous one was torn down) */
#endif
    return s;
}
static int enabled(void *vs, int op)
{
    st_t *s = vs; op_t *o = &OPS[op];
    if (o->k < NK_SLOT) { int has = s->s[o->slot].p != NULL; return (o->k <= K_REALLOC_NULL) ? !has : has; }
    if (o->k == K_FREE_DEAD || o->k == K_REALLOC_DEAD) return s->dead != NULL;
    return 1;
}
#if TRACKED
static void check_table(st_t *s, const char *site, const char *shape)
{
    size_t want = 0;
    for (int i = 0; i < P; i++) if (s->s[i].p && s->s[i].tracked) want++;
    if (malloc_rec.cnt != want) { FAIL(site, "model:record-count", shape, "table holds %lu records, %zu tracked blocks are live", (unsigned long) malloc_rec.cnt, want); return; }
    for (int i = 0; i < P; i++) {
        slot_t *t = &s->s[i]; if (!t->p || !t->tracked) continue;
        spifmem_ptr_t *r = NULL; int hits = 0;
        for (size_t k = 0; k < malloc_rec.cnt; k++) if (malloc_rec.ptrs[k].ptr == t->p) { r = &malloc_rec.ptrs[k]; hits++; }
        if (hits != 1) { FAIL(site, "model:record-missing-or-duplicated", shape, "%d records for the live block of p%d", hits, i); return; }
        if (r->size != t->size) { FAIL(site, "model:record-size", shape, "record size %lu, last requested %zu", (unsigned long) r->size, t->size); return; }
        if (strcmp((char *) r->file, t->file)) { FAIL(site, "model:record-file", shape, "record file \"%s\", expected \"%s\"", (char *) r->file, t->file); return; }
        if (r->line != t->line) { FAIL(site, "model:record-line", shape, "record line %u, expected %u", (unsigned) r->line, t->line); return; }
    }
}
#else
static void check_table(st_t *s, const char *site, const char *shape) { (void) s; (void) site; (void) shape; }
#endif
static void note(slot_t *t, void *p, size_t size, const char *file, unsigned line, unsigned char fill)
{
    t->p = p; t->size = size; t->tracked = (TRACKED && LEVEL >= 5); t->line = line; t->fill = fill;
    snprintf(t->file, sizeof t->file, "%.20s", file);
    if (p && size) memset(p, fill, size);
}
static int intact(slot_t *t, size_t upto) { unsigned char *q = t->p; for (size_t i = 0; i < upto; i++) if (q[i] != t->fill) return 0; return 1; }

static void apply(void *vs, int op)
{
    st_t *s = vs; op_t *o = &OPS[op]; slot_t *t = &s->s[o->slot]; char nm[80]; op_name(op, nm, sizeof nm);
    const char *shape = nm + (o->k < NK_SLOT ? 4 : 0); const char *site = "spifmem";
    void *p = t->p;
    mc_set_shape(shape);
    switch (o->k) {
    case K_MALLOC8:
#line 1001 "short.c"
        p = MALLOC(8);
#line 146 "/verif/harness/h_memtrack.c"
        note(t, p, 8, "short.c", 1001, 0x11); if (!p) FAIL(site, "model:null", shape, "MALLOC returned NULL"); break;
    case K_MALLOC64:
#line 2002 "a/rather/long/path/name/of/a/source/file.c"
        p = MALLOC(64);
#line 151 "/verif/harness/h_memtrack.c"
        note(t, p, 64, "a/rather/long/path/name/of/a/source/file.c", 2002, 0x22); if (!p) FAIL(site, "model:null", shape, "MALLOC returned NULL"); break;
    case K_CALLOC:
#line 70003 "short.c"
        p = CALLOC(int, 4);
#line 156 "/verif/harness/h_memtrack.c"
        if (p) { unsigned char *q = p; for (int i = 0; i < 16; i++) if (q[i]) { FAIL(site, "model:calloc-not-zeroed", shape, "CALLOC block byte %d is 0x%02x", i, q[i]); break; } }
        note(t, p, 16, "short.c", 70003, 0x33); if (!p) FAIL(site, "model:null", shape, "CALLOC returned NULL"); break;
    case K_STRDUP:
#line 4004 "exactly-twenty-chars"
        p = STRDUP("xy");
#line 162 "/verif/harness/h_memtrack.c"
        if (p && strcmp(p, "xy")) FAIL(site, "model:strdup-content", shape, "STRDUP copy differs");
        note(t, p, 3, "exactly-twenty-chars", 4004, 0x44); if (!p) FAIL(site, "model:null", shape, "STRDUP returned NULL"); break;
    case K_REALLOC_NULL:
#line 5005 "short.c"
        p = REALLOC(p, 8);
#line 168 "/verif/harness/h_memtrack.c"
        note(t, p, 8, "short.c", 5005, 0x55); if (!p) FAIL(site, "model:null", shape, "REALLOC(NULL, 8) did not allocate"); break;
    case K_REALLOC0:
#line 6006 "short.c"
        p = REALLOC(p, 0);
#line 173 "/verif/harness/h_memtrack.c"
        if (p) FAIL(site, "model:realloc-zero", shape, "REALLOC(p, 0) returned a block");
        s->dead = t->p; t->p = NULL; t->tracked = 0; break;
    case K_REALLOC8_MOVE: case K_REALLOC8_STAY: case K_REALLOC64_MOVE: case K_REALLOC64_STAY: {
        size_t nsz = (o->k <= K_REALLOC8_STAY) ? 8 : 64, keep = t->size < nsz ? t->size : nsz; void *old = p;
        g_realloc_mode = (o->k == K_REALLOC8_MOVE || o->k == K_REALLOC64_MOVE) ? 1 : 2;
#line 131079 "another/long/path/name/for/realloc.c"
        p = REALLOC(p, nsz);
#line 181 "/verif/harness/h_memtrack.c"
        g_realloc_mode = 0;
        if (!p) { FAIL(site, "model:null", shape, "REALLOC returned NULL"); break; }
        t->p = p;
        if (!intact(t, keep)) FAIL(site, "model:realloc-content", shape, "the first %zu bytes were not preserved", keep);
        if (old != p) s->dead = old;
        { int was = t->tracked; note(t, p, nsz, "another/long/path/name/for/realloc.c", 131079, (unsigned char) (0x70 + o->k)); t->tracked = was; }
        break; }
    case K_FREE:
#line 8008 "short.c"
        FREE(p);
#line 192 "/verif/harness/h_memtrack.c"
        if (p) FAIL(site, "model:free-did-not-null", shape, "FREE left the variable non-NULL");
        s->dead = t->p; t->p = NULL; t->tracked = 0; break;
    case K_FREE_UNKNOWN: { void *u = __real_malloc(24);
#line 9009 "short.c"
        FREE(u);
#line 198 "/verif/harness/h_memtrack.c"
        if (u) FAIL(site, "model:free-did-not-null", shape, "FREE left the variable non-NULL"); break; }
    case K_REALLOC_UNKNOWN: { void *u = __real_malloc(24); memset(u, 0x5e, 24);
#line 9010 "short.c"
        u = REALLOC(u, 8);
#line 203 "/verif/harness/h_memtrack.c"
        if (!u || ((unsigned char *) u)[7] != 0x5e) FAIL(site, "model:realloc-content", shape, "REALLOC of an untracked block lost it"); __real_free(u); break; }
    case K_FREE_DEAD: { void *d = s->dead; g_dead[0] = d; g_ndead = 1;
#line 9011 "short.c"
        FREE(d);
#line 208 "/verif/harness/h_memtrack.c"
        g_ndead = 0; break; }
    case K_REALLOC_DEAD: { void *d = s->dead; g_dead[0] = d; g_ndead = 1;
#line 9012 "short.c"
        d = REALLOC(d, 8);
#line 213 "/verif/harness/h_memtrack.c"
        g_ndead = 0; __real_free(d); break; }
    case K_FREE_NULL: { void *z = NULL;
#line 9013 "short.c"
        FREE(z);
#line 218 "/verif/harness/h_memtrack.c"
        break; }
    }
    /* a pointer equal to a live tracked block is not "dead" any more (the allocator reuses addresses) */
    for (int i = 0; i < P; i++) if (s->s[i].p && s->s[i].p == s->dead) s->dead = NULL;
    check_table(s, site, shape);
}
static void canon(void *vs, char *b, size_t n)
{
    st_t *s = vs; size_t k = 0;
    for (int i = 0; i < P; i++) k += (size_t) snprintf(b + k, n - k, "p%d:%s%zu@%u ", i, s->s[i].p ? (s->s[i].tracked ? "T" : "u") : "-", s->s[i].p ? s->s[i].size : 0, s->s[i].p ? s->s[i].line : 0);
    snprintf(b + k, n - k, "dead=%d", s->dead != NULL);
}
static void teardown(void *vs)
{
    st_t *s = vs;
    for (int i = 0; i < P; i++) if (s->s[i].p) { void *p = s->s[i].p; FREE(p); s->s[i].p = NULL; s->s[i].tracked = 0; }
#if TRACKED
    if (malloc_rec.cnt != 0) FAIL("spifmem", "model:table-not-empty", "after freeing every block", "%lu records remain although every tracked block was freed", (unsigned long) malloc_rec.cnt);
#endif
    __real_free(s);
}

#if TRACKED
/* ---- many live blocks: n around 127/255/256/1000/70000 tracked allocations (the table is re-allocated and searched as it grows), then
 * realloc of the first, the last and a middle block, free in three orders; the table is compared with the live set after every phase */
static const int MANY[] = { 126, 127, 128, 254, 255, 256, 257, 300, 1000, 66000 };
#if SANITIZED_BUILD
# define NMANY 9        /* under ASan every realloc of the growing table is a copy: the 66000-block case belongs to the plain build */
#else
# define NMANY ((int) (sizeof MANY / sizeof MANY[0]))
#endif
static void many_desc(uint64_t idx, void *ctx, char *b, size_t n) { (void) ctx; if (idx >= (uint64_t) NMANY * 3) { snprintf(b, n, "MALLOC, REALLOC, CALLOC of a block above 4 GiB (never touched)"); return; } snprintf(b, n, "%d tracked MALLOC(16) blocks, REALLOC of the first/last/middle one, FREE (of all; of 600 when n > 4000) in %s order", MANY[idx / 3], idx % 3 == 0 ? "ascending" : (idx % 3 == 1 ? "descending" : "odd-then-even")); }
static int many_check(void **pp, size_t *sz, int n, const char *shape, const char *when)
{
    size_t live = 0; for (int i = 0; i < n; i++) if (pp[i]) live++;
    if (malloc_rec.cnt != live) { FAIL("spifmem", "model:record-count", shape, "%s: table holds %lu records, %zu tracked blocks are live", when, (unsigned long) malloc_rec.cnt, live); return 0; }
    /* every record names a live block with its size; the search is by sorted copy to stay n log n */
    for (size_t k = 0; k < malloc_rec.cnt; k += (malloc_rec.cnt > 4000 ? 97 : 1)) {
        void *q = malloc_rec.ptrs[k].ptr; int lo = -1;
        for (int i = 0; i < n; i++) if (pp[i] == q) { lo = i; break; }
        if (lo < 0) { FAIL("spifmem", "model:record-for-dead-block", shape, "%s: record %zu names a block that is not live", when, k); return 0; }
        if (malloc_rec.ptrs[k].size != sz[lo]) { FAIL("spifmem", "model:record-size", shape, "%s: record size %lu, last requested %zu", when, (unsigned long) malloc_rec.ptrs[k].size, sz[lo]); return 0; }
    }
    return 1;
}
#if !SANITIZED_BUILD
/* a block of more than 4 GiB (never touched, so never resident): the record holds the size that was asked for */
static void hugeblock_case(void)
{
    mc_set_shape("block above 4 GiB");
    libast_debug_level = 5; malloc_rec.cnt = 0;
    size_t sz = ((size_t) 1 << 32) + 32;
    void *p = MALLOC(sz);
    if (p) {
        if (malloc_rec.cnt != 1 || malloc_rec.ptrs[0].ptr != p || malloc_rec.ptrs[0].size != sz) FAIL("spifmem", "model:record-size", "block above 4 GiB", "MALLOC(2^32+32): %lu records, recorded size %lu", (unsigned long) malloc_rec.cnt, malloc_rec.cnt ? (unsigned long) malloc_rec.ptrs[0].size : 0UL);
        p = REALLOC(p, sz + 4096);
        if (p && (malloc_rec.cnt != 1 || malloc_rec.ptrs[0].ptr != p || malloc_rec.ptrs[0].size != sz + 4096)) FAIL("spifmem", "model:record-size", "block above 4 GiB", "REALLOC to 2^32+4128: recorded size %lu", malloc_rec.cnt ? (unsigned long) malloc_rec.ptrs[0].size : 0UL);
        FREE(p);
        if (malloc_rec.cnt != 0) FAIL("spifmem", "model:record-count", "block above 4 GiB", "the table holds %lu records after the block was freed", (unsigned long) malloc_rec.cnt);
    }
    { void *q = CALLOC(char, sz); if (q) { if (malloc_rec.cnt != 1 || malloc_rec.ptrs[0].size != sz) FAIL("spifmem", "model:record-size", "block above 4 GiB", "CALLOC of 2^32+32 bytes: recorded size %lu", malloc_rec.cnt ? (unsigned long) malloc_rec.ptrs[0].size : 0UL); FREE(q); } }
    malloc_rec.cnt = 0; libast_debug_level = 0;
    /* an element count whose product with the element size does not fit into size_t: no block (runtime level 0: a failed allocation is reported, not fatal) */
    { void *q = CALLOC(long, ((size_t) 1 << 61) + 1);
      if (q) { FAIL("spifmem", "model:calloc-overflow", "block above 4 GiB", "CALLOC of 2^61+1 longs returned a block"); free(q); }
      if (malloc_rec.cnt != 0) FAIL("spifmem", "model:record-count", "block above 4 GiB", "a refused CALLOC left %lu records", (unsigned long) malloc_rec.cnt); }
    malloc_rec.cnt = 0;
    mc_nontrivial();
}
#endif
static void many_case(uint64_t idx, void *ctx)
{
#if !SANITIZED_BUILD
    if (idx == (uint64_t) NMANY * 3) { (void) ctx; sibling_tables_prelude(); hugeblock_case(); return; }
#endif
    int n = MANY[idx / 3], order = (int) (idx % 3); (void) ctx;
    char shape[48]; snprintf(shape, sizeof shape, "%s live blocks", n < 256 ? "fewer than 256" : (n < 65536 ? "256..65535" : "65536 or more")); mc_set_shape(shape);
    libast_debug_level = 0; sibling_tables_prelude();
    libast_debug_level = 5; malloc_rec.cnt = 0; g_ndead = 0; g_realloc_mode = 0;
    void **pp = __real_calloc((size_t) n, sizeof *pp); size_t *sz = __real_calloc((size_t) n, sizeof *sz);
    for (int i = 0; i < n; i++) { pp[i] = MALLOC(16); sz[i] = 16; if (!pp[i]) { FAIL("spifmem", "model:null", shape, "MALLOC returned NULL"); goto out; } }
    if (!many_check(pp, sz, n, shape, "after the allocations")) goto out;
    { int w[3] = { 0, n - 1, n / 2 }; for (int r = 0; r < 3; r++) { pp[w[r]] = REALLOC(pp[w[r]], 48); sz[w[r]] = 48; } }
    if (!many_check(pp, sz, n, shape, "after three REALLOCs")) goto out;
    int nfree = n > 4000 ? 600 : n;             /* the table is searched linearly: of a very large one only 600 blocks are freed through the tracker */
    for (int k = 0; k < nfree; k++) {
        int i = order == 0 ? k : (order == 1 ? n - 1 - k : (k < (n + 1) / 2 ? 2 * k : 2 * (k - (n + 1) / 2) + 1));
        if (i >= n) continue;
        FREE(pp[i]); pp[i] = NULL;
        if (k == nfree / 2 && !many_check(pp, sz, n, shape, "half-way through the FREEs")) goto out;
    }
    many_check(pp, sz, n, shape, "after the FREEs");
out:
    for (int i = 0; i < n; i++) if (pp[i]) { libast_debug_level = 0; __real_free(pp[i]); }
    malloc_rec.cnt = 0; libast_debug_level = 0;
    __real_free(pp); __real_free(sz);
    mc_nontrivial();
    mc_outcome(idx);
}
#endif
#if TRACKED
/* ---- the library's own helpers that release tracked blocks: what they free leaves the table */
static void fa_desc(uint64_t idx, void *ctx, char *b, size_t n) { (void) ctx; snprintf(b, n, "array of %d tracked strings behind a tracked pointer block, spiftool_free_array(list, %s)", (int) (idx / 2), idx % 2 ? "the count" : "0: up to the NULL element"); }
static void fa_case(uint64_t idx, void *ctx)
{
    int n = (int) (idx / 2), exact = (int) (idx % 2); (void) ctx;
    mc_set_shape("free_array"); libast_debug_level = 0; sibling_tables_prelude();
    libast_debug_level = 5; malloc_rec.cnt = 0; g_ndead = 0; g_realloc_mode = 0;
    char **l = (char **) MALLOC(sizeof(char *) * (size_t) (n + 1));
    for (int i = 0; i < n; i++) l[i] = (char *) STRDUP("element");
    l[n] = NULL;
    if (malloc_rec.cnt != (unsigned long) (n + 1)) FAIL("spifmem", "model:record-count", "free_array", "%lu records after allocating a list of %d strings", (unsigned long) malloc_rec.cnt, n);
    spiftool_free_array(l, exact ? (size_t) n : 0);
    if (malloc_rec.cnt != 0) FAIL("spiftool_free_array", "model:record-count", "free_array", "%lu records are left after the array and its %d elements were freed", (unsigned long) malloc_rec.cnt, n);
    malloc_rec.cnt = 0; libast_debug_level = 0;
    mc_nontrivial();
    mc_outcome(idx);
}
/* ---- the X resource wrappers (Xlib itself is replaced by stubs): a GC lives in the GC table, a pixmap in the pixmap table, neither in the pointer table */
static void xr_desc(uint64_t idx, void *ctx, char *b, size_t n) { (void) ctx; snprintf(b, n, idx ? "X_CREATE_PIXMAP / X_FREE_PIXMAP around a tracked MALLOC: which table holds what" : "X_CREATE_GC / X_FREE_GC around a tracked MALLOC: which table holds what"); }
static void xr_case(uint64_t idx, void *ctx)
{
    (void) ctx; mc_set_shape("X resource"); libast_debug_level = 0; sibling_tables_prelude();
    libast_debug_level = 5; malloc_rec.cnt = 0; g_ndead = 0; g_realloc_mode = 0;
    unsigned long gc0 = gc_rec.cnt, px0 = pixmap_rec.cnt;
    void *p = MALLOC(24);
    GC gc = None; Pixmap pm = None;
    if (idx) pm = X_CREATE_PIXMAP((Display *) NULL, (Drawable) 7, 4, 4, 8); else gc = X_CREATE_GC((Display *) NULL, (Drawable) 7, 0, (XGCValues *) NULL);
    if (malloc_rec.cnt != 1 || gc_rec.cnt != gc0 + (idx ? 0 : 1) || pixmap_rec.cnt != px0 + (idx ? 1 : 0))
        FAIL("spifmem", "model:record-count", "X resource", "with one tracked block and one %s alive: %lu pointer records, %lu GC records (+%lu), %lu pixmap records (+%lu)", idx ? "pixmap" : "GC", (unsigned long) malloc_rec.cnt, (unsigned long) gc_rec.cnt, (unsigned long) (gc_rec.cnt - gc0), (unsigned long) pixmap_rec.cnt, (unsigned long) (pixmap_rec.cnt - px0));
    if (idx) X_FREE_PIXMAP((Display *) NULL, pm); else X_FREE_GC((Display *) NULL, gc);
    FREE(p);
    if (malloc_rec.cnt != 0 || gc_rec.cnt != gc0 || pixmap_rec.cnt != px0) FAIL("spifmem", "model:record-count", "X resource", "after freeing both: %lu pointer records, GC records %+ld, pixmap records %+ld", (unsigned long) malloc_rec.cnt, (long) gc_rec.cnt - (long) gc0, (long) pixmap_rec.cnt - (long) px0);
    malloc_rec.cnt = 0; libast_debug_level = 0;
    mc_nontrivial();
    mc_outcome(idx);
}
/* ---- STRDUP of a string that lives in a larger tracked block: the copy's record says strlen+1 */
static void sd_desc(uint64_t idx, void *ctx, char *b, size_t n) { (void) ctx; (void) idx; snprintf(b, n, "p = MALLOC(64) holding \"hello\"; q = STRDUP(p): the record of q"); }
static void sd_case(uint64_t idx, void *ctx)
{
    (void) ctx; (void) idx; mc_set_shape("STRDUP of a tracked block"); libast_debug_level = 0; sibling_tables_prelude();
    libast_debug_level = 5; malloc_rec.cnt = 0; g_ndead = 0; g_realloc_mode = 0;
    char *p = (char *) MALLOC(64); strcpy(p, "hello");
    char *q = (char *) STRDUP(p);
    int found = 0;
    for (unsigned long i = 0; i < malloc_rec.cnt; i++) if (malloc_rec.ptrs[i].ptr == (void *) q) { found = 1; if (malloc_rec.ptrs[i].size != 6) FAIL("spifmem_strdup", "model:record-size", "STRDUP of a tracked block", "the copy of \"hello\" is recorded with %lu bytes", (unsigned long) malloc_rec.ptrs[i].size); }
    if (!found || malloc_rec.cnt != 2) FAIL("spifmem_strdup", "model:record-count", "STRDUP of a tracked block", "%lu records, the copy %s", (unsigned long) malloc_rec.cnt, found ? "is among them" : "is not among them");
    if (strcmp(q, "hello")) FAIL("spifmem_strdup", "model:content", "STRDUP of a tracked block", "the copy reads \"%.10s\"", q);
    FREE(q); FREE(p);
    if (malloc_rec.cnt != 0) FAIL("spifmem", "model:record-count", "STRDUP of a tracked block", "%lu records after both were freed", (unsigned long) malloc_rec.cnt);
    malloc_rec.cnt = 0; libast_debug_level = 0;
    mc_nontrivial();
}
/* ---- objects of other modules in the tracked build: once they are deleted the table is empty again, whatever they went through in between */
static void so_desc(uint64_t idx, void *ctx, char *b, size_t n) { static const char *w[3] = { "open (refused: nobody listens), delete", "open, close, open again, delete", "open, open again, close, delete" }; (void) ctx;
    if (idx == 3) { snprintf(b, n, "str and ustr \"abcdef\": splice_from_ptr(1,2,\"XY\") (same length), splice_from_ptr(0,0,\"\"), splice_from_ptr(2,1,\"LONGER\"), splice(1,3,NULL), delete; records left in the table"); return; }
    if (idx == 4) { snprintf(b, n, "config subsystem: init, expand %%put(k v), [%%get(k fallback)], [%%get(unset fallback)], [%%get(k)], free; records left in the table"); return; }
    snprintf(b, n, "client socket for a UNIX path nobody listens on: %s; records left in the table", w[idx]); }
static void so_case(uint64_t idx, void *ctx)
{
    (void) ctx; mc_set_shape(idx == 3 ? "strings" : (idx == 4 ? "config subsystem" : "socket")); libast_debug_level = 0; sibling_tables_prelude();
    libast_debug_level = 5; malloc_rec.cnt = 0; g_ndead = 0; g_realloc_mode = 0;
    if (idx == 3) {
        spif_str_t a = spif_str_new_from_ptr((spif_charptr_t) "abcdef"); spif_ustr_t u8 = spif_ustr_new_from_ptr((spif_charptr_t) "abcdef");
        spif_str_splice_from_ptr(a, 1, 2, (spif_charptr_t) "XY"); spif_str_splice_from_ptr(a, 0, 0, (spif_charptr_t) ""); spif_str_splice_from_ptr(a, 2, 1, (spif_charptr_t) "LONGER"); spif_str_splice(a, 1, 3, (spif_str_t) NULL);
        spif_ustr_splice_from_ptr(u8, 1, 2, (spif_charptr_t) "XY"); spif_ustr_splice_from_ptr(u8, 0, 0, (spif_charptr_t) ""); spif_ustr_splice_from_ptr(u8, 2, 1, (spif_charptr_t) "LONGER"); spif_ustr_splice(u8, 1, 3, (spif_ustr_t) NULL);
        if (strcmp((char *) a->s, (char *) u8->s)) FAIL("spif_ustr_splice_from_ptr", "model:value", "strings", "str and ustr disagree after the same splices: \"%s\" / \"%s\"", (char *) a->s, (char *) u8->s);
        spif_str_del(a); spif_ustr_del(u8);
        if (malloc_rec.cnt != 0) FAIL("spifmem", "model:record-count", "strings", "%lu records are left after the string objects were deleted", (unsigned long) malloc_rec.cnt);
        malloc_rec.cnt = 0; libast_debug_level = 0; mc_nontrivial(); mc_outcome(idx); return;
    }
    if (idx == 4) {
        static const char *LN[4] = { "%put(k v)", "[%get(k fallback)]", "[%get(unset fallback)]", "[%get(k)]" }, *WANT[4] = { "", "[v]", "[fallback]", "[v]" };
        spifconf_init_subsystem();
        for (int i = 0; i < 4; i++) { char *b2 = MALLOC(CONFIG_BUFF); snprintf(b2, CONFIG_BUFF, "%s", LN[i]); spifconf_shell_expand((spif_charptr_t) b2);
            if (strcmp(b2, WANT[i])) FAIL("spifconf_shell_expand", "model:value", "config subsystem", "\"%s\" expands to \"%.40s\", expected \"%s\"", LN[i], b2, WANT[i]);
            FREE(b2); }
        spifconf_free_subsystem();
        if (malloc_rec.cnt != 0) FAIL("spifmem", "model:record-count", "config subsystem", "%lu records are left after the config subsystem was freed", (unsigned long) malloc_rec.cnt);
        malloc_rec.cnt = 0; libast_debug_level = 0; mc_nontrivial(); mc_outcome(idx); return;
    }
    char u[300]; const char *td = getenv("VERIF_SCRATCH"); snprintf(u, sizeof u, "unix:%s/nobody-%d", td ? td : "/tmp", (int) getpid());
    spif_url_t url = spif_url_new_from_ptr((spif_charptr_t) u);
    spif_socket_t s = spif_socket_new_from_urls((spif_url_t) NULL, url);
    spif_url_del(url);
    if (s) {
        spif_socket_open(s);
        if (idx == 1) { spif_socket_close(s); spif_socket_open(s); }
        if (idx == 2) { spif_socket_open(s); spif_socket_close(s); }
        spif_socket_del(s);
    }
    if (malloc_rec.cnt != 0) FAIL("spifmem", "model:record-count", "socket", "%lu records are left after the socket object was deleted", (unsigned long) malloc_rec.cnt);
    malloc_rec.cnt = 0; libast_debug_level = 0;
    mc_nontrivial();
    mc_outcome(idx);
}
#endif
int main(int argc, char **argv)
{
    mc_init("C15", argc, argv);
    P = (int) mc_arg_int("pool", mc_thorough() ? 3 : 2);
    build_ops();
    mc_info("alphabet", "DEBUG=%d build; pool of %d pointers; %d opcodes: MALLOC(8|64), CALLOC, STRDUP, REALLOC(NULL), REALLOC(p,0|8|64) x {allocator moves, stays}, FREE, FREE/REALLOC of an untracked block, "
            "of an already-freed pointer, FREE(NULL); runtime levels 5, 4 and 0xffffffff; file names shorter than, exactly and longer than 20 characters", DEBUG, P, NOPS);
    unsigned levels[3] = { 5, 4, 0xffffffffu };
    for (int li = 0; li < 3 && !mc_arg("only", NULL); li++) {
        LEVEL = levels[li];
        static char name[3][48]; snprintf(name[li], sizeof name[li], "memtrack_build%d_level%u", TRACKED ? 5 : 4, LEVEL);
        mc_sys sys = { name[li], NOPS, op_name, fresh, enabled, apply, NULL, canon, teardown, (int) mc_arg_int("lookahead", 1) };
        mc_e1_run(&sys, (int) mc_arg_int("depth", 40));
    }
    libast_debug_level = 0;
#if TRACKED
    if (!mc_arg("only", NULL)) mc_e2_level("free_array", 3, 8, fa_case, fa_desc, NULL);
    if (!mc_arg("only", NULL)) mc_e2_level("other_modules", 1, 5, so_case, so_desc, NULL);
    if (!mc_arg("only", NULL)) { mc_e2_level("x_resources", 1, 2, xr_case, xr_desc, NULL); mc_e2_level("strdup_of_tracked_block", 1, 1, sd_case, sd_desc, NULL); }
#if SANITIZED_BUILD
    mc_e2_level("many_blocks", 66000, (uint64_t) NMANY * 3, many_case, many_desc, NULL);
#else
    mc_e2_level("many_blocks", 66000, (uint64_t) NMANY * 3 + 1, many_case, many_desc, NULL);
#endif
#endif
    return mc_finish();
}
