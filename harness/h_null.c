/* h_null.c — C16 driver: every (entry point x guarded pointer parameter) row x runtime debug level.
 * Each cell runs in a forked child so that the library's fatal-error path (exit) can be observed. */
#include NULL_GEN_FILE              /* the generated matrix; it pulls in h_null_pre.h (one translation unit: the container sources are compiled into it) */
#include <sys/wait.h>
#include <unistd.h>
#include <signal.h>
#ifdef MC_REPO_SRC
# define MC_REPO_SRC_STR MC_REPO_SRC
#else
# define MC_REPO_SRC_STR "/repo/src/"
#endif

static const int LEVELS[4] = { 0, 1, 3, 1 }, SILENT[4] = { 0, 0, 0, 1 };     /* the fourth cell: level 1 with libast_set_silent(TRUE) */
#define NCELL 4
static void n_desc(uint64_t idx, void *ctx, char *b, size_t n)
{
    const null_case_t *c = &NULL_CASES[idx / NCELL]; (void) ctx;
    snprintf(b, n, "%s(...) with parameter %d (%s) = NULL, others valid, runtime debug level %d%s; guard %s, stated failure value %s%s", c->func, c->pos + 1, c->param, LEVELS[idx % NCELL], SILENT[idx % NCELL] ? " with output silenced" : "", c->kind, *c->val ? c->val : "(none: void)", c->pinned ? "" : " [not in the pinned table]");
}
/* the fatal-error path may be entered again while the process is on its way out (an exit handler that uses the library): the second
 * NULL call must end like the first, not carry on with the NULL object */
static const null_case_t *g_again;
static void again_at_exit(void) { res_t r; memset(&r, 0, sizeof r); if (g_again) { const null_case_t *c = g_again; g_again = NULL; c->fn(&r); } }
/* "no effect" for the configuration module, whose state is hidden in file-scope tables: the refused call is made on an initialised subsystem with one
 * registered context, and ordinary use afterwards must go on exactly as if the call had not been made (next IDs, context lookup, handler calls) */
static int g_cb, g_cl, g_ce; static unsigned char g_id1;
static void *count_ctx(spif_charptr_t b, void *s) { if (*b == SPIFCONF_BEGIN_CHAR) g_cb++; else if (*b == SPIFCONF_END_CHAR) g_ce++; else g_cl++; return s; }
static unsigned char g_b1, g_f0;
static char *g_found, g_found_copy[600];      /* what an earlier, successful file lookup handed out: it stays what it was */
static void conf_before(void)
{
    spifconf_init_subsystem(); g_id1 = spifconf_register_context((spif_charptr_t) "first", count_ctx);
    g_b1 = spifconf_register_builtin("zzb0", stub_builtin); g_f0 = fstate_idx;        /* the IDs handed out next are these plus one, however many the subsystem registers for itself */
    const char *td = getenv("VERIF_SCRATCH"); char dir[400], path[500], name[40];
    snprintf(dir, sizeof dir, "%s", td ? td : "/tmp"); snprintf(name, sizeof name, "c16f-%d", (int) getpid()); snprintf(path, sizeof path, "%s/%s", dir, name);
    FILE *f = fopen(path, "w"); if (f) { fputs("x\n", f); fclose(f); }
    g_found = (char *) spifconf_find_file((spif_charptr_t) name, (spif_charptr_t) dir, (spif_charptr_t) NULL);
    if (g_found) snprintf(g_found_copy, sizeof g_found_copy, "%s", g_found);
    unlink(path);
}
static int conf_after(void)
{
    static char line[] = "second some attribute";
    if (g_found && strcmp(g_found, g_found_copy)) return 7;
    if (spifconf_register_context((spif_charptr_t) "second", count_ctx) != (unsigned char) (g_id1 + 1)) return 2;
    if (spifconf_register_builtin("zzb", stub_builtin) != (unsigned char) (g_b1 + 1)) return 3;
    if (spifconf_register_fstate(NULL, (spif_charptr_t) "<p>", NULL, 1, 0) != (unsigned char) (g_f0 + 1)) return 4;
    fstate_idx--;
    spifconf_parse_line(NULL, (spif_charptr_t) line);
    if (g_cb != 1 || g_cl != 1 || g_ce != 1) return 5;
    if (spifconf_register_context_state(0) != 1) return 6;
    return 0;
}
static void n_case(uint64_t idx, void *ctx)
{
    const null_case_t *c = &NULL_CASES[idx / NCELL]; int level = LEVELS[idx % NCELL], silent = SILENT[idx % NCELL]; (void) ctx;
    char shape[96]; snprintf(shape, sizeof shape, "%s, level %s%s", c->kind, level ? ">=1" : "0", silent ? ", silent" : "");
    mc_set_shape(shape);
    int rp[2], ep[2]; if (pipe(rp) || pipe(ep)) return;
    fflush(NULL);
    pid_t pid = fork();
    if (pid == 0) {
        res_t r; memset(&r, 0, sizeof r);
        close(rp[0]); close(ep[0]); dup2(ep[1], 2);
        mc_child_reset();
        libast_debug_level = (unsigned) level; libast_set_silent(silent ? TRUE : FALSE);
        if (level >= 1) { g_again = c; mc_exit_hook = again_at_exit; }
        int conf = !strncmp(c->func, "spifconf_", 9), opt = !strncmp(c->func, "spifopt_", 8);
        static spifopt_settings_t opt0;
        if (conf) conf_before();
        if (opt) { SPIFOPT_FLAGS_SET(SPIFOPT_SETTING_PREPARSE); SPIFOPT_ALLOWBAD_SET(3); memcpy(&opt0, &spifopt_settings, sizeof opt0); }      /* the parser's settings as a two-pass client leaves them before its first pass */
        c->fn(&r);
        if (conf) r.aftermath = conf_after();
        if (!strncmp(c->func, "libast_", 7) && !silent && r.returned) { int n1 = libast_dprintf("after the refused call %d\n", 1), n2 = libast_dprintf("and again %d\n", 2); if (n1 <= 0 || n2 <= 0) r.aftermath = 9; }      /* the output functions still work */
        if (opt && memcmp(&opt0, &spifopt_settings, sizeof opt0)) r.aftermath = 8;
        if (write(rp[1], &r, sizeof r) != sizeof r) _exit(9);
        _exit(0);
    }
    close(rp[1]); close(ep[1]);
    res_t r; memset(&r, 0, sizeof r);
    char err[4096], sink[8192]; size_t en = 0; ssize_t k; long total = 0;
    while ((k = read(ep[0], en < sizeof err - 1 ? err + en : sink, en < sizeof err - 1 ? sizeof err - 1 - en : sizeof sink)) > 0) { total += k; if (en < sizeof err - 1) en += (size_t) k; if (total > (32L << 20)) { kill(pid, SIGKILL); break; } }
    ssize_t got = read(rp[0], &r, sizeof r);
    err[en] = 0;
    close(rp[0]); close(ep[0]);
    int st = 0; waitpid(pid, &st, 0);
    char site[96]; snprintf(site, sizeof site, "%s#%s", c->func, c->param);
    if (strstr(err, "runtime error:")) { char *p = strstr(err, "runtime error:"); char line[300]; snprintf(line, sizeof line, "%.*s", (int) strcspn(p, "\n"), p); FAIL(site, "ubsan", shape, "%s", line); }
    if (strstr(err, "WARNING: MemorySanitizer")) { char *p = strstr(err, "WARNING: MemorySanitizer"); char line[300]; snprintf(line, sizeof line, "%.*s", (int) strcspn(p, "\n"), p); char *fr = strstr(p, MC_REPO_SRC_STR); FAIL(site, "msan:use-of-uninitialized-value", shape, "%s (%.60s)", line, fr ? fr + strlen(MC_REPO_SRC_STR) : "outside the library sources"); }
    if (WIFSIGNALED(st)) FAIL(site, "crash:signal", shape, "the call ended with signal %d instead of failing soft", WTERMSIG(st));
    else if (WIFEXITED(st) && WEXITSTATUS(st) == 255) {
        if (level == 0) FAIL(site, "model:fatal-at-level-0", shape, "the process was ended at runtime debug level 0");
        else if (!silent && !strstr(err, "ASSERT failed") && !strstr(err, "Fatal")) FAIL(site, "model:exit-without-diagnostic", shape, "exit status 255 without the fatal-error diagnostic");
        else if (!strcmp(c->kind, "REQUIRE_RVAL") || !strcmp(c->kind, "REQUIRE") || !strcmp(c->kind, "COMP")) FAIL(site, "model:fatal-on-soft-guard", shape, "a %s guard ended the process", c->kind);
    } else if (WIFEXITED(st) && WEXITSTATUS(st) == 0 && got == (ssize_t) sizeof r && r.returned) {
        if (!r.ret_ok) FAIL(site, "model:failure-value", shape, "returned something other than the stated failure value %s", c->val);
        if (r.arg_changed) FAIL(site, "model:argument-changed", shape, "argument %d was modified by the failing call", r.arg_changed);
        if (r.aftermath) FAIL(site, "model:effect", shape, "ordinary use of the module after the refused call differs from use without it (step %d: 2 next context ID, 3 next builtin ID, 4 next file-state index, 5 context lookup and handler calls, 6 next context-state index, 7 the result of an earlier file lookup, 8 the option parser's settings, 9 libast_dprintf() prints nothing any more)", r.aftermath);
        if (r.alloc_delta) FAIL(site, "model:allocated", shape, "the failing call changed the heap by %ld bytes", r.alloc_delta);
    } else FAIL(site, "crash:exit", shape, "the call ended the process with status 0x%x", st);
    mc_nontrivial();
    mc_outcome((uint64_t) (WIFEXITED(st) ? WEXITSTATUS(st) : 1000 + WTERMSIG(st)) * 7 + (uint64_t) r.ret_ok);
}
/* ------------------------------------------------------------------ show(NULL object, name, buffer, indent): the line "<indent blanks>(spif_X_t) name:  NULL" is built in a fixed scratch array - long names and deep indents together */
typedef spif_str_t (*show_fn)(void *, spif_charptr_t, spif_str_t, size_t);
static const struct { const char *name; show_fn fn; } SHOWS[] = {
    { "spif_obj_show", (show_fn) spif_obj_show }, { "spif_str_show", (show_fn) spif_str_show }, { "spif_ustr_show", (show_fn) spif_ustr_show }, { "spif_mbuff_show", (show_fn) spif_mbuff_show },
    { "spif_objpair_show", (show_fn) spif_objpair_show }, { "spif_tok_show", (show_fn) spif_tok_show }, { "spif_url_show", (show_fn) spif_url_show }, { "spif_regexp_show", (show_fn) spif_regexp_show }, { "spif_socket_show", (show_fn) spif_socket_show },
};
#define NSHOWS ((int) (sizeof SHOWS / sizeof SHOWS[0]))
static const int SHP[][2] = { { 0, 4 }, { 0, 5000 }, { 64, 4 }, { 4000, 4 }, { 4000, 200 }, { 2000, 3000 }, { 3900, 190 }, { 4090, 50 }, { 100, 4090 }, { 8, 4080 } };          /* (indent, length of the name) */
#define NSHP ((int) (sizeof SHP / sizeof SHP[0]))
static void sn_desc(uint64_t idx, void *ctx, char *b, size_t n) { (void) ctx; snprintf(b, n, "%s(NULL, name of %d characters, %s, indent %d)", SHOWS[idx / NSHP / 2].name, SHP[idx / 2 % NSHP][1], idx % 2 ? "a buffer that holds \"x\"" : "NULL buffer", SHP[idx / 2 % NSHP][0]); }
static void sn_case(uint64_t idx, void *ctx)
{
    int f = (int) (idx / NSHP / 2), ind = SHP[idx / 2 % NSHP][0], nl = SHP[idx / 2 % NSHP][1], withbuf = (int) (idx % 2); (void) ctx;
    const char *shape = ind + nl + 40 > 4096 ? "indent and name together exceed the scratch line" : "indent and name fit in the scratch line"; mc_set_shape(shape);
    char *name = malloc((size_t) nl + 1); memset(name, 'n', (size_t) nl); name[nl] = 0;
    spif_str_t b0 = withbuf ? spif_str_new_from_ptr((spif_charptr_t) "x") : (spif_str_t) NULL;
    spif_str_t r = SHOWS[f].fn(NULL, (spif_charptr_t) name, b0, (size_t) ind);
    if (!r) FAIL(SHOWS[f].name, "model:return", shape, "show of a NULL object returned no buffer");
    else {
        if (withbuf && r != b0) FAIL(SHOWS[f].name, "model:return", shape, "show did not return the caller's buffer");
        const char *t = r->s ? (char *) r->s : ""; size_t tl = strlen(t);
        if ((size_t) r->len != tl) FAIL(SHOWS[f].name, "invariant:len-differs-from-strlen", shape, "the buffer has len=%ld, its text %zu characters", (long) r->len, tl);
        if (tl > 4096 + 1) FAIL(SHOWS[f].name, "model:too-long", shape, "the line for a NULL object has %zu characters", tl);
        if (ind + nl + 40 <= 4096 && (!strstr(t, "NULL") || strncmp(t + withbuf + ind, "(spif_", 6))) FAIL(SHOWS[f].name, "model:value", shape, "the line does not read <indent>(spif_X_t) name:  NULL");
        spif_str_del(r);
    }
    free(name);
    mc_nontrivial();
    mc_outcome(idx % (NSHP * 2));
}
int main(int argc, char **argv)
{
    mc_init("C16", argc, argv);
    int unpinned = 0; for (int i = 0; i < N_NULL_CASES; i++) if (!NULL_CASES[i].pinned) unpinned++;
    mc_info("alphabet", "%d (entry point, guarded pointer parameter) rows parsed from the guards of obj, str, ustr, mbuff, objpair, tok, url, regexp, socket, array, linked_list, dlinked_list (incl. their class-table methods), strings, conf, msgs, mem, file, options "
            "x runtime debug levels {0,1,3} and level 1 with output silenced; rows of functions with position parameters are repeated with the position at 40 and -1; %d rows are not in the pinned table; unsupported: %s", N_NULL_CASES, unpinned, NULL_UNSUPPORTED);
    mc_stat_add("unpinned_rows", unpinned);
    mc_e2_level("nullmatrix", 3, (uint64_t) N_NULL_CASES * NCELL, n_case, n_desc, NULL);
    mc_e2_level("show_null_sizes", 4096, (uint64_t) NSHOWS * NSHP * 2, sn_case, sn_desc, NULL);
    return mc_finish();
}
