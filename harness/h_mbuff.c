/* h_mbuff.c — C07: mbuff objects are faithful byte-sequence values under any history.
 * Same construction as h_str.c (E1 BFS + E2/E3 stream constructors), byte alphabet with NUL and 0xFF. */
#include "hcommon.h"
#include <ctype.h>
#include <unistd.h>
#include <fcntl.h>
#include <sys/socket.h>
#include <errno.h>

#define CLS "mbuff"
#define F(n) spif_mbuff_##n
typedef spif_mbuff_t T;
typedef spif_memidx_t IDX;
typedef struct { const unsigned char *p; int n; } bs_t;      /* byte string literal (NULL allowed) */
#define BS(lit) { (const unsigned char *) (lit), (int) sizeof(lit) - 1 }

#define LMAX 96
static int L = 3;
static unsigned char SIG[8]; static int NS;

typedef struct { T o; unsigned char m[LMAX + 1]; int n; long base; } st_t;

enum { K_NEW, K_NEW_PTR, K_NEW_BUFF,
       K_APP_OBJ, K_PRE_OBJ, K_APP_PTR, K_PRE_PTR,
       K_SPLICE, K_SPLICE_PTR, K_TRIM, K_REV, K_CLEAR, K_SPRINTF, K_DONE, K_DONE_INIT, K_DONE_INIT_PTR, K_APP_SELF, K_PRE_SELF, K_SPLICE_SELF, K_SPLICE_OWN, K_SPLICE_OWN1 };      /* K_SPLICE_OWN1: one byte of the object's own storage replaces a longer stretch (the result fits the block it already has) */
typedef struct { int k, a, b, c; bs_t t; } op_t;
static op_t OPS[6000]; static int NOPS;
static const bs_t NUL_ = { NULL, 0 };
static bs_t OTHERS[4] = { { NULL, -1 } /* new() */, BS(""), BS("a"), BS("\0 ") };
static bs_t PTRS[4] = { { NULL, 0 }, BS(""), BS("a"), BS(" \xff") };
static bs_t INS[3] = { { NULL, 0 }, BS(""), BS("a\0") };
static unsigned char CTB[64][2]; static int CTN[64]; static int NCT;

static void add(int k, int a, int b, int c, bs_t t) { OPS[NOPS].k = k; OPS[NOPS].a = a; OPS[NOPS].b = b; OPS[NOPS].c = c; OPS[NOPS].t = t; NOPS++; }
static void build_ops(void)
{
    NCT = 0; CTN[NCT++] = 0;
    for (int i = 0; i < NS; i++) { CTB[NCT][0] = SIG[i]; CTN[NCT++] = 1; }
    for (int i = 0; i < NS; i++) for (int j = 0; j < NS; j++) { CTB[NCT][0] = SIG[i]; CTB[NCT][1] = SIG[j]; CTN[NCT++] = 2; }
    add(K_NEW, 0, 0, 0, NUL_);
    add(K_NEW_PTR, 2, 0, 0, NUL_);                               /* new_from_ptr(NULL, 2) */
    for (int i = 0; i < NCT; i++) { bs_t t = { CTB[i], CTN[i] }; add(K_NEW_PTR, CTN[i], 0, 0, t); }
    { bs_t bt[3] = { BS(""), BS("a"), BS("a\0") };
      for (int i = 0; i < 3; i++) { int sz[3] = { bt[i].n - 1, bt[i].n, bt[i].n + 3 };
        for (int j = 0; j < 3; j++) if (sz[j] >= 0) add(K_NEW_BUFF, bt[i].n, sz[j], 0, bt[i]); }
      add(K_NEW_BUFF, 2, 4, 0, NUL_); }                          /* new_from_buff(NULL, 2, 4) */
    for (int i = 0; i < 4; i++) add(K_APP_OBJ, i, 0, 0, OTHERS[i]);
    for (int i = 0; i < 4; i++) add(K_PRE_OBJ, i, 0, 0, OTHERS[i]);
    for (int i = 0; i < 4; i++) add(K_APP_PTR, i, 0, 0, PTRS[i]);
    for (int i = 0; i < 4; i++) add(K_PRE_PTR, i, 0, 0, PTRS[i]);
    for (int k = K_SPLICE; k <= K_SPLICE_PTR; k++)
        for (int i = -(L + 2); i <= L + 2; i++) for (int c = -(L + 2); c <= L + 2; c++) for (int t = 0; t < 3; t++) add(k, i, c, t, INS[t]);
    add(K_TRIM, 0, 0, 0, NUL_); add(K_REV, 0, 0, 0, NUL_); add(K_CLEAR, 'x', 0, 0, NUL_);
    for (int i = 0; i < 5; i++) add(K_SPRINTF, i, 0, 0, NUL_);
    add(K_DONE, 0, 0, 0, NUL_); add(K_DONE_INIT, 0, 0, 0, NUL_);
    { bs_t b = BS("\xff"); add(K_DONE_INIT_PTR, 0, 0, 0, b); }
    add(K_APP_SELF, 0, 0, 0, NUL_); add(K_PRE_SELF, 0, 0, 0, NUL_); add(K_SPLICE_SELF, 0, 0, 0, NUL_); add(K_SPLICE_SELF, 1, 1, 0, NUL_);
    { static const int own[][3] = { { 0, 0, 0 }, { 0, 1, 1 }, { 1, 1, 0 }, { 0, 2, 1 }, { 1, 0, 1 }, { 0, 2, 2 } };
      for (int i = 0; i < 6; i++) add(K_SPLICE_OWN, own[i][0], own[i][1], own[i][2], NUL_); }
    { static const int own1[][3] = { { 0, 2, 1 }, { 0, 2, 2 }, { 1, 2, 0 }, { 0, 1, 2 }, { 1, 1, 2 }, { 0, 3, 1 }, { 1, 2, 2 } };
      for (int i = 0; i < 7; i++) add(K_SPLICE_OWN1, own1[i][0], own1[i][1], own1[i][2], NUL_); }
}
static void bse(bs_t t, char *e, size_t n) { if (!t.p) snprintf(e, n, "NULL"); else { e[0] = '"'; mc_esc(t.p, (size_t) t.n, e + 1, n - 3); strcat(e, "\""); } }
static void op_name(int i, char *b, size_t n)
{
    op_t *o = &OPS[i]; char e[60]; bse(o->t, e, sizeof e);
    switch (o->k) {
    case K_NEW: snprintf(b, n, "new()"); break;
    case K_NEW_PTR: snprintf(b, n, "new_from_ptr(%s,%d)", e, o->a); break;
    case K_NEW_BUFF: snprintf(b, n, "new_from_buff(%s,%d,%d)", e, o->a, o->b); break;
    case K_APP_OBJ: snprintf(b, n, o->t.n < 0 ? "append(new())" : "append(mbuff %s)", e); break;
    case K_PRE_OBJ: snprintf(b, n, o->t.n < 0 ? "prepend(new())" : "prepend(mbuff %s)", e); break;
    case K_APP_PTR: snprintf(b, n, "append_from_ptr(%s,%d)", e, o->t.n); break;
    case K_PRE_PTR: snprintf(b, n, "prepend_from_ptr(%s,%d)", e, o->t.n); break;
    case K_SPLICE: snprintf(b, n, o->t.p ? "splice(%d,%d,mbuff %s)" : "splice(%d,%d,%s)", o->a, o->b, e); break;
    case K_SPLICE_PTR: snprintf(b, n, "splice_from_ptr(%d,%d,%s,%d)", o->a, o->b, e, o->t.n); break;
    case K_TRIM: snprintf(b, n, "trim()"); break;
    case K_REV: snprintf(b, n, "reverse()"); break;
    case K_CLEAR: snprintf(b, n, "clear('x')"); break;
    case K_SPRINTF: { static const char *d[5] = { "sprintf(\"\")", "sprintf(\"%s\",\"a7\")", "sprintf(\"%d\",-5)", "sprintf(NULL)", "sprintf(\"%s\",\"\")" }; snprintf(b, n, "%s", d[o->a]); break; }
    case K_DONE: snprintf(b, n, "done()"); break;
    case K_DONE_INIT: snprintf(b, n, "done()+init()"); break;
    case K_DONE_INIT_PTR: snprintf(b, n, "done()+init_from_ptr(\"\\xff\",1)"); break;
    case K_APP_SELF: snprintf(b, n, "append(self)"); break;
    case K_PRE_SELF: snprintf(b, n, "prepend(self)"); break;
    case K_SPLICE_SELF: snprintf(b, n, "splice(%d,%d,self)", o->a, o->b); break;
    case K_SPLICE_OWN: snprintf(b, n, "splice_from_ptr(%d,%d,own storage+%d)", o->a, o->b, o->c); break;
    case K_SPLICE_OWN1: snprintf(b, n, "splice_from_ptr(%d,%d,own storage+%d,1)", o->a, o->b, o->c); break;
    }
}
static void *fresh(void) { st_t *s = calloc(1, sizeof *s); s->base = mc_live_bytes(); return s; }
static const char *shape_of(st_t *s)
{
    if (!s->o) return "unconstructed";
    if (!s->o->buff) return "self=empty(NULL buffer)";
    if (s->n == 0) return "self=empty(allocated)";
    return "self=non-empty";
}
static void check_state(st_t *s, const char *site, const char *shape)
{
    T o = s->o;
    if (!o) return;
    if (!o->buff) {
        if (o->len != 0 || o->size != 0) FAIL(site, "invariant:null-buffer-nonzero-len-or-size", shape, "buff==NULL but len=%ld size=%ld", (long) o->len, (long) o->size);
        if (s->n != 0) FAIL(site, "model:bytes", shape, "object is empty, model has %d bytes", s->n);
        return;
    }
    if (o->len != s->n) { FAIL(site, "model:len", shape, "len=%ld, model %d", (long) o->len, s->n); return; }
    if (o->size < o->len) { FAIL(site, "invariant:size-below-len", shape, "size=%ld len=%ld", (long) o->size, (long) o->len); return; }
    size_t blk = mc_block_size(o->buff);
    if (blk && (IDX) blk < o->size) { FAIL(site, "invariant:size-exceeds-allocation", shape, "size=%ld but the block has %zu bytes", (long) o->size, blk); return; }
    if (mc_have_asan() && o->size > 0 && !blk) { FAIL(site, "invariant:buffer-not-a-live-block", shape, "buff is not the start of a live heap block"); return; }
    if (memcmp(o->buff, s->m, (size_t) s->n)) {
        char e1[300], e2[300]; mc_esc(o->buff, (size_t) s->n, e1, sizeof e1); mc_esc(s->m, (size_t) s->n, e2, sizeof e2);
        FAIL(site, "model:bytes", shape, "bytes \"%s\", model \"%s\"", e1, e2);
    }
}
static T mk_other(bs_t t)
{
    if (t.n < 0) return F(new)();
    unsigned char *h = mc_heapmem(t.p, (size_t) t.n);
    T o = F(new_from_ptr)(h, t.n);
    memset(h, '!', (size_t) t.n); free(h);
    return o;
}
static void model_set(st_t *s, const void *t, int n) { if (n > LMAX) n = LMAX; if (n) memmove(s->m, t, (size_t) n); s->n = n; }
static int splice_norm(int n, int *i, int *c)
{
    if (*i < 0) *i += n;
    if (*i < 0 || *i >= n) return 0;
    if (*c < 0) *c = *i + n + *c;
    if (*c < 0 || *c > n - *i) return 0;
    return 1;
}
static int tlen(bs_t t) { return (t.p && t.n > 0) ? t.n : 0; }
static int would_len(st_t *s, op_t *o)
{
    switch (o->k) {
    case K_APP_OBJ: case K_PRE_OBJ: case K_APP_PTR: case K_PRE_PTR: return s->n + tlen(o->t);
    case K_APP_SELF: case K_PRE_SELF: return 2 * s->n;
    case K_SPLICE_SELF: { int i = o->a, c = o->b; if (!splice_norm(s->n, &i, &c)) return s->n; return 2 * s->n - c; }
    case K_SPLICE_OWN: { int i = o->a, c = o->b; if (!splice_norm(s->n, &i, &c)) return s->n; return 2 * s->n - c - o->c; }
    case K_SPLICE_OWN1: { int i = o->a, c = o->b; if (!splice_norm(s->n, &i, &c)) return s->n; return s->n - c + 1; }
    case K_SPLICE: case K_SPLICE_PTR: { int i = o->a, c = o->b; if (!splice_norm(s->n, &i, &c)) return s->n; return s->n - c + tlen(o->t); }
    default: return s->n;
    }
}
static int enabled(void *vs, int op)
{
    st_t *s = vs; op_t *o = &OPS[op];
    if (o->k <= K_NEW_BUFF) return s->o == NULL;
    if (!s->o) return 0;
    if (o->k == K_SPLICE || o->k == K_SPLICE_PTR) {
        if (s->n > L) return 0;
        if (abs(o->a) > s->n + 2 || abs(o->b) > s->n + 2) return 0;
    }
    if (o->k == K_SPLICE_OWN && (s->n <= o->c || s->n > L)) return 0;
    if (o->k == K_SPLICE_OWN1 && s->n <= o->c) return 0;        /* the source is the tail of the object's own storage from offset c */
    if (would_len(s, o) > L && would_len(s, o) > s->n) return 0;
    return 1;
}
static void cat2(st_t *s, bs_t t, int front)
{
    unsigned char tmp[LMAX * 2 + 2]; int tl = tlen(t);
    if (front) { memcpy(tmp, t.p ? t.p : (const unsigned char *) "", (size_t) tl); memcpy(tmp + tl, s->m, (size_t) s->n); }
    else { memcpy(tmp, s->m, (size_t) s->n); if (tl) memcpy(tmp + s->n, t.p, (size_t) tl); }
    model_set(s, tmp, s->n + tl);
}
static void apply(void *vs, int op)
{
    st_t *s = vs; op_t *o = &OPS[op]; T self = s->o;
    char nm[140]; const char *shape = shape_of(s);
    spif_bool_t r = TRUE; int expect_r = 1, check_r = 1;
    mc_set_shape(shape);
    switch (o->k) {
    case K_NEW: s->o = F(new)(); model_set(s, "", 0); check_r = 0; if (!s->o) FAIL(CLS "_new", "model:return", shape, "NULL"); break;
    case K_NEW_PTR: { unsigned char *h = o->t.p ? mc_heapmem(o->t.p, (size_t) o->t.n) : NULL;
        s->o = F(new_from_ptr)(h, o->a); if (h) { memset(h, '!', (size_t) o->t.n); free(h); }
        model_set(s, o->t.p ? o->t.p : (const unsigned char *) "", o->t.p ? o->t.n : 0); check_r = 0;
        if (!s->o) FAIL(CLS "_new_from_ptr", "model:return", shape, "NULL"); break; }
    case K_NEW_BUFF: { unsigned char *h = o->t.p ? mc_heapmem(o->t.p, (size_t) o->t.n) : NULL;
        s->o = F(new_from_buff)(h, o->a, o->b); if (h) { memset(h, '!', (size_t) o->t.n); free(h); }
        model_set(s, o->t.p ? o->t.p : (const unsigned char *) "", o->t.p ? o->a : 0); check_r = 0;
        if (!s->o) FAIL(CLS "_new_from_buff", "model:return", shape, "NULL");
        else if (s->o->size < (o->b > s->n ? o->b : s->n)) FAIL(CLS "_new_from_buff", "model:size", shape, "size %ld below max(size,len)", (long) s->o->size);
        break; }
    case K_APP_OBJ: case K_PRE_OBJ: {
        T other = mk_other(o->t);
        r = o->k == K_APP_OBJ ? F(append)(self, other) : F(prepend)(self, other);
        if (other && other->buff && other->len) memset(other->buff, '!', (size_t) other->len);
        F(del)(other);
        cat2(s, o->t, o->k == K_PRE_OBJ);
        break; }
    case K_APP_PTR: case K_PRE_PTR: {
        unsigned char *h = o->t.p ? mc_heapmem(o->t.p, (size_t) o->t.n) : NULL;
        r = o->k == K_APP_PTR ? F(append_from_ptr)(self, h, o->t.n) : F(prepend_from_ptr)(self, h, o->t.n);
        if (h) { memset(h, '!', (size_t) o->t.n); free(h); }
        if (!o->t.p) expect_r = 0; else cat2(s, o->t, o->k == K_PRE_PTR);
        break; }
    case K_SPLICE: case K_SPLICE_PTR: {
        int i = o->a, c = o->b, ok = splice_norm(s->n, &i, &c);
        if (o->k == K_SPLICE) { T other = o->t.p ? mk_other(o->t) : (T) NULL;
            r = F(splice)(self, o->a, o->b, other);
            if (other) { if (other->buff && other->len) memset(other->buff, '!', (size_t) other->len); F(del)(other); } }
        else { unsigned char *h = o->t.p ? mc_heapmem(o->t.p, (size_t) o->t.n) : NULL;
            r = F(splice_from_ptr)(self, o->a, o->b, h, o->t.n); if (h) { memset(h, '!', (size_t) o->t.n); free(h); } }
        expect_r = ok;
        shape = ok ? "splice in range" : (s->n == 0 ? "splice on empty buffer" : "splice out of range");
        if (ok) { unsigned char tmp[LMAX * 2 + 2]; int tl = tlen(o->t);
            memcpy(tmp, s->m, (size_t) i); if (tl) memcpy(tmp + i, o->t.p, (size_t) tl); memcpy(tmp + i + tl, s->m + i + c, (size_t) (s->n - i - c));
            model_set(s, tmp, s->n - c + tl); }
        break; }
    case K_TRIM: { r = F(trim)(self); int a = 0, b = s->n; while (a < b && isspace(s->m[a])) a++; while (b > a && isspace(s->m[b - 1])) b--;
                   model_set(s, s->m + a, b - a); break; }
    case K_REV: r = F(reverse)(self); for (int i = 0, j = s->n - 1; i < j; i++, j--) { unsigned char t = s->m[i]; s->m[i] = s->m[j]; s->m[j] = t; } if (s->n == 0) check_r = 0; break;
    case K_CLEAR: r = F(clear)(self, (spif_uint8_t) o->a); memset(s->m, o->a, (size_t) s->n); break;
    case K_SPRINTF:
        switch (o->a) {
        case 0: r = F(sprintf)(self, (spif_charptr_t) ""); model_set(s, "", 0); break;
        case 1: r = F(sprintf)(self, (spif_charptr_t) "%s", "a7"); model_set(s, "a7", 2); break;
        case 2: r = F(sprintf)(self, (spif_charptr_t) "%d", -5); model_set(s, "-5", 2); break;
        case 3: r = F(sprintf)(self, (spif_charptr_t) NULL); model_set(s, "", 0); expect_r = 0; break;
        case 4: r = F(sprintf)(self, (spif_charptr_t) "%s", ""); model_set(s, "", 0); expect_r = 0; break;      /* a format that expands to nothing: refused, the object is left empty */
        }
        break;
    case K_APP_SELF: case K_PRE_SELF: { r = o->k == K_APP_SELF ? F(append)(self, self) : F(prepend)(self, self);        /* the object is its own argument */
        unsigned char tmp[LMAX * 2 + 2]; memcpy(tmp, s->m, (size_t) s->n); memcpy(tmp + s->n, s->m, (size_t) s->n); model_set(s, tmp, 2 * s->n); break; }
    case K_SPLICE_SELF: { int i = o->a, c = o->b, ok = splice_norm(s->n, &i, &c);
        r = F(splice)(self, o->a, o->b, self); expect_r = ok; shape = ok ? "splice with self" : "splice out of range";
        if (ok) { unsigned char tmp[LMAX * 3 + 2]; memcpy(tmp, s->m, (size_t) i); memcpy(tmp + i, s->m, (size_t) s->n); memcpy(tmp + i + s->n, s->m + i + c, (size_t) (s->n - i - c)); model_set(s, tmp, 2 * s->n - c); }
        break; }
    case K_SPLICE_OWN: { int i = o->a, c = o->b, ok = splice_norm(s->n, &i, &c), sl = s->n - o->c;      /* the caller's pointer stays valid until the call returns: splice builds the result in a new block */
        r = F(splice_from_ptr)(self, o->a, o->b, self->buff + o->c, (spif_memidx_t) (s->n - o->c)); expect_r = ok; shape = ok ? "splice with a pointer into the object's own storage" : "splice out of range";
        if (ok) { unsigned char tmp[LMAX * 3 + 2]; memcpy(tmp, s->m, (size_t) i); memcpy(tmp + i, s->m + o->c, (size_t) sl); memcpy(tmp + i + sl, s->m + i + c, (size_t) (s->n - i - c)); model_set(s, tmp, s->n - c + sl); }
        break; }
    case K_SPLICE_OWN1: { int i = o->a, c = o->b, ok = splice_norm(s->n, &i, &c);      /* the bytes that count are the ones the pointer showed when the call was made */
        r = F(splice_from_ptr)(self, o->a, o->b, self->buff + o->c, 1); expect_r = ok; shape = ok ? "splice with one byte of the object's own storage" : "splice out of range";
        if (ok) { unsigned char tmp[LMAX * 3 + 2]; memcpy(tmp, s->m, (size_t) i); tmp[i] = s->m[o->c]; memcpy(tmp + i + 1, s->m + i + c, (size_t) (s->n - i - c)); model_set(s, tmp, s->n - c + 1); }
        break; }
    case K_DONE: r = F(done)(self); model_set(s, "", 0); if (self->buff) FAIL(CLS "_done", "model:not-emptied", shape, "buffer still set after done()"); break;
    case K_DONE_INIT: F(done)(self); r = F(init)(self); model_set(s, "", 0); break;
    case K_DONE_INIT_PTR: F(done)(self); r = F(init_from_ptr)(self, (spif_byteptr_t) "\xff", 1); model_set(s, "\xff", 1); break;
    }
    op_name(op, nm, sizeof nm);
    char site[96]; snprintf(site, sizeof site, CLS "_%.*s", (int) strcspn(nm, "("), nm);
    if (check_r && (r ? 1 : 0) != expect_r) FAIL(site, "model:return", shape, "returned %d, expected %d", (int) r, expect_r);
    check_state(s, site, shape);
}

static int cmpv(spif_cmp_t c) { return SPIF_CMP_IS_LESS(c) ? -1 : (SPIF_CMP_IS_GREATER(c) ? 1 : (SPIF_CMP_IS_EQUAL(c) ? 0 : 9)); }
static int seqcmp(const unsigned char *a, int an, const unsigned char *b, int bn)
{
    int m = an < bn ? an : bn, c = m ? memcmp(a, b, (size_t) m) : 0;
    if (c) return c < 0 ? -1 : 1;
    return an < bn ? -1 : (an > bn ? 1 : 0);
}
static int min(int a, int b) { return a < b ? a : b; }

static void probe(void *vs)
{
    st_t *s = vs; T o = s->o; const char *shape = shape_of(s);
    if (!o) return;
    mc_set_shape(shape);
    int n = s->n, w = (n < L ? n : L) + 2;
    if ((int) F(get_len)(o) != n) FAIL(CLS "_get_len", "model:return", shape, "get_len=%ld model %d", (long) F(get_len)(o), n);
    if (F(get_size)(o) != o->size) FAIL(CLS "_get_size", "model:return", shape, "get_size differs from the field");
    for (int i = 0; i <= NS; i++) {
        unsigned char c = i < NS ? SIG[i] : 'z';
        const unsigned char *p = n ? memchr(s->m, c, (size_t) n) : NULL, *q = n ? memrchr(s->m, c, (size_t) n) : NULL;
        long ei = p ? p - s->m : n, er = q ? q - s->m : n;
        long gi = (long) F(index)(o, c), gr = (long) F(rindex)(o, c);
        const char *si = !p ? "byte absent" : (ei == 0 ? "byte at first position" : (ei == n - 1 ? "byte at last position" : "byte inside"));
        const char *sr = !q ? "byte absent" : (er == 0 ? "byte at first position" : (er == n - 1 ? "byte at last position" : "byte inside"));
        if (gi != ei) FAIL(CLS "_index", "model:return", si, "index(0x%02x)=%ld expected %ld", c, gi, ei);
        if (gr != er) FAIL(CLS "_rindex", "model:return", sr, "rindex(0x%02x)=%ld expected %ld", c, gr, er);
    }
    /* find: needles of length <= 2, an absent one, the empty one, one longer than the buffer */
    for (int i = 0; i <= NCT + 1; i++) {
        unsigned char nd[LMAX + 4]; int nl;
        if (i < NCT) { nl = CTN[i]; memcpy(nd, CTB[i], (size_t) nl); }
        else if (i == NCT) { nl = 2; nd[0] = nd[1] = 'z'; }
        else { nl = n + 1; memcpy(nd, s->m, (size_t) n); nd[n] = 'a'; }
        const unsigned char *p = nl ? (n >= nl ? memmem(s->m, (size_t) n, nd, (size_t) nl) : NULL) : s->m;
        long ex = p ? p - s->m : n;
        unsigned char *hn = mc_heapmem(nd, (size_t) nl);
        long g1 = (long) F(find_from_ptr)(o, hn, nl);
        T on = F(new_from_ptr)(hn, nl);
        long g2 = (long) F(find)(o, on);
        F(del)(on); free(hn);
        const char *sh = !nl ? "empty needle" : (nl > n ? "needle longer than buffer" : (p ? "needle present" : "needle absent"));
        if (g1 != ex) FAIL(CLS "_find_from_ptr", "model:return", sh, "find_from_ptr(needle %d bytes)=%ld expected %ld", nl, g1, ex);
        if (g2 != ex) FAIL(CLS "_find", "model:return", sh, "find(needle %d bytes)=%ld expected %ld", nl, g2, ex);
        { unsigned char *h2 = mc_heapmem(nd, (size_t) nl); T os = F(new_from_buff)(h2, (spif_memidx_t) nl, (spif_memidx_t) (nl + 40));      /* the same needle in an object with spare capacity */
          if (os) { long g3 = (long) F(find)(o, os); F(del)(os); if (g3 != ex) FAIL(CLS "_find", "model:return", sh, "find(needle %d bytes held with spare capacity)=%ld expected %ld", nl, g3, ex); }
          free(h2); }
    }
    for (int i = -w; i <= w; i++) for (int c = -w; c <= w; c++) {
        int st = i < 0 ? i + n : i, ok = (st >= 0 && st < n), cnt = 0;
        if (ok) { cnt = c <= 0 ? n - st + c : c; if (cnt < 0) ok = 0; else if (cnt > n - st) cnt = n - st; }
        const char *sh = ok ? "slice in range" : (n == 0 ? "slice of empty buffer" : "slice out of range");
        T r = F(subbuff)(o, i, c);
        unsigned char *p = F(subbuff_to_ptr)(o, i, c);
        if (ok) {
            if (!r) FAIL(CLS "_subbuff", "model:refused", sh, "subbuff(%d,%d) refused, expected %d bytes", i, c, cnt);
            else if (r->len != cnt || r->size < r->len || (cnt && (!r->buff || memcmp(r->buff, s->m + st, (size_t) cnt))))
                FAIL(CLS "_subbuff", "model:content", sh, "subbuff(%d,%d) wrong (len %ld size %ld)", i, c, (long) r->len, (long) r->size);
            if (!p) FAIL(CLS "_subbuff_to_ptr", "model:refused", sh, "subbuff_to_ptr(%d,%d) refused", i, c);
            else if (memcmp(p, s->m + st, (size_t) cnt) || p[cnt] != 0) FAIL(CLS "_subbuff_to_ptr", "model:content", sh, "subbuff_to_ptr(%d,%d) wrong", i, c);
        } else {
            if (r) FAIL(CLS "_subbuff", "model:not-refused", sh, "subbuff(%d,%d) on %d bytes should be refused", i, c, n);
            if (p) FAIL(CLS "_subbuff_to_ptr", "model:not-refused", sh, "subbuff_to_ptr(%d,%d) on %d bytes should be refused", i, c, n);
        }
        if (r) F(del)(r);
        free(p);
    }
    /* cmp family: every buffer of length <= 2, NULL, itself, itself + one byte (proper prefix) */
    for (int i = 0; i <= NCT + 2; i++) {
        unsigned char t[LMAX + 4]; int tl = 0, isnull = (i == NCT);
        if (i < NCT) { tl = CTN[i]; memcpy(t, CTB[i], (size_t) tl); }
        else if (i == NCT + 1) { tl = n; memcpy(t, s->m, (size_t) n); }
        else if (i == NCT + 2) { tl = n + 1; memcpy(t, s->m, (size_t) n); t[n] = 0; }
        unsigned char *ht = isnull ? NULL : mc_heapmem(t, (size_t) tl);
        T ot = isnull ? (T) NULL : F(new_from_ptr)(ht, tl);
        const char *sh = isnull ? "other=NULL" : (i == NCT + 1 ? "other=same bytes" : (i == NCT + 2 ? "self is a proper prefix of other" :
                         (tl < n && !memcmp(t, s->m, (size_t) tl) ? "other is a proper prefix of self" : "other=bytes")));
        int e_cmp = isnull ? 1 : seqcmp(s->m, n, t, tl);
#define CK(fn, got, exp, ...) do { int g_ = cmpv(got); if (g_ != (exp)) { char d_[120]; snprintf(d_, sizeof d_, __VA_ARGS__); FAIL(CLS "_" #fn, "model:return", sh, "%s = %d expected %d", d_, g_, (exp)); } } while (0)
        CK(cmp, F(cmp)(o, ot), e_cmp, "cmp(other %d bytes)", tl);
        CK(comp, F(comp)(o, ot), e_cmp, "comp(other %d bytes)", tl);
        /* pinned convention (the repository's tests rely on it): the pointer forms compare the first k bytes;
         * k <= len: sign of memcmp over k bytes; k > len: decided by the first len bytes when they differ,
         * otherwise unspecified (the implementation may look at its capacity slack) - safety oracle only */
        if (isnull) CK(cmp_with_ptr, F(cmp_with_ptr)(o, ht, tl), 1, "cmp_with_ptr(NULL, %d)", tl);
        else if (tl <= n || !mc_have_msan()) {    /* (MemorySanitizer build: the slack was never written, looking at it is what that build reports - the call is left out there) */
            int m_ = min(n, tl), d_ = m_ ? memcmp(s->m, t, (size_t) m_) : 0; spif_cmp_t g = F(cmp_with_ptr)(o, ht, tl);
               if (tl <= n || d_) CK(cmp_with_ptr, g, d_ < 0 ? -1 : (d_ > 0 ? 1 : 0), "cmp_with_ptr(other, %d)", tl);
               else if (cmpv(g) == 9) FAIL(CLS "_cmp_with_ptr", "model:return", sh, "not a comparison value"); }
        for (int c = 0; c <= w; c++) {
            int e_n = isnull ? 1 : seqcmp(s->m, min(n, c), t, min(tl, c));
            CK(ncmp, F(ncmp)(o, ot, c), e_n, "ncmp(other %d bytes, %d)", tl, c);
            if (isnull) CK(ncmp_with_ptr, F(ncmp_with_ptr)(o, ht, c), 1, "ncmp_with_ptr(NULL, %d)", c);
            else if (c <= tl && (c <= n || !mc_have_msan())) {                 /* the pointer form needs c readable bytes behind the pointer */
                int m_ = min(n, c), d_ = m_ ? memcmp(s->m, t, (size_t) m_) : 0; spif_cmp_t g = F(ncmp_with_ptr)(o, ht, c);
                if (c <= n || d_) CK(ncmp_with_ptr, g, d_ < 0 ? -1 : (d_ > 0 ? 1 : 0), "ncmp_with_ptr(other, %d)", c);
                else if (cmpv(g) == 9) FAIL(CLS "_ncmp_with_ptr", "model:return", sh, "not a comparison value");
            }
        }
        if (ot) F(del)(ot);
        free(ht);
    }
    { T d = F(dup)(o);
      if (!d) FAIL(CLS "_dup", "model:return", shape, "dup returned NULL");
      else if (d == o) FAIL(CLS "_dup", "model:same-object", shape, "dup returned self");
      else { st_t tmp = *s; tmp.o = d; check_state(&tmp, CLS "_dup", shape); F(del)(d); } }
    { spif_str_t b = F(show)(o, (spif_byteptr_t) "probe", (spif_str_t) NULL, 2); if (!b) FAIL(CLS "_show", "model:return", shape, "show returned NULL"); else spif_str_del(b); }
    check_state(s, CLS "_queries", shape);
}
static void canon(void *vs, char *b, size_t n)
{
    st_t *s = vs; T o = s->o; char e[400];
    if (!o) { snprintf(b, n, "<unconstructed>"); return; }
    if (!o->buff) { snprintf(b, n, "E0(len=%ld,size=%ld)", (long) o->len, (long) o->size); return; }
    mc_esc(o->buff, (size_t) (o->len < LMAX ? o->len : LMAX), e, sizeof e);
    long slack = o->size - o->len; if (slack > 2) slack = 2;
    snprintf(b, n, "\"%s\" len=%ld slack=%ld", e, (long) o->len, slack);
}
static int g_warm;
static void teardown(void *vs)
{
    st_t *s = vs; if (s->o) F(del)(s->o);
#ifdef VERIF_LEAKRUN
    if (g_warm) { free(s); return; }
    /* the same histories as a C06 run: whatever the operations (refused ones included) allocated is gone once the object is deleted */
    long left = mc_live_bytes() - s->base;
    if (left) FAIL(CLS, "leak", "after the history", "%ld bytes still allocated after the object was deleted", left);
#endif
    free(s);
}
static void warm(void *ctx) { (void) ctx; g_warm = 1; st_t *w = fresh(); for (int op = 0; op < NOPS; op++) if (enabled(w, op)) { apply(w, op); break; } probe(w); teardown(w); g_warm = 0; }
static const mc_sys SYS = { CLS, 0, op_name, fresh, enabled, apply, probe, canon, teardown };

/* ------------------------------------------------------------------ stream / descriptor constructors */
static int g_hook_fd = -1;
ssize_t __real_read(int fd, void *buf, size_t n);
static int g_eio_at = -1, g_eio_seen, g_storm, g_storm_c;
ssize_t __wrap_read(int fd, void *buf, size_t n)
{
    if (fd == g_hook_fd && g_eio_at >= 0 && g_eio_seen++ >= g_eio_at) { errno = EIO; return -1; }          /* from this call on the descriptor fails hard */
    if (fd == g_hook_fd && g_storm && n > 0) { if (g_storm_c < g_storm) { g_storm_c++; errno = EINTR; return -1; } g_storm_c = 0; if (n > 1500) n = 1500; }      /* interrupt storm: g_storm EINTRs before every real read of <= 1500 bytes */
    if (fd == g_hook_fd && mc_e3_active() && n > 0) {
        int c = mc_choose(4);
        if (c == 1) n = 1;
        else if (c == 2) n = n > 1 ? n / 2 : 1;
        else if (c == 3) { errno = EINTR; return -1; }
    }
    return __real_read(fd, buf, n);
}
static const int LENS[] = { 0, 1, 2, 4095, 4096, 4097, 8191, 8192, 8193, 10000, 12300 };
#define NLENS ((int) (sizeof LENS / sizeof *LENS))
enum { SRC_FP_MEM, SRC_FP_FILE, SRC_FP_FILE_MID, SRC_FP_PIPE, SRC_FD_PIPE, SRC_FD_SOCK, SRC_FD_FILE, SRC_FD_FILE_MID, SRC_FP_PIPE_MID, NSRC };
static const char *SRCN[NSRC] = { "new_from_fp(fmemopen)", "new_from_fp(regular file)", "new_from_fp(regular file, first half skipped by fseek / consumed by fread)", "new_from_fp(pipe)",
                                  "new_from_fd(pipe)", "new_from_fd(unix socket)", "new_from_fd(regular file)", "new_from_fd(regular file, offset len/2)",
                                  "new_from_fp(pipe whose first byte was read with fgetc: stdio holds what it read ahead)" };
typedef struct { int src, len; } sc_t;
static void sc_decode(uint64_t idx, sc_t *c) { c->src = (int) (idx % NSRC); c->len = LENS[(idx / NSRC) % NLENS]; }
static void sc_desc(uint64_t idx, void *ctx, char *b, size_t n)
{
    sc_t c; (void) ctx; sc_decode(idx, &c);
    snprintf(b, n, CLS " %s on %d bytes (every byte value incl. NUL), then append_from_ptr + reverse", SRCN[c.src], c.len);
}
static unsigned char *g_payload; static sc_t g_sc; static int g_k, g_dev;
static int tmpfile_with(const unsigned char *p, int len)
{
    char path[256]; const char *td = getenv("VERIF_SCRATCH");
    snprintf(path, sizeof path, "%s/mbfd-XXXXXX", td ? td : "/tmp");
    int fd = mkstemp(path); if (fd < 0) return -1;
    unlink(path);
    if (write(fd, p, (size_t) len) != len) { close(fd); return -1; }
    lseek(fd, 0, SEEK_SET);
    return fd;
}
static void sc_run(void *ctx)
{
    sc_t *c = &g_sc; int fds[2] = { -1, -1 }; FILE *fp = NULL; T o = NULL;
    (void) ctx;
    int is_fp = c->src <= SRC_FP_PIPE || c->src == SRC_FP_PIPE_MID, off = 0;
    const char *site = is_fp ? CLS "_new_from_fp" : CLS "_new_from_fd";
    const char *shape = c->len == 0 ? "empty input" : (c->len < 4096 ? "below one chunk" : (c->len == 4096 ? "exactly one chunk" : "more than one chunk"));
    switch (c->src) {
    case SRC_FP_MEM: fp = c->len ? fmemopen(g_payload, (size_t) c->len, "r") : fopen("/dev/null", "r"); break;
    case SRC_FP_FILE: case SRC_FP_FILE_MID:
        fds[0] = tmpfile_with(g_payload, c->len); if (fds[0] < 0) return;
        fp = fdopen(fds[0], "r");
        if (c->src == SRC_FP_FILE_MID) { off = c->len / 2;           /* the first half is skipped with fseek (even lengths) or consumed through stdio, which reads ahead (odd lengths) */
            if (c->len % 2) { char *skip = malloc((size_t) off + 1); if (off && fread(skip, 1, (size_t) off, fp) != (size_t) off) { free(skip); fclose(fp); return; } free(skip); }
            else fseek(fp, off, SEEK_SET); }
        break;
    case SRC_FP_PIPE: case SRC_FD_PIPE: case SRC_FP_PIPE_MID:
        if (pipe(fds)) return;
        fcntl(fds[1], F_SETPIPE_SZ, 1 << 16);
        if (write(fds[1], g_payload, (size_t) c->len) != c->len) { close(fds[0]); close(fds[1]); return; }
        close(fds[1]); fds[1] = -1;
        if (c->src == SRC_FP_PIPE) fp = fdopen(fds[0], "r");
        if (c->src == SRC_FP_PIPE_MID) { fp = fdopen(fds[0], "r"); if (c->len && fp) { int ch = fgetc(fp); if (ch != g_payload[0]) { fclose(fp); return; } off = 1; } }
        break;
    case SRC_FD_SOCK:
        if (socketpair(AF_UNIX, SOCK_STREAM, 0, fds)) return;
        { int sz = 1 << 17; setsockopt(fds[1], SOL_SOCKET, SO_SNDBUF, &sz, sizeof sz); }
        if (write(fds[1], g_payload, (size_t) c->len) != c->len) { close(fds[0]); close(fds[1]); return; }
        close(fds[1]); fds[1] = -1;
        break;
    case SRC_FD_FILE: case SRC_FD_FILE_MID:
        fds[0] = tmpfile_with(g_payload, c->len); if (fds[0] < 0) return;
        if (c->src == SRC_FD_FILE_MID) { off = c->len / 2; lseek(fds[0], off, SEEK_SET); }
        break;
    }
    int explen = c->len - off;
    if (off) shape = c->src == SRC_FP_PIPE_MID ? "stream input partly consumed through stdio" : "seekable input read from the middle";
    mc_set_shape(shape);
    if (is_fp) { if (!fp) return; o = F(new_from_fp)(fp); }
    else { g_hook_fd = fds[0]; o = F(new_from_fd)(fds[0]); g_hook_fd = -1; }
    if (!o) {
        /* pinned convention: an input with nothing left to read may be reported as failure (NULL) */
        if (explen != 0) FAIL(site, "model:return", shape, "constructor returned NULL for %d readable bytes", explen);
    } else {
        if (!o->buff) { if (explen != 0 || o->len || o->size) FAIL(site, "model:bytes", shape, "empty object for %d expected bytes", explen); }
        else if (o->len != explen) FAIL(site, "model:len", shape, "len=%ld expected %d", (long) o->len, explen);
        else if (o->size < o->len) FAIL(site, "invariant:size-below-len", shape, "size=%ld len=%ld", (long) o->size, (long) o->len);
        else if (mc_block_size(o->buff) && (IDX) mc_block_size(o->buff) < o->size) FAIL(site, "invariant:size-exceeds-allocation", shape, "size %ld block %zu", (long) o->size, mc_block_size(o->buff));
        else if (memcmp(o->buff, g_payload + off, (size_t) explen)) {
            int d = 0; while (d < explen && o->buff[d] == g_payload[off + d]) d++;
            FAIL(site, "model:bytes", shape, "bytes differ from the input at offset %d of %d", d, explen);
        } else {
            F(append_from_ptr)(o, (spif_byteptr_t) "q", 1);
            if (o->len != explen + 1 || o->buff[explen] != 'q' || o->size < o->len) FAIL(site, "model:followup-append", shape, "append after construction broke the value");
            F(reverse)(o);
            if (o->len != explen + 1 || o->buff[0] != 'q' || (explen && o->buff[explen] != g_payload[off])) FAIL(site, "model:followup-reverse", shape, "reverse after construction broke the value");
        }
        F(del)(o);
    }
    if (fp) fclose(fp); else if (fds[0] >= 0) close(fds[0]);
    if (fds[1] >= 0) close(fds[1]);
    mc_outcome((uint64_t) explen * 31 + (uint64_t) c->src);
}
static void sc_case(uint64_t idx, void *ctx)
{
    (void) ctx; sc_decode(idx, &g_sc);
    g_payload = malloc((size_t) g_sc.len + 1);
    for (int i = 0; i < g_sc.len; i++) g_payload[i] = (unsigned char) ((i * 7 + i / 256) & 0xff);   /* contains NUL and 0xFF */
    mc_e3_stats st;
    int is_fd = g_sc.src >= SRC_FD_PIPE && g_sc.src != SRC_FP_PIPE_MID;
    mc_e3_explore(sc_run, NULL, is_fd ? g_k : 0, is_fd ? g_dev : 0, &st);
    mc_stat_add("e3_executions", (long) st.executions);
    if (g_sc.len > 4095) mc_nontrivial();
    free(g_payload); g_payload = NULL;
}


/* ------------------------------------------------------------------ descriptor constructors with a history, and with hard read errors (as in h_str.c) */
static void fill_bytes(unsigned char *p, int len) { for (int i = 0; i < len; i++) p[i] = (unsigned char) ((i * 7 + i / 256) & 0xff); }
static int queue_stream(int kind, const unsigned char *data, int len, int fds[2])
{
    if (kind == 0) { if (pipe(fds)) return 0; fcntl(fds[1], F_SETPIPE_SZ, 1 << 20); }
    else { if (socketpair(AF_UNIX, SOCK_STREAM, 0, fds)) return 0; int sz = 1 << 20; setsockopt(fds[1], SOL_SOCKET, SO_SNDBUF, &sz, sizeof sz); setsockopt(fds[0], SOL_SOCKET, SO_RCVBUF, &sz, sizeof sz); }
    int off = 0; fcntl(fds[1], F_SETFL, O_NONBLOCK);
    while (off < len) { ssize_t w = write(fds[1], data + off, (size_t) (len - off)); if (w <= 0) break; off += (int) w; }
    close(fds[1]); fds[1] = -1;
    if (off != len) { close(fds[0]); return 0; }
    return 1;
}
static void check_bytes(T o, const unsigned char *pay, int explen, const char *site, const char *shape, const char *what)
{
    if (!o) { FAIL(site, "model:return", shape, "%s: constructor returned NULL", what); return; }
    if (!o->buff) { if (explen) FAIL(site, "model:bytes", shape, "%s: empty object for %d expected bytes", what, explen); return; }
    if (o->len != explen) FAIL(site, "model:len", shape, "%s: len=%ld expected %d", what, (long) o->len, explen);
    else if (o->size < o->len || (mc_block_size(o->buff) && (spif_memidx_t) mc_block_size(o->buff) < o->size)) FAIL(site, "invariant:size", shape, "%s: len=%ld size=%ld block=%zu", what, (long) o->len, (long) o->size, mc_block_size(o->buff));
    else if (memcmp(o->buff, pay, (size_t) explen)) { int d = 0; while (d < explen && o->buff[d] == pay[d]) d++; FAIL(site, "model:bytes", shape, "%s: bytes differ from the input at offset %d of %d", what, d, explen); }
}
static const int H_FIRST[] = { 33000, 70000 }, H_SECOND[] = { 4097, 9000, 20000 };
static const int STORMS[] = { 30, 101, 300 };
static void sh_desc(uint64_t idx, void *ctx, char *b, size_t n)
{
    if (idx >= 24) { snprintf(b, n, CLS " new_from_fd(%s) on 10000 bytes where every read() is preceded by %d EINTR failures and moves at most 1500 bytes", (idx - 24) % 2 ? "unix socket" : "pipe", STORMS[(idx - 24) / 2]); return; }
    (void) ctx; int kind = (int) (idx % 2), f = H_FIRST[(idx / 2) % 2], sc = H_SECOND[(idx / 4) % 3], viafp = (int) (idx / 12);
    snprintf(b, n, CLS " %s(%s) on %d bytes, delete, then %s on %d bytes already queued", viafp ? "new_from_fp" : "new_from_fd", kind ? "unix socket" : "pipe", f, viafp ? "new_from_fp" : "new_from_fd", sc);
}
static void storm_case(uint64_t idx);
static void sh_case(uint64_t idx, void *ctx)
{
    if (idx >= 24) { storm_case(idx - 24); return; }
    (void) ctx; int kind = (int) (idx % 2), lens[2] = { H_FIRST[(idx / 2) % 2], H_SECOND[(idx / 4) % 3] }, viafp = (int) (idx / 12);
    const char *site = viafp ? CLS "_new_from_fp" : CLS "_new_from_fd";
    mc_set_shape("after a large stream");
    for (int step = 0; step < 2; step++) {
        unsigned char *pay = malloc((size_t) lens[step] + 1); fill_bytes(pay, lens[step]);
        int fds[2] = { -1, -1 }; FILE *fp = NULL; T o;
        if (!queue_stream(kind, pay, lens[step], fds)) { free(pay); return; }
        if (viafp) { fp = fdopen(fds[0], "r"); o = F(new_from_fp)(fp); } else o = F(new_from_fd)(fds[0]);
        check_bytes(o, pay, lens[step], site, "after a large stream", step ? "second stream" : "first stream");
        if (o) { F(append_from_ptr)(o, (spif_byteptr_t) "q", 1); if (o->buff && (o->len < 1 || o->buff[o->len - 1] != 'q' || o->size < o->len)) FAIL(site, "model:followup-append", "after a large stream", "append after construction broke the value"); F(del)(o); }
        if (fp) fclose(fp); else close(fds[0]);
        free(pay);
    }
    mc_nontrivial();
    mc_outcome(idx);
}
static void storm_case(uint64_t i)
{
    int kind = (int) (i % 2); const char *site = CLS "_new_from_fd";
    mc_set_shape("interrupt storm");
    unsigned char *pay = malloc(10001); fill_bytes(pay, 10000);
    int fds[2] = { -1, -1 };
    if (!queue_stream(kind, pay, 10000, fds)) { free(pay); return; }
    g_hook_fd = fds[0]; g_storm = STORMS[i / 2]; g_storm_c = 0;
    T o = F(new_from_fd)(fds[0]);
    g_hook_fd = -1; g_storm = 0;
    check_bytes(o, pay, 10000, site, "interrupt storm", "stream under an interrupt storm");
    if (o) F(del)(o);
    close(fds[0]); free(pay);
    mc_nontrivial(); mc_outcome(100 + i);
}
enum { HE_EIO0, HE_EIO1, HE_EIO2, HE_EIO3, HE_DIR, HE_WRONLY, HE_FP_WRONLY, HE_FP_WRONLY_DONE, NHE };
static void he_desc(uint64_t idx, void *ctx, char *b, size_t n)
{
    static const char *w[NHE] = { "read() fails with EIO at once", "EIO on the 2nd read()", "EIO on the 3rd read()", "EIO on the 4th read()", "the descriptor is a directory (EISDIR)", "the descriptor is write-only (EBADF)",
                                  "the source is a FILE on a write-only descriptor of a 16-byte file (init_from_fp: the size is known, the read fails)", "the same, followed by done() before the object is used again" };
    (void) ctx; snprintf(b, n, CLS " new_from_ptr(\"seed\",4), done(), init_from_fd() on a 9000-byte pipe where %s; then append, then del", w[idx % NHE]);
}
static void he_case(uint64_t idx, void *ctx)
{
    (void) ctx; int he = (int) (idx % NHE); const char *site = CLS "_init_from_fd", *shape = "hard read error";
    mc_set_shape(shape);
    unsigned char *pay = malloc(9001); fill_bytes(pay, 9000);
    int fds[2] = { -1, -1 }, fd = -1;
    if (he <= HE_EIO3) { if (!queue_stream(0, pay, 9000, fds)) { free(pay); return; } fd = fds[0]; }
    else if (he == HE_DIR) fd = open("/", O_RDONLY);
    else { const char *td = getenv("VERIF_SCRATCH"); char path[256]; snprintf(path, sizeof path, "%s/wo-%d", td ? td : "/tmp", (int) getpid()); fd = open(path, O_WRONLY | O_CREAT, 0600); unlink(path); }
    FILE *wfp = NULL;
    if (he >= HE_FP_WRONLY) { const char *td = getenv("VERIF_SCRATCH"); char path[256]; snprintf(path, sizeof path, "%s/wofp-%d", td ? td : "/tmp", (int) getpid());
        fd = open(path, O_RDWR | O_CREAT, 0600); if (fd >= 0 && write(fd, "0123456789abcdef", 16) == 16) { close(fd); fd = open(path, O_WRONLY); } unlink(path); if (fd >= 0) { lseek(fd, 0, SEEK_SET); wfp = fdopen(fd, "w"); } site = CLS "_init_from_fp"; }
    T o = F(new_from_ptr)((spif_byteptr_t) "seed", 4);
    F(done)(o);
    if (he >= HE_FP_WRONLY) {
        if (wfp) { (void) F(init_from_fp)(o, wfp); if (he == HE_FP_WRONLY_DONE) F(done)(o); }
    } else {
    g_hook_fd = fd; g_eio_at = he <= HE_EIO3 ? he : -1; g_eio_seen = 0;
    spif_bool_t r = F(init_from_fd)(o, fd);
    g_hook_fd = -1; g_eio_at = -1;
    (void) r;
    }
    if (!o->buff) { if (o->len || o->size) FAIL(site, "invariant:empty-state", shape, "buffer pointer NULL with len=%ld size=%ld", (long) o->len, (long) o->size); }
    else if (o->len < 0 || o->size < o->len || (mc_block_size(o->buff) && (spif_memidx_t) mc_block_size(o->buff) < o->size)) FAIL(site, "invariant:size", shape, "len=%ld size=%ld block=%zu", (long) o->len, (long) o->size, mc_block_size(o->buff));
    else if (he <= HE_EIO3 && (o->len > 9000 || memcmp(o->buff, pay, (size_t) o->len))) FAIL(site, "model:bytes", shape, "the bytes are not a prefix of what was delivered");
    spif_memidx_t before = o->len;
    F(append_from_ptr)(o, (spif_byteptr_t) "q", 1);
    if (!o->buff || o->len != before + 1 || o->buff[before] != 'q' || o->size < o->len) FAIL(site, "model:followup-append", shape, "append after the failed read: len %ld -> %ld", (long) before, (long) o->len);
    F(del)(o);
    if (wfp) fclose(wfp); else if (fd >= 0) close(fd);
    free(pay);
    mc_nontrivial();
    mc_outcome(idx);
}

/* ---- a file whose size the system reports as 0 although it delivers bytes (procfs): the descriptor constructor reads what there is */
static void pf_desc(uint64_t idx, void *ctx, char *b, size_t n) { (void) ctx; (void) idx; snprintf(b, n, CLS " new_from_fd(/proc/version): the bytes a plain read() loop delivers"); }
static void pf_case(uint64_t idx, void *ctx)
{
    (void) ctx; (void) idx; const char *shape = "file of reported size 0"; mc_set_shape(shape);
    int fd = open("/proc/version", O_RDONLY); if (fd < 0) return;
    unsigned char ref[4096]; ssize_t n = 0, k; while ((k = __real_read(fd, ref + n, sizeof ref - (size_t) n)) > 0) n += k;
    close(fd);
    if (n <= 0) return;
    fd = open("/proc/version", O_RDONLY); if (fd < 0) return;
    T o = F(new_from_fd)(fd);
    if (!o) FAIL(CLS "_new_from_fd", "model:return", shape, "NULL for a file that delivers %ld bytes", (long) n);
    else { if (o->len != (spif_memidx_t) n || !o->buff || memcmp(o->buff, ref, (size_t) n)) FAIL(CLS "_new_from_fd", "model:bytes", shape, "len=%ld, a read() loop delivers %ld bytes", (long) o->len, (long) n); F(del)(o); }
    close(fd);
    mc_nontrivial();
}

/* ------------------------------------------------------------------ positions and counts at the far ends of the 64-bit index type */
static const long long EXT[] = { 0, 1, -1, 5, -5, 11, -11, 12, -12, 2147483647LL, 2147483648LL, 2147483649LL, -2147483647LL, -2147483648LL, -2147483649LL, 4294967291LL, 4294967296LL, 4294967301LL, -4294967291LL, -4294967296LL, -4294967301LL,
                                 3298534883339LL, -3298534883339LL, 9223372036854775807LL, -9223372036854775807LL - 1, -9223372036854775807LL, -9223372036854775803LL };
#define NEXT ((int) (sizeof EXT / sizeof EXT[0]))
static void ex_desc(uint64_t idx, void *ctx, char *b, size_t n) { (void) ctx; snprintf(b, n, CLS " \"hello\\0world\" (11 bytes): subbuff, splice(\"XY\"), splice_from_ptr(\"XY\",2) with position %lld and count %lld", EXT[idx / NEXT], EXT[idx % NEXT]); }
static void ex_case(uint64_t idx, void *ctx)
{
    long long I = EXT[idx / NEXT], C = EXT[idx % NEXT]; (void) ctx;
    const unsigned char *text = (const unsigned char *) "hello\0world"; const int n = 11;
    const char *shape = (I > 2147483647LL || I < -2147483648LL || C > 2147483647LL || C < -2147483648LL) ? "position or count beyond 32 bits" : "position and count within 32 bits";
    mc_set_shape(shape);
    __int128 st = I < 0 ? (__int128) I + n : I; int sub_ok = st >= 0 && st < n; __int128 sc = 0;
    if (sub_ok) { sc = C <= 0 ? (__int128) n - st + C : C; if (sc < 0) sub_ok = 0; else if (sc > n - st) sc = n - st; }
    __int128 si = st, spc = C; int spl_ok = si >= 0 && si < n;
    if (spl_ok) { if (spc < 0) spc = si + n + spc; if (spc < 0 || spc > n - si) spl_ok = 0; }
    { T o = F(new_from_ptr)((spif_byteptr_t) text, 11);
      T r = F(subbuff)(o, (spif_memidx_t) I, (spif_memidx_t) C);
      if (sub_ok) { if (!r || (sc && !r->buff) || r->len != (spif_memidx_t) sc || (sc && memcmp(r->buff, text + (int) st, (size_t) sc))) FAIL(CLS "_subbuff", "model:content", shape, "subbuff(%lld,%lld) is not the %d-byte slice at %d", I, C, (int) sc, (int) st); }
      else if (r) FAIL(CLS "_subbuff", "model:not-refused", shape, "subbuff(%lld,%lld) on 11 bytes must be refused", I, C);
      if (r) F(del)(r);
      if (o->len != 11 || memcmp(o->buff, text, 11)) FAIL(CLS "_subbuff", "model:original-changed", shape, "the buffer changed");
      F(del)(o); }
    for (int via_ptr = 0; via_ptr < 2; via_ptr++) {
        T o = F(new_from_ptr)((spif_byteptr_t) text, 11), x = F(new_from_ptr)((spif_byteptr_t) "XY", 2);
        spif_bool_t r = via_ptr ? F(splice_from_ptr)(o, (spif_memidx_t) I, (spif_memidx_t) C, (spif_byteptr_t) "XY", 2) : F(splice)(o, (spif_memidx_t) I, (spif_memidx_t) C, x);
        const char *site = via_ptr ? CLS "_splice_from_ptr" : CLS "_splice";
        unsigned char exp[32]; int el = n;
        if (spl_ok) { memcpy(exp, text, (size_t) si); memcpy(exp + (int) si, "XY", 2); memcpy(exp + (int) si + 2, text + (int) (si + spc), (size_t) (n - (int) (si + spc))); el = n + 2 - (int) spc; } else memcpy(exp, text, 11);
        if ((r ? 1 : 0) != spl_ok) FAIL(site, spl_ok ? "model:refused" : "model:not-refused", shape, "splice(%lld,%lld) on 11 bytes returned %d", I, C, (int) r);
        if (!o->buff || o->len != el || memcmp(o->buff, exp, (size_t) el) || o->size < o->len) FAIL(site, "model:content", shape, "after splice(%lld,%lld) the buffer has %ld bytes, expected %d (or differs)", I, C, (long) o->len, el);
        F(del)(x); F(del)(o);
    }
    mc_nontrivial();
    mc_outcome((uint64_t) sub_ok * 2 + (uint64_t) spl_ok + idx * 4);
}

/* ------------------------------------------------------------------ long buffers: every operation once on a buffer of n bytes, n around 127/255/256/4096/65536 */
static const int LT[] = { 126, 127, 128, 254, 255, 256, 257, 4094, 4095, 4096, 4097, 32767, 32768, 65534, 65535, 65536, 65537 };
#define NLT ((int) (sizeof LT / sizeof LT[0]))
enum { LO_APP_PTR, LO_PRE_PTR, LO_APP_OBJ, LO_SPLICE_MID, LO_SPLICE_PTR_END, LO_SPLICE_SHRINK, LO_REV, LO_TRIM, LO_SUBBUFF, LO_INDEX, LO_FIND, LO_DUP_CMP, LO_CLEAR, LO_APP_SELF, NLO };
static const char *LON[NLO] = { "append_from_ptr(\"x\\0y\",3)", "prepend_from_ptr(\"x\\0y\",3)", "append(object \"xy\")", "splice(n/2,3,\"ZZZZ\")", "splice_from_ptr(n-2,2,\"wxyz\",4)", "splice(1,n-2,NULL)",
                                "reverse", "trim (bytes wrapped in blanks)", "subbuff(n-3,3) and subbuff(-n,n)", "index/rindex of the last byte", "find of the 3-byte suffix", "dup + cmp", "clear(0xCC)", "append(self)" };
static void lt_desc(uint64_t idx, void *ctx, char *b, size_t n) { (void) ctx; snprintf(b, n, CLS " of %d bytes: %s", LT[idx / NLO], LON[idx % NLO]); }
static void lt_case(uint64_t idx, void *ctx)
{
    int n = LT[idx / NLO], op = (int) (idx % NLO); (void) ctx;
    char shape[48]; snprintf(shape, sizeof shape, "buffer of %s bytes", n < 256 ? "fewer than 256" : (n < 4096 ? "256..4095" : (n < 65536 ? "4096..65535" : "65536 or more")));
    mc_set_shape(shape);
    char site[64]; snprintf(site, sizeof site, CLS "_%.*s", (int) strcspn(LON[op], "( "), LON[op]);
    size_t cap = (size_t) 2 * (size_t) n + 64; unsigned char *m = malloc(cap), *e = malloc(cap);
    for (int i = 0; i < n; i++) m[i] = (unsigned char) (1 + (i * 7 + i / 200) % 200);           /* 1..200: no 0xFE */
    m[n - 1] = 0xFE; m[n / 3] = 0;                                                                   /* a last byte that occurs nowhere else; an embedded NUL */
    if (op == LO_TRIM) { memmove(m + 2, m, (size_t) n - 4); m[0] = ' '; m[1] = '\t'; m[n - 2] = ' '; m[n - 1] = '\n'; if (isspace(m[2])) m[2] = 'x'; if (isspace(m[n - 3])) m[n - 3] = 'x'; }
    unsigned char *h = mc_heapmem(m, (size_t) n);
    T o = F(new_from_ptr)(h, (spif_memidx_t) n); free(h);
    if (!o) { FAIL(site, "model:return", shape, "new_from_ptr returned NULL"); free(m); free(e); return; }
    size_t el = (size_t) n; memcpy(e, m, (size_t) n);
    switch (op) {
    case LO_APP_PTR: F(append_from_ptr)(o, (spif_byteptr_t) "x\0y", 3); memcpy(e + el, "x\0y", 3); el += 3; break;
    case LO_PRE_PTR: F(prepend_from_ptr)(o, (spif_byteptr_t) "x\0y", 3); memmove(e + 3, e, el); memcpy(e, "x\0y", 3); el += 3; break;
    case LO_APP_OBJ: { T x = F(new_from_ptr)((spif_byteptr_t) "xy", 2); F(append)(o, x); F(del)(x); memcpy(e + el, "xy", 2); el += 2; break; }
    case LO_SPLICE_MID: { T x = F(new_from_ptr)((spif_byteptr_t) "ZZZZ", 4); if (!F(splice)(o, (spif_memidx_t) (n / 2), 3, x)) FAIL(site, "model:return", shape, "splice in range refused"); F(del)(x);
        memmove(e + n / 2 + 4, e + n / 2 + 3, el - (size_t) (n / 2 + 3)); memcpy(e + n / 2, "ZZZZ", 4); el += 1; break; }
    case LO_SPLICE_PTR_END: if (!F(splice_from_ptr)(o, (spif_memidx_t) (n - 2), 2, (spif_byteptr_t) "wxyz", 4)) FAIL(site, "model:return", shape, "splice in range refused"); memcpy(e + n - 2, "wxyz", 4); el += 2; break;
    case LO_SPLICE_SHRINK: if (!F(splice)(o, 1, (spif_memidx_t) (n - 2), (T) NULL)) FAIL(site, "model:return", shape, "splice in range refused"); e[1] = e[n - 1]; el = 2; break;
    case LO_REV: F(reverse)(o); for (size_t i = 0, j = el - 1; i < j; i++, j--) { unsigned char t = e[i]; e[i] = e[j]; e[j] = t; } break;
    case LO_TRIM: F(trim)(o); memmove(e, e + 2, el - 4); el -= 4; break;
    case LO_SUBBUFF: { T a = F(subbuff)(o, (spif_memidx_t) (n - 3), 3), b = F(subbuff)(o, (spif_memidx_t) -n, (spif_memidx_t) n);
        if (!a || !a->buff || a->len != 3 || memcmp(a->buff, m + n - 3, 3)) FAIL(site, "model:return", shape, "subbuff(n-3,3) is not the last three bytes");
        if (!b || !b->buff || (int) b->len != n || memcmp(b->buff, m, (size_t) n)) FAIL(site, "model:return", shape, "subbuff(-n,n) is not the whole buffer");
        if (a) F(del)(a); if (b) F(del)(b); break; }
    case LO_INDEX: if ((long) F(index)(o, 0xFE) != n - 1 || (long) F(rindex)(o, 0xFE) != n - 1) FAIL(site, "model:return", shape, "index/rindex of the last byte: %ld / %ld, expected %d", (long) F(index)(o, 0xFE), (long) F(rindex)(o, 0xFE), n - 1);
        if ((long) F(index)(o, 0xFD) != n) FAIL(site, "model:return", shape, "index of an absent byte is %ld, expected the length %d", (long) F(index)(o, 0xFD), n); break;
    case LO_FIND: { long g = (long) F(find_from_ptr)(o, m + n - 3, 3); if (g != n - 3) FAIL(site, "model:return", shape, "find of the suffix is %ld, expected %d", g, n - 3);
        g = (long) F(find_from_ptr)(o, (spif_byteptr_t) "\xfe\xfd", 2); if (g != n) FAIL(site, "model:return", shape, "find of an absent sequence is %ld, expected the length %d", g, n); break; }
    case LO_DUP_CMP: { T d = F(dup)(o); if (!d || d == o) FAIL(site, "model:return", shape, "dup failed"); else { if ((size_t) d->len != el || memcmp(d->buff, e, el)) FAIL(site, "model:bytes", shape, "the copy differs"); if (!SPIF_CMP_IS_EQUAL(F(cmp)(o, d))) FAIL(site, "model:return", shape, "cmp(original, copy) is not EQUAL");
        F(append_from_ptr)(d, (spif_byteptr_t) "z", 1); if (!SPIF_CMP_IS_LESS(F(cmp)(o, d))) FAIL(site, "model:return", shape, "the buffer does not sort before itself + 'z'"); F(del)(d); } break; }
    case LO_CLEAR: F(clear)(o, 0xCC); memset(e, 0xCC, el); break;
    case LO_APP_SELF: F(append)(o, o); memcpy(e + el, e, el); el *= 2; break;
    }
    for (int step = 0; step < 2; step++) {
        const char *what = step ? "after a following append" : "after the operation";
        if (!o->buff) FAIL(site, "model:bytes", shape, "%s: buffer pointer NULL for %zu expected bytes", what, el);
        else if ((size_t) o->len != el) FAIL(site, "model:len", shape, "%s: len=%ld expected %zu", what, (long) o->len, el);
        else if (o->size < o->len || (mc_block_size(o->buff) && (spif_memidx_t) mc_block_size(o->buff) < o->size)) FAIL(site, "invariant:size", shape, "%s: len=%ld size=%ld block=%zu", what, (long) o->len, (long) o->size, mc_block_size(o->buff));
        else if (memcmp(o->buff, e, el)) { size_t d = 0; while (d < el && o->buff[d] == e[d]) d++; FAIL(site, "model:bytes", shape, "%s: bytes differ from the ideal sequence at offset %zu of %zu", what, d, el); }
        if (!step) { F(append_from_ptr)(o, (spif_byteptr_t) "!", 1); e[el++] = '!'; }
    }
    F(del)(o);
    free(m); free(e);
    mc_nontrivial();
    mc_outcome(idx);
}

/* ------------------------------------------------------------------ sprintf: every formatted length up to a bound (internal probe/retry buffers have sizes of their own) */
static void sp_desc(uint64_t idx, void *ctx, char *b, size_t n) { (void) ctx; static const char *f[3] = { "\"%s\" with a string of n characters", "\"%*d\" with width n", "\"<%s>\" with a string of n characters" }; snprintf(b, n, CLS " sprintf(%s), n=%d, then the same on an object that already holds text", f[idx % 3], (int) (idx / 3)); }
static void sp_case(uint64_t idx, void *ctx)
{
    int n = (int) (idx / 3), form = (int) (idx % 3); (void) ctx;
    char *arg = malloc((size_t) n + 1), *exp = malloc((size_t) n + 16);
    for (int i = 0; i < n; i++) arg[i] = (char) ('A' + (i * 11 + i / 64) % 26);
    arg[n] = 0;
    const char *shape = n < 2 ? "formatted length below 2" : (n < 64 ? "formatted length below 64" : (n < 4096 ? "formatted length 64..4095" : "formatted length 4096 or more"));
    mc_set_shape(shape);
    for (int pre = 0; pre < 2; pre++) {
        T o = pre ? F(new_from_ptr)((void *) "previous text", 13) : F(new)();
        spif_bool_t r; size_t el;
        if (form == 0) { r = F(sprintf)(o, (spif_charptr_t) "%s", arg); el = (size_t) sprintf(exp, "%s", arg); }
        else if (form == 1) { r = F(sprintf)(o, (spif_charptr_t) "%*d", n, 7); el = (size_t) sprintf(exp, "%*d", n, 7); }
        else { r = F(sprintf)(o, (spif_charptr_t) "<%s>", arg); el = (size_t) sprintf(exp, "<%s>", arg); }
        if (el == 0) { if (o->buff && o->len) FAIL(CLS "_sprintf", "model:len", shape, "empty result but len=%ld", (long) o->len); }
        else if (!r) FAIL(CLS "_sprintf", "model:return", shape, "sprintf returned FALSE for a %zu-character result", el);
        else if (!o->buff || (size_t) o->len != el || memcmp(o->buff, exp, el) || o->size < o->len) {
            size_t d = 0; while (o->buff && d < el && d < (size_t) o->len && ((unsigned char *) o->buff)[d] == (unsigned char) exp[d]) d++;
            FAIL(CLS "_sprintf", "model:content", shape, "formatted result of %zu characters: len=%ld size=%ld, first difference at offset %zu", el, (long) o->len, (long) o->size, d);
        }
        F(del)(o);
    }
    free(arg); free(exp);
    if (n) mc_nontrivial();
}

/* ---- a splice whose result is larger than 1 MiB, followed by ordinary splices on other objects (what the large one needed is its own business) */
static void ls_desc(uint64_t idx, void *ctx, char *b, size_t n) { (void) ctx; snprintf(b, n, CLS " of %d bytes: splice(1,2,object \"XYZ\") / splice_from_ptr, then splice(1,2,\"XY\") on a 6-byte buffer, both twins", idx ? 3 << 20 : (1 << 20) + 1); }
static void ls_case(uint64_t idx, void *ctx)
{
    size_t n = idx ? (size_t) 3 << 20 : ((size_t) 1 << 20) + 1; (void) ctx; const char *shape = "after a splice of more than 1 MiB"; mc_set_shape(shape);
    unsigned char *big = malloc(n); for (size_t i = 0; i < n; i++) big[i] = (unsigned char) (i * 7 + (i >> 11));
    for (int twin = 0; twin < 2; twin++) {
        T o = F(new_from_ptr)(big, (IDX) n), x = F(new_from_ptr)((spif_byteptr_t) "XYZ", 3);
        spif_bool_t r = twin ? F(splice_from_ptr)(o, 1, 2, (spif_byteptr_t) "XYZ", 3) : F(splice)(o, 1, 2, x);
        if (!r || o->len != (IDX) n + 1 || o->buff[0] != big[0] || memcmp(o->buff + 1, "XYZ", 3) || memcmp(o->buff + 4, big + 3, n - 3)) FAIL(twin ? CLS "_splice_from_ptr" : CLS "_splice", "model:bytes", shape, "the large splice gave a wrong result (len %ld)", (long) o->len);
        F(del)(x); F(del)(o);
        for (int t2 = 0; t2 < 2; t2++) {
            T s6 = F(new_from_ptr)((spif_byteptr_t) "abcdef", 6), y = F(new_from_ptr)((spif_byteptr_t) "XY", 2);
            spif_bool_t r2 = t2 ? F(splice_from_ptr)(s6, 1, 2, (spif_byteptr_t) "XY", 2) : F(splice)(s6, 1, 2, y);
            if (!r2 || s6->len != 6 || !s6->buff || memcmp(s6->buff, "aXYdef", 6)) FAIL(t2 ? CLS "_splice_from_ptr" : CLS "_splice", "model:bytes", shape, "an ordinary splice after the large one gave a wrong result");
            F(del)(y); F(del)(s6);
        }
    }
    free(big);
    mc_nontrivial();
    mc_outcome(idx);
}
/* ---- buffers whose lengths differ by 2^31 and more (plain build: the big block is calloc'ed and never touched): the shorter of two equal-prefix buffers orders first */
static const long long HUGE_DIFF[] = { 2147483647LL, 2147483648LL, 2147483649LL, 4294967296LL, 4294967297LL };
static void hm_desc(uint64_t idx, void *ctx, char *b, size_t n) { (void) ctx; snprintf(b, n, CLS " cmp/comp of a 1-byte buffer {0} with a buffer of 1 + %lld zero bytes, both directions", HUGE_DIFF[idx]); }
static void hm_case(uint64_t idx, void *ctx)
{
    long long bigl = HUGE_DIFF[idx] + 1; (void) ctx; const char *shape = "equal prefix, lengths 2^31 or more apart"; mc_set_shape(shape);
    T a = F(new_from_ptr)((spif_byteptr_t) "\0", 1), b = F(new)();
    void *blk = calloc((size_t) bigl, 1);
    if (!blk) { F(del)(a); F(del)(b); return; }
    b->buff = blk; b->len = (IDX) bigl; b->size = (IDX) bigl;          /* the object takes the block over (del frees it) */
    int ab = cmpv(F(cmp)(a, b)), ba = cmpv(F(cmp)(b, a));
    if (ab != -1 || ba != 1) FAIL(CLS "_cmp", "model:return", shape, "cmp(short,long)=%d cmp(long,short)=%d", ab, ba);
    ab = cmpv(F(comp)(a, b)); ba = cmpv(F(comp)(b, a));
    if (ab != -1 || ba != 1) FAIL(CLS "_comp", "model:return", shape, "comp(short,long)=%d comp(long,short)=%d", ab, ba);
    F(del)(a); F(del)(b);
    mc_nontrivial();
    mc_outcome(idx);
}
/* ------------------------------------------------------------------ find: every haystack and needle over two byte values, so that needles overlap themselves */
#define FO_HMAX 8
#define FO_NMAX 4
static void fo_decode(uint64_t idx, unsigned char *h, int *hl) { int l = 0; uint64_t base = 0; while (idx >= base + (1ull << l)) { base += 1ull << l; l++; } uint64_t v = idx - base; for (int i = 0; i < l; i++) h[i] = (v >> i & 1) ? 0xb1 : 'a'; *hl = l; }
static void fo_desc(uint64_t idx, void *ctx, char *b, size_t n) { unsigned char h[FO_HMAX + 1]; int hl; (void) ctx; fo_decode(idx, h, &hl); size_t k = (size_t) snprintf(b, n, "find / find_from_ptr in the %d-byte buffer \"", hl); for (int i = 0; i < hl; i++) k += (size_t) snprintf(b + k, n - k, "%c", h[i] == 'a' ? 'a' : 'B'); snprintf(b + k, n - k, "\" (B = byte 0xb1) of every needle of <= %d bytes over the same two byte values", FO_NMAX); }
static void fo_case(uint64_t idx, void *ctx)
{
    unsigned char h[FO_HMAX + 1], nd[FO_NMAX + 1]; int hl, nl; (void) ctx; fo_decode(idx, h, &hl);
    unsigned char *hh = mc_heapmem(h, (size_t) hl); T o = F(new_from_ptr)(hh, hl); free(hh); if (!o) return;
    uint64_t oc = 0;
    for (uint64_t j = 1; j < (2ull << FO_NMAX) - 1; j++) {
        fo_decode(j, nd, &nl);
        const unsigned char *p = hl >= nl ? memmem(h, (size_t) hl, nd, (size_t) nl) : NULL; long ex = p ? p - h : hl;
        const char *sh = nl > hl ? "needle longer than buffer" : (p ? "needle present" : "needle absent"); mc_set_shape(sh);
        unsigned char *hn = mc_heapmem(nd, (size_t) nl);
        long g1 = (long) F(find_from_ptr)(o, hn, nl); T on = F(new_from_ptr)(hn, nl); long g2 = on ? (long) F(find)(o, on) : ex; if (on) F(del)(on); free(hn);
        if (g1 != ex) { char t[8]; for (int i = 0; i < nl; i++) t[i] = nd[i] == 'a' ? 'a' : 'B'; t[nl] = 0; FAIL(CLS "_find_from_ptr", "model:return", sh, "find_from_ptr(\"%s\")=%ld expected %ld", t, g1, ex); }
        if (g2 != ex) FAIL(CLS "_find", "model:return", sh, "find(needle %d bytes)=%ld expected %ld", nl, g2, ex);
        oc = oc * 31 + (uint64_t) ex;
    }
    F(del)(o);
    mc_nontrivial();
    mc_outcome(oc);
}
int main(int argc, char **argv)
{
#ifdef VERIF_LEAKRUN
    mc_init("C06", argc, argv);
#else
    mc_init("C07", argc, argv);
#endif
    libast_debug_level = (unsigned) mc_dlevel();        /* --dlevel=N: the whole run at runtime debug level N (default 0) */
    if (mc_arg("only", NULL) && !strcmp(mc_arg("only", ""), "huge")) { mc_e2_level(CLS "_huge_length_difference", 1, 5, hm_case, hm_desc, NULL); return mc_finish(); }
    L = (int) mc_arg_int("L", mc_thorough() ? 5 : 3);
    NS = (int) mc_arg_int("sigma", mc_thorough() ? 4 : 3);
    memcpy(SIG, "\0a \xff", 4);
    build_ops();
    mc_info("alphabet", CLS ": sigma={0x00,'a',0x20%s} L=%d opcodes=%d; probe: index/rindex, find(_from_ptr) incl. empty/absent/over-long needle, subbuff(_to_ptr) window^2, cmp/ncmp/cmp_with_ptr/ncmp_with_ptr, dup, show",
            NS > 3 ? ",0xFF" : "", L, NOPS);
    mc_sys sys = SYS; sys.n_ops = NOPS;
#ifdef VERIF_LEAKRUN
    mc_guarded(CLS, "warm-up: construct, run every query once, delete (one-time stdio/libc allocations must precede the first baseline)", warm, NULL);
#endif
    if (!mc_arg("only", NULL) || !strcmp(mc_arg("only", ""), "e1")) mc_e1_run(&sys, (int) mc_arg_int("depth", 40));
    g_k = (int) mc_arg_int("k", mc_thorough() ? 6 : 4);
    g_dev = (int) mc_arg_int("dev", 2);
    if (!mc_arg("only", NULL) || !strcmp(mc_arg("only", ""), "ctor"))
        mc_e2_level(CLS "_stream_ctor", g_k * 10 + g_dev, (uint64_t) NSRC * NLENS, sc_case, sc_desc, NULL);
    if (!mc_arg("only", NULL)) mc_e2_level(CLS "_extreme_index", 64, (uint64_t) NEXT * NEXT, ex_case, ex_desc, NULL);
    if (!mc_arg("only", NULL)) mc_e2_level(CLS "_find_two_values", FO_HMAX, (2ull << FO_HMAX) - 1, fo_case, fo_desc, NULL);
    if (!mc_arg("only", NULL)) mc_e2_level(CLS "_large_splice", 3 << 20, 2, ls_case, ls_desc, NULL);
    if (!mc_arg("only", NULL)) mc_e2_level(CLS "_long_buffer", 65537, (uint64_t) NLT * NLO, lt_case, lt_desc, NULL);
    if (!mc_arg("only", NULL)) { mc_e2_level(CLS "_stream_history", 1, 30, sh_case, sh_desc, NULL); mc_e2_level(CLS "_fd_hard_error", 1, NHE, he_case, he_desc, NULL); mc_e2_level(CLS "_procfs_file", 1, 1, pf_case, pf_desc, NULL); }
    if (!mc_arg("only", NULL)) { int maxn = (int) mc_arg_int("spmax", mc_thorough() ? 9000 : 4200); mc_e2_level(CLS "_sprintf_len", maxn, (uint64_t) (maxn + 1) * 3, sp_case, sp_desc, NULL); }
    return mc_finish();
}
