/* classes.h — per-class descriptors shared by h_proto.c (C05) and h_own.c (C06):
 * builders for a pool of reachable states, ownership-correct mutators, an observer that
 * renders the observable value, and a teardown.  Every mutator releases what it is handed. */
#ifndef VERIF_CLASSES_H
#define VERIF_CLASSES_H
#include "hcommon.h"

typedef struct cls {
    const char *name;             /* short name used in signatures */
    const char *classname;        /* what type() must return */
    int n_build;
    spif_obj_t (*build)(int i);
    const char *(*build_name)(int i);
    int n_mut;
    void (*mutate)(spif_obj_t o, int j);
    const char *(*mut_name)(int j);
    void (*observe)(spif_obj_t o, char *buf, size_t n);
    int order;                    /* 0 laws only, 1 value order = strcmp of observe() text, 2 byte-sequence order (mbuff), 3 identity order */
    int kind;                     /* container kind for the list/vector/map families, else 0 */
} cls_t;

static spif_obj_t S_(const char *t) { return SPIF_OBJ(spif_str_new_from_ptr((spif_charptr_t) t)); }
static const char *stext(spif_obj_t o) { return (o && SPIF_STR(o)->s) ? (const char *) SPIF_STR(o)->s : (o ? "<E0>" : "<NULL>"); }

/* ------------------------------------------------------------------ str / ustr */
static const char *STRB[] = { "new()", "from_ptr(\"\")", "from_ptr(\"a\")", "from_ptr(\"ab\")", "from_ptr(\"B \")", "from_buff(\"a\",4)", "from_ptr(\"abcdef\")+splice(1,4,NULL)", "from_num(12)", "from_ptr(\"b\")", "from_ptr(\"abc\")", "from_ptr(70000 x 'L')" };
static spif_obj_t str_build(int i)
{
    switch (i) {
    case 0: return SPIF_OBJ(spif_str_new());
    case 1: return S_(""); case 2: return S_("a"); case 3: return S_("ab"); case 4: return S_("B ");
    case 5: return SPIF_OBJ(spif_str_new_from_buff((spif_charptr_t) "a", 4));
    case 6: { spif_str_t s = spif_str_new_from_ptr((spif_charptr_t) "abcdef"); spif_str_splice(s, 1, 4, (spif_str_t) NULL); return SPIF_OBJ(s); }
    case 7: return SPIF_OBJ(spif_str_new_from_num(12));
    case 8: return S_("b");
    case 10: { char *b = malloc(70001); memset(b, 'L', 70000); b[70000] = 0; spif_obj_t o = S_(b); free(b); return o; }
    default: return S_("abc");
    }
}
static const char *str_bname(int i) { return STRB[i]; }
static const char *STRM[] = { "append_char('x')", "prepend_from_ptr(\"zz\")", "clear('y')", "reverse()", "done()", "trim()" };
static void str_mut(spif_obj_t o, int j)
{
    spif_str_t s = SPIF_STR(o);
    switch (j) {
    case 0: spif_str_append_char(s, 'x'); break;
    case 1: spif_str_prepend_from_ptr(s, (spif_charptr_t) "zz"); break;
    case 2: spif_str_clear(s, 'y'); break;
    case 3: spif_str_reverse(s); break;
    case 4: spif_str_done(s); break;
    case 5: spif_str_trim(s); break;
    }
}
static const char *str_mname(int j) { return STRM[j]; }
static void str_obs(spif_obj_t o, char *b, size_t n) { spif_str_t s = SPIF_STR(o); char e[200]; if (s->s) mc_esc(s->s, (size_t) s->len, e, sizeof e); snprintf(b, n, "%s|len=%ld", s->s ? e : "", (long) s->len); }

static spif_obj_t U_(const char *t) { return SPIF_OBJ(spif_ustr_new_from_ptr((spif_charptr_t) t)); }
static spif_obj_t ustr_build(int i)
{
    switch (i) {
    case 0: return SPIF_OBJ(spif_ustr_new());
    case 1: return U_(""); case 2: return U_("a"); case 3: return U_("ab"); case 4: return U_("B ");
    case 5: return SPIF_OBJ(spif_ustr_new_from_buff((spif_charptr_t) "a", 4));
    case 6: { spif_ustr_t s = spif_ustr_new_from_ptr((spif_charptr_t) "abcdef"); spif_ustr_splice(s, 1, 4, (spif_ustr_t) NULL); return SPIF_OBJ(s); }
    case 7: return SPIF_OBJ(spif_ustr_new_from_num(12));
    case 8: return U_("b");
    case 10: { char *b = malloc(70001); memset(b, 'L', 70000); b[70000] = 0; spif_obj_t o = U_(b); free(b); return o; }
    default: return U_("abc");
    }
}
static void ustr_mut(spif_obj_t o, int j)
{
    spif_ustr_t s = (spif_ustr_t) o;
    switch (j) {
    case 0: spif_ustr_append_char(s, 'x'); break;
    case 1: spif_ustr_prepend_from_ptr(s, (spif_charptr_t) "zz"); break;
    case 2: spif_ustr_clear(s, 'y'); break;
    case 3: spif_ustr_reverse(s); break;
    case 4: spif_ustr_done(s); break;
    case 5: spif_ustr_trim(s); break;
    }
}
static void ustr_obs(spif_obj_t o, char *b, size_t n) { spif_ustr_t s = (spif_ustr_t) o; char e[200]; if (s->s) mc_esc(s->s, (size_t) s->len, e, sizeof e); snprintf(b, n, "%s|len=%ld", s->s ? e : "", (long) s->len); }

/* ------------------------------------------------------------------ mbuff */
static const char *MBB[] = { "new()", "from_ptr(\"\",0)", "from_ptr(\"a\",1)", "from_ptr(\"a\\0b\",3)", "from_buff(\"a\",1,4)", "from_ptr(\"abcdef\",6)+splice(1,4,NULL)", "from_ptr(\"ab\",2)", "from_ptr(\"abc\",3)", "from_ptr(\"b\",1)", "from_ptr(70000 x 0x4c)" };
static spif_obj_t mb_build(int i)
{
    switch (i) {
    case 0: return SPIF_OBJ(spif_mbuff_new());
    case 1: return SPIF_OBJ(spif_mbuff_new_from_ptr((spif_byteptr_t) "", 0));
    case 2: return SPIF_OBJ(spif_mbuff_new_from_ptr((spif_byteptr_t) "a", 1));
    case 3: return SPIF_OBJ(spif_mbuff_new_from_ptr((spif_byteptr_t) "a\0b", 3));
    case 4: return SPIF_OBJ(spif_mbuff_new_from_buff((spif_byteptr_t) "a", 1, 4));
    case 5: { spif_mbuff_t m = spif_mbuff_new_from_ptr((spif_byteptr_t) "abcdef", 6); spif_mbuff_splice(m, 1, 4, (spif_mbuff_t) NULL); return SPIF_OBJ(m); }
    case 6: return SPIF_OBJ(spif_mbuff_new_from_ptr((spif_byteptr_t) "ab", 2));
    case 7: return SPIF_OBJ(spif_mbuff_new_from_ptr((spif_byteptr_t) "abc", 3));
    case 9: { unsigned char *b = malloc(70000); memset(b, 'L', 70000); spif_obj_t o = SPIF_OBJ(spif_mbuff_new_from_ptr(b, 70000)); free(b); return o; }
    default: return SPIF_OBJ(spif_mbuff_new_from_ptr((spif_byteptr_t) "b", 1));
    }
}
static const char *mb_bname(int i) { return MBB[i]; }
static const char *MBM[] = { "append_from_ptr(\"x\\0\",2)", "prepend_from_ptr(\"zz\",2)", "clear('y')", "reverse()", "done()", "trim()" };
static void mb_mut(spif_obj_t o, int j)
{
    spif_mbuff_t m = (spif_mbuff_t) o;
    switch (j) {
    case 0: spif_mbuff_append_from_ptr(m, (spif_byteptr_t) "x\0", 2); break;
    case 1: spif_mbuff_prepend_from_ptr(m, (spif_byteptr_t) "zz", 2); break;
    case 2: spif_mbuff_clear(m, 'y'); break;
    case 3: spif_mbuff_reverse(m); break;
    case 4: spif_mbuff_done(m); break;
    case 5: spif_mbuff_trim(m); break;
    }
}
static const char *mb_mname(int j) { return MBM[j]; }
static void mb_obs(spif_obj_t o, char *b, size_t n) { spif_mbuff_t m = (spif_mbuff_t) o; char e[200]; if (m->buff) mc_esc(m->buff, (size_t) m->len, e, sizeof e); snprintf(b, n, "%s|len=%ld", m->buff ? e : "", (long) m->len); }

/* ------------------------------------------------------------------ objpair */
static const char *OPB[] = { "new()", "from_key(a)", "from_value(1)", "from_both(a,1)", "from_both(b,2)+set_key(a)", "from_both(b,1)" };
static spif_obj_t op_build(int i)
{
    spif_obj_t k = S_("a"), v = S_("1"), k2 = S_("b"), v2 = S_("2"); spif_objpair_t p = NULL;
    switch (i) {
    case 0: p = spif_objpair_new(); break;
    case 1: p = spif_objpair_new_from_key(k); break;
    case 2: p = spif_objpair_new_from_value(v); break;
    case 3: p = spif_objpair_new_from_both(k, v); break;
    case 4: p = spif_objpair_new_from_both(k2, v2); spif_objpair_set_key(p, S_("a")); break;
    default: p = spif_objpair_new_from_both(k2, v); break;
    }
    SPIF_OBJ_DEL(k); SPIF_OBJ_DEL(v); SPIF_OBJ_DEL(k2); SPIF_OBJ_DEL(v2);
    return SPIF_OBJ(p);
}
static const char *op_bname(int i) { return OPB[i]; }
static const char *OPM[] = { "set_key(new \"k\")", "set_value(new \"v\")", "done()", "mutate key in place", "refused constructions new_from_both(k,NULL), new_from_both(NULL,v)" };
static void op_mut(spif_obj_t o, int j)
{
    spif_objpair_t p = SPIF_OBJPAIR(o);
    switch (j) {
    case 0: spif_objpair_set_key(p, S_("k")); break;
    case 1: spif_objpair_set_value(p, S_("v")); break;
    case 2: spif_objpair_done(p); break;
    case 3: if (p->key) spif_str_append_char(SPIF_STR(p->key), '!'); break;
    case 4: { if (DEBUG_LEVEL >= 1) break;                        /* a failed ASSERT is fatal there (C20), by design */
              spif_obj_t k = S_("k"); spif_objpair_t a = spif_objpair_new_from_both(k, (spif_obj_t) NULL), b = spif_objpair_new_from_both((spif_obj_t) NULL, k);   /* both refused at debug level 0 */
              if (a) spif_objpair_del(a); if (b) spif_objpair_del(b); SPIF_OBJ_DEL(k); break; }
    }
}
static const char *op_mname(int j) { return OPM[j]; }
static void op_obs(spif_obj_t o, char *b, size_t n) { spif_objpair_t p = SPIF_OBJPAIR(o); snprintf(b, n, "key=%s value=%s", stext(p->key), stext(p->value)); }

/* ------------------------------------------------------------------ tok */
static const char *TKB[] = { "new()", "from_ptr(\"a b\")", "from_ptr(\"a b\")+eval", "from_ptr(\"a,b c\")+set_sep(\",\")+eval", "from_ptr(\"\")+eval", "from_ptr(\"b\")",
                             "from_ptr(\"a b\")+eval+set_sep(\",\") (not evaluated again)", "from_ptr(\"a b\")+eval+set_src(\"x y z\") (not evaluated again)", "new_from_fp(a stream at end of file)" };
static spif_obj_t tk_build(int i)
{
    spif_tok_t t;
    switch (i) {
    case 0: return SPIF_OBJ(spif_tok_new());
    case 1: return SPIF_OBJ(spif_tok_new_from_ptr((spif_charptr_t) "a b"));
    case 2: t = spif_tok_new_from_ptr((spif_charptr_t) "a b"); spif_tok_eval(t); return SPIF_OBJ(t);
    case 3: t = spif_tok_new_from_ptr((spif_charptr_t) "a,b c"); spif_tok_set_sep(t, spif_str_new_from_ptr((spif_charptr_t) ",")); spif_tok_eval(t); return SPIF_OBJ(t);
    case 4: t = spif_tok_new_from_ptr((spif_charptr_t) ""); spif_tok_eval(t); return SPIF_OBJ(t);
    case 6: t = spif_tok_new_from_ptr((spif_charptr_t) "a b"); spif_tok_eval(t); spif_tok_set_sep(t, spif_str_new_from_ptr((spif_charptr_t) ",")); return SPIF_OBJ(t);
    case 7: t = spif_tok_new_from_ptr((spif_charptr_t) "a b"); spif_tok_eval(t); spif_tok_set_src(t, spif_str_new_from_ptr((spif_charptr_t) "x y z")); return SPIF_OBJ(t);
    case 8: { FILE *f = fopen("/dev/null", "r"); t = f ? spif_tok_new_from_fp(f) : (spif_tok_t) NULL; if (f) fclose(f); if (!t) t = spif_tok_new(); return SPIF_OBJ(t); }       /* nothing to read: an object without text, or none at all (then a plain new one stands in; what the refused constructor left behind shows in the heap) */
    default: return SPIF_OBJ(spif_tok_new_from_ptr((spif_charptr_t) "b"));
    }
}
static const char *tk_bname(int i) { return TKB[i]; }
static const char *TKM[] = { "eval()", "set_sep(new \";\")", "set_src(new \"x;y z\")", "done()", "set_src(NULL)", "set_src(NULL), then eval() (refused)" };
static void tk_mut(spif_obj_t o, int j)
{
    spif_tok_t t = SPIF_TOK(o);
    switch (j) {
    case 0: spif_tok_eval(t); break;
    case 1: spif_tok_set_sep(t, spif_str_new_from_ptr((spif_charptr_t) ";")); break;
    case 2: spif_tok_set_src(t, spif_str_new_from_ptr((spif_charptr_t) "x;y z")); break;
    case 3: spif_tok_done(t); break;
    case 4: spif_tok_set_src(t, (spif_str_t) NULL); break;                 /* the setter deletes the old source; an eval is then refused */
    case 5: spif_tok_set_src(t, (spif_str_t) NULL); spif_tok_eval(t); break;
    }
}
static const char *tk_mname(int j) { return TKM[j]; }
static void tk_obs(spif_obj_t o, char *b, size_t n)
{
    spif_tok_t t = SPIF_TOK(o); size_t k = 0;
    k += (size_t) snprintf(b, n, "src=%s sep=%s tokens=", stext(SPIF_OBJ(t->src)), stext(SPIF_OBJ(t->sep)));
    if (!t->tokens) { snprintf(b + k, n - k, "<none>"); return; }
    int c = (int) SPIF_LIST_COUNT(t->tokens);
    for (int i = 0; i < c && k + 40 < n; i++) k += (size_t) snprintf(b + k, n - k, "[%s]", stext(SPIF_LIST_GET(t->tokens, i)));
}

/* ------------------------------------------------------------------ url */
static const char *URB[] = { "new()", "from_ptr(\"http://u:p@h:8/p?q\")", "from_ptr(\"h\")", "from_ptr(\"/path\")", "from_ptr(\"zz://host/x\")", "from_ptr(\"\")", "from_ptr(\"http://h:8/p\")+unparse",
                             "from_ptr(\"h:8\")+set_host(new \"g\")+unparse", "from_ptr(\"h:8/p\")+set_host(new \"g\")", "from_ptr(\"u@h\")", "from_ptr(\"b\")", "from_ptr(\"/pub/f\")+set_port(new \"21\") (a port without a host)", "from_ptr(\"http://h:/p\") (a colon and no port, a scheme the service database knows)",
                             "from_ptr(\"HTTP://x.org/\")", "from_ptr(\"Zebra/readme\")", "from_ptr(\"ftp://x.org/\")",
                             "new()+set_proto(\"http\")+set_host(\"a\")+set_path(\"/x\") (components, no text)", "from_ptr(\"http://a/x\")", "from_ptr(\"http://a.b/x\")" };      /* the last three: text order and scheme order disagree (capital scheme, a scheme-less text in between) */
static spif_obj_t ur_build(int i)
{
    spif_url_t u;
    switch (i) {
    case 0: return SPIF_OBJ(spif_url_new());
    case 1: return SPIF_OBJ(spif_url_new_from_ptr((spif_charptr_t) "http://u:p@h:8/p?q"));
    case 2: return SPIF_OBJ(spif_url_new_from_ptr((spif_charptr_t) "h"));
    case 3: return SPIF_OBJ(spif_url_new_from_ptr((spif_charptr_t) "/path"));
    case 4: return SPIF_OBJ(spif_url_new_from_ptr((spif_charptr_t) "zz://host/x"));
    case 5: return SPIF_OBJ(spif_url_new_from_ptr((spif_charptr_t) ""));
    case 6: u = spif_url_new_from_ptr((spif_charptr_t) "http://h:8/p"); spif_url_unparse(u); return SPIF_OBJ(u);
    case 7: u = spif_url_new_from_ptr((spif_charptr_t) "h:8"); spif_url_set_host(u, spif_str_new_from_ptr((spif_charptr_t) "g")); spif_url_unparse(u); return SPIF_OBJ(u);
    case 8: u = spif_url_new_from_ptr((spif_charptr_t) "h:8/p"); spif_url_set_host(u, spif_str_new_from_ptr((spif_charptr_t) "g")); return SPIF_OBJ(u);
    case 9: return SPIF_OBJ(spif_url_new_from_ptr((spif_charptr_t) "u@h"));
    case 11: u = spif_url_new_from_ptr((spif_charptr_t) "/pub/f"); spif_url_set_port(u, spif_str_new_from_ptr((spif_charptr_t) "21")); return SPIF_OBJ(u);
    case 12: return SPIF_OBJ(spif_url_new_from_ptr((spif_charptr_t) "http://h:/p"));
    case 13: return SPIF_OBJ(spif_url_new_from_ptr((spif_charptr_t) "HTTP://x.org/"));
    case 14: return SPIF_OBJ(spif_url_new_from_ptr((spif_charptr_t) "Zebra/readme"));
    case 15: return SPIF_OBJ(spif_url_new_from_ptr((spif_charptr_t) "ftp://x.org/"));
    case 16: u = spif_url_new(); spif_url_set_proto(u, spif_str_new_from_ptr((spif_charptr_t) "http")); spif_url_set_host(u, spif_str_new_from_ptr((spif_charptr_t) "a")); spif_url_set_path(u, spif_str_new_from_ptr((spif_charptr_t) "/x")); return SPIF_OBJ(u);      /* 16..18: text order and component order disagree ('/' sorts after '.') */
    case 17: return SPIF_OBJ(spif_url_new_from_ptr((spif_charptr_t) "http://a/x"));
    case 18: return SPIF_OBJ(spif_url_new_from_ptr((spif_charptr_t) "http://a.b/x"));
    default: return SPIF_OBJ(spif_url_new_from_ptr((spif_charptr_t) "b"));
    }
}
static const char *ur_bname(int i) { return URB[i]; }
static const char *URM[] = { "set_host(new \"k\")", "set_path(new \"/z\")", "unparse()", "done()" };
static void ur_mut(spif_obj_t o, int j)
{
    spif_url_t u = SPIF_URL(o);
    switch (j) {
    case 0: spif_url_set_host(u, spif_str_new_from_ptr((spif_charptr_t) "k")); break;
    case 1: spif_url_set_path(u, spif_str_new_from_ptr((spif_charptr_t) "/z")); break;
    case 2: spif_url_unparse(u); break;
    case 3: spif_url_done(u); break;
    }
}
static const char *ur_mname(int j) { return URM[j]; }
static void ur_obs(spif_obj_t o, char *b, size_t n)
{
    spif_url_t u = SPIF_URL(o);
    snprintf(b, n, "%s|proto=%s user=%s passwd=%s host=%s port=%s path=%s query=%s", stext(o), stext(SPIF_OBJ(u->proto)), stext(SPIF_OBJ(u->user)), stext(SPIF_OBJ(u->passwd)),
             stext(SPIF_OBJ(u->host)), stext(SPIF_OBJ(u->port)), stext(SPIF_OBJ(u->path)), stext(SPIF_OBJ(u->query)));
}

/* ------------------------------------------------------------------ regexp */
static const char *REB[] = { "from_ptr(\"a.c\")+compile", "from_ptr(\"A.C\")+set_flags(\"i\")+compile", "from_ptr(\"b+\")+compile", "from_ptr(\"a.c\") (not compiled)", "from_ptr(\"ab(cd\") (a pattern the engine rejects)" };
static spif_obj_t re_build(int i)
{
    spif_regexp_t r;
    switch (i) {
    case 0: r = spif_regexp_new_from_ptr((spif_charptr_t) "a.c"); spif_regexp_compile(r); return SPIF_OBJ(r);
    case 1: r = spif_regexp_new_from_ptr((spif_charptr_t) "A.C"); spif_regexp_set_flags(r, (spif_charptr_t) "i"); spif_regexp_compile(r); return SPIF_OBJ(r);
    case 2: r = spif_regexp_new_from_ptr((spif_charptr_t) "b+"); spif_regexp_compile(r); return SPIF_OBJ(r);
    case 4: return SPIF_OBJ(spif_regexp_new_from_ptr((spif_charptr_t) "ab(cd"));
    default: return SPIF_OBJ(spif_regexp_new_from_ptr((spif_charptr_t) "a.c"));
    }
}
static const char *re_bname(int i) { return REB[i]; }
static const char *REM[] = { "set_flags(\"i\")+compile", "compile()", "done()+init_from_ptr(\"z\")+compile" };
static void re_mut(spif_obj_t o, int j)
{
    spif_regexp_t r = SPIF_REGEXP(o);
    switch (j) {
    case 0: spif_regexp_set_flags(r, (spif_charptr_t) "i"); spif_regexp_compile(r); break;
    case 1: spif_regexp_compile(r); break;
    case 2: spif_regexp_done(r); spif_regexp_init_from_ptr(r, (spif_charptr_t) "z"); spif_regexp_compile(r); break;
    }
}
static const char *re_mname(int j) { return REM[j]; }
static void re_obs(spif_obj_t o, char *b, size_t n)
{
    spif_regexp_t r = SPIF_REGEXP(o);
    /* the compiled program is not part of the value (dup compiles its copy); matching is observed on compiled objects only */
    if (r->data) snprintf(b, n, "%s|flags=%d|m=%d%d%d", stext(o), r->flags, (int) spif_regexp_matches_ptr(r, (spif_charptr_t) "abc"), (int) spif_regexp_matches_ptr(r, (spif_charptr_t) "ABC"), (int) spif_regexp_matches_ptr(r, (spif_charptr_t) "bb"));
    else snprintf(b, n, "%s|flags=%d|m=?", stext(o), r->flags);
}

/* ------------------------------------------------------------------ containers */
enum { KIND_LIST = 1, KIND_VECTOR, KIND_MAP };
static int g_family;              /* 0 array, 1 linked_list, 2 dlinked_list — set by the caller before using a container class */
static spif_obj_t new_container(int kind)
{
    switch (kind * 3 + g_family) {
    case 3: return SPIF_LIST_NEW(array); case 4: return SPIF_LIST_NEW(linked_list); case 5: return SPIF_LIST_NEW(dlinked_list);
    case 6: return SPIF_VECTOR_NEW(array); case 7: return SPIF_VECTOR_NEW(linked_list); case 8: return SPIF_VECTOR_NEW(dlinked_list);
    case 9: return SPIF_MAP_NEW(array); case 10: return SPIF_MAP_NEW(linked_list); default: return SPIF_MAP_NEW(dlinked_list);
    }
}
static const char *LSB[] = { "[]", "[a]", "[a,b]", "[b,a,a]", "[a,-,b] (insert_at beyond the end)", "[-,a]", "[a,b,c]", "[url http://h/p, a] (an element that is not a plain string)", "[300 elements e000..e299]" };
static spif_obj_t ls_build(int i)
{
    spif_list_t l = new_container(KIND_LIST);
    switch (i) {
    case 1: SPIF_LIST_APPEND(l, S_("a")); break;
    case 2: SPIF_LIST_APPEND(l, S_("a")); SPIF_LIST_APPEND(l, S_("b")); break;
    case 3: SPIF_LIST_APPEND(l, S_("a")); SPIF_LIST_APPEND(l, S_("a")); SPIF_LIST_PREPEND(l, S_("b")); break;
    case 4: SPIF_LIST_APPEND(l, S_("a")); SPIF_LIST_INSERT_AT(l, S_("b"), 2); break;
    case 5: SPIF_LIST_INSERT_AT(l, S_("a"), 1); break;
    case 6: SPIF_LIST_APPEND(l, S_("a")); SPIF_LIST_APPEND(l, S_("b")); SPIF_LIST_APPEND(l, S_("c")); break;
    case 8: for (int k = 0; k < 300; k++) { char t[8]; snprintf(t, sizeof t, "e%03d", k); SPIF_LIST_APPEND(l, S_(t)); } break;
    case 7: SPIF_LIST_APPEND(l, SPIF_OBJ(spif_url_new_from_ptr((spif_charptr_t) "http://h/p"))); SPIF_LIST_APPEND(l, S_("a")); break;
    }
    return l;
}
static const char *ls_bname(int i) { return LSB[i]; }
static const char *LSM[] = { "append(new x)", "prepend(new y)", "insert_at(new z, count+1)", "remove_at(0)+del", "reverse()", "remove(a)+del", "mutate first element in place", "to_array+free", "iterator walk+del", "remove_at(count-1)+del", "remove_at(count-1)+del, then append(new w)", "done(), then append(new w)", "insert_at(NULL, count+5) (refused by the array class), then append(new w)" };
static void ls_mut(spif_obj_t l, int j)
{
    spif_obj_t r, p;
    switch (j) {
    case 0: SPIF_LIST_APPEND(l, S_("x")); break;
    case 1: SPIF_LIST_PREPEND(l, S_("y")); break;
    case 2: SPIF_LIST_INSERT_AT(l, S_("z"), (spif_listidx_t) SPIF_LIST_COUNT(l) + 1); break;
    case 3: r = SPIF_LIST_REMOVE_AT(l, 0); if (r) SPIF_OBJ_DEL(r); break;
    case 4: SPIF_LIST_REVERSE(l); break;
    case 5: p = S_("a"); r = SPIF_LIST_REMOVE(l, p); SPIF_OBJ_DEL(p); if (r) SPIF_OBJ_DEL(r); break;
    case 6: r = SPIF_LIST_GET(l, 0); if (r) spif_str_append_char(SPIF_STR(r), '!'); break;
    case 7: { spif_obj_t *a = SPIF_LIST_TO_ARRAY(l); if (a) FREE(a); break; }
    case 8: { spif_iterator_t it = SPIF_LIST_ITERATOR(l); int g = 0; while (it && SPIF_ITERATOR_HAS_NEXT(it) && g++ < 64) (void) SPIF_ITERATOR_NEXT(it); if (it) SPIF_ITERATOR_DEL(it); break; }
    case 9: if (SPIF_LIST_COUNT(l)) { r = SPIF_LIST_REMOVE_AT(l, (spif_listidx_t) SPIF_LIST_COUNT(l) - 1); if (r) SPIF_OBJ_DEL(r); } break;
    case 10: if (SPIF_LIST_COUNT(l)) { r = SPIF_LIST_REMOVE_AT(l, (spif_listidx_t) SPIF_LIST_COUNT(l) - 1); if (r) SPIF_OBJ_DEL(r); } SPIF_LIST_APPEND(l, S_("w")); break;
    case 11: SPIF_LIST_DONE(l); SPIF_LIST_APPEND(l, S_("w")); break;
    case 12: if (g_family == 0 && DEBUG_LEVEL < 1) { SPIF_LIST_INSERT_AT(l, (spif_obj_t) NULL, (spif_listidx_t) SPIF_LIST_COUNT(l) + 5); SPIF_LIST_APPEND(l, S_("w")); } break;       /* the linked families store a NULL element; only array refuses it */
    }
}
static const char *ls_mname(int j) { return LSM[j]; }
static void ls_obs(spif_obj_t l, char *b, size_t n)
{
    size_t k = 0; int c = (int) SPIF_LIST_COUNT(l);
    k += (size_t) snprintf(b, n, "n=%d:", c);
    for (int i = 0; i < c && k + 40 < n; i++) { spif_obj_t e = SPIF_LIST_GET(l, i); k += (size_t) snprintf(b + k, n - k, "[%s]", e ? stext(e) : "-"); }
}
static const char *VCB[] = { "{}", "{b}", "{b,d}", "{b,b,d}", "{d,f}", "{300 elements e000..e299}" };
static spif_obj_t vc_build(int i)
{
    spif_vector_t v = new_container(KIND_VECTOR);
    switch (i) {
    case 1: SPIF_VECTOR_INSERT(v, S_("b")); break;
    case 2: SPIF_VECTOR_INSERT(v, S_("d")); SPIF_VECTOR_INSERT(v, S_("b")); break;
    case 3: SPIF_VECTOR_INSERT(v, S_("b")); SPIF_VECTOR_INSERT(v, S_("d")); SPIF_VECTOR_INSERT(v, S_("b")); break;
    case 4: SPIF_VECTOR_INSERT(v, S_("f")); SPIF_VECTOR_INSERT(v, S_("d")); break;
    case 5: for (int k = 0; k < 300; k++) { char t[8]; snprintf(t, sizeof t, "e%03d", (k * 7) % 300); SPIF_VECTOR_INSERT(v, S_(t)); } break;
    }
    return v;
}
static const char *vc_bname(int i) { return VCB[i]; }
static const char *VCM[] = { "insert(new c)", "insert(new z)", "remove(b)+del", "remove(absent)+del", "to_array+free", "iterator walk+del", "remove(greatest)+del, then insert(new zz)", "done(), then insert(new c)" };
static void vc_mut(spif_obj_t v, int j)
{
    spif_obj_t p, r;
    switch (j) {
    case 0: SPIF_VECTOR_INSERT(v, S_("c")); break;
    case 1: SPIF_VECTOR_INSERT(v, S_("z")); break;
    case 2: p = S_("b"); r = SPIF_VECTOR_REMOVE(v, p); SPIF_OBJ_DEL(p); if (r) SPIF_OBJ_DEL(r); break;
    case 3: p = S_("q"); r = SPIF_VECTOR_REMOVE(v, p); SPIF_OBJ_DEL(p); if (r) SPIF_OBJ_DEL(r); break;
    case 4: { spif_obj_t *a = SPIF_VECTOR_TO_ARRAY(v); if (a) FREE(a); break; }
    case 5: { spif_iterator_t it = SPIF_VECTOR_ITERATOR(v); int g = 0; while (it && SPIF_ITERATOR_HAS_NEXT(it) && g++ < 64) (void) SPIF_ITERATOR_NEXT(it); if (it) SPIF_ITERATOR_DEL(it); break; }
    case 6: { int c = (int) SPIF_VECTOR_COUNT(v); spif_obj_t *a = c ? SPIF_VECTOR_TO_ARRAY(v) : NULL;
              if (a) { p = SPIF_OBJ_DUP(a[c - 1]); FREE(a); r = SPIF_VECTOR_REMOVE(v, p); SPIF_OBJ_DEL(p); if (r) SPIF_OBJ_DEL(r); }
              SPIF_VECTOR_INSERT(v, S_("zz")); break; }
    case 7: SPIF_VECTOR_DONE(v); SPIF_VECTOR_INSERT(v, S_("c")); break;
    }
}
static const char *vc_mname(int j) { return VCM[j]; }
static void vc_obs(spif_obj_t v, char *b, size_t n)
{
    size_t k = 0; int c = (int) SPIF_VECTOR_COUNT(v); spif_obj_t *a = c ? SPIF_VECTOR_TO_ARRAY(v) : NULL;
    k += (size_t) snprintf(b, n, "n=%d:", c);
    for (int i = 0; a && i < c && k + 40 < n; i++) k += (size_t) snprintf(b + k, n - k, "[%s]", stext(a[i]));
    if (a) FREE(a);
}
static const char *MPB[] = { "{}", "{a=1}", "{a=1,b=2}", "{a=2,b=1,c=1} (a overwritten)", "{b=1}", "{300 keys e000..e299 and a=1}" };
static void mset(spif_map_t m, const char *k, const char *v) { spif_obj_t K = S_(k), V = S_(v); SPIF_MAP_SET(m, K, V); SPIF_OBJ_DEL(K); SPIF_OBJ_DEL(V); }
static spif_obj_t mp_build(int i)
{
    spif_map_t m = new_container(KIND_MAP);
    switch (i) {
    case 1: mset(m, "a", "1"); break;
    case 2: mset(m, "b", "2"); mset(m, "a", "1"); break;
    case 3: mset(m, "a", "1"); mset(m, "c", "1"); mset(m, "b", "1"); mset(m, "a", "2"); break;
    case 4: mset(m, "b", "1"); break;
    case 5: for (int k = 0; k < 300; k++) { char t[8]; snprintf(t, sizeof t, "e%03d", (k * 7) % 300); mset(m, t, "v"); } mset(m, "a", "1"); break;
    }
    return m;
}
static const char *mp_bname(int i) { return MPB[i]; }
static const char *MPM[] = { "set(a,9)", "set(z,1)", "remove(a)+del", "remove(absent)", "get_keys+del", "get_values+del", "get_pairs+del", "mutate value of a in place", "iterator walk+del",
                             "set(a, the map's own value object of a)", "set(the map's own first pair, NULL)", "set(new key nq, NULL) (array family: refused)", "remove(greatest key)+del, then set(zz,1)", "set(caller-owned pair (n,1), NULL), then delete the caller's pair", "done(), then set(a,7)" };
static void mp_mut(spif_obj_t m, int j)
{
    spif_obj_t K, r; spif_list_t l;
    switch (j) {
    case 0: mset(m, "a", "9"); break;
    case 1: mset(m, "z", "1"); break;
    case 2: K = S_("a"); r = SPIF_MAP_REMOVE(m, K); SPIF_OBJ_DEL(K); if (r) SPIF_OBJ_DEL(r); break;
    case 3: K = S_("q"); r = SPIF_MAP_REMOVE(m, K); SPIF_OBJ_DEL(K); if (r) SPIF_OBJ_DEL(r); break;
    case 4: case 5: case 6:          /* into a list the map makes, and into the caller's list of each list class (which holds an element of the caller's already) */
        for (int lc = -1; lc < 3; lc++) {
            spif_list_t mine = lc < 0 ? (spif_list_t) NULL : (lc == 0 ? SPIF_LIST_NEW(array) : (lc == 1 ? SPIF_LIST_NEW(linked_list) : SPIF_LIST_NEW(dlinked_list)));
            if (mine) SPIF_LIST_APPEND(mine, S_("own"));
            l = j == 4 ? SPIF_MAP_GET_KEYS(m, mine) : (j == 5 ? SPIF_MAP_GET_VALUES(m, mine) : SPIF_MAP_GET_PAIRS(m, mine));
            if (l) SPIF_LIST_DEL(l); else if (mine) SPIF_LIST_DEL(mine);
        }
        break;
    case 7: K = S_("a"); r = SPIF_MAP_GET(m, K); SPIF_OBJ_DEL(K); if (r) spif_str_append_char(SPIF_STR(r), '!'); break;
    case 8: { spif_iterator_t it = SPIF_MAP_ITERATOR(m); int g = 0; while (it && SPIF_ITERATOR_HAS_NEXT(it) && g++ < 64) (void) SPIF_ITERATOR_NEXT(it); if (it) SPIF_ITERATOR_DEL(it); break; }
    case 9: K = S_("a"); r = SPIF_MAP_GET(m, K); if (r) SPIF_MAP_SET(m, K, r); SPIF_OBJ_DEL(K); break;          /* the map copies what it is given, so its own value object is a legal argument */
    case 10: { spif_iterator_t it = SPIF_MAP_ITERATOR(m); spif_obj_t p = (it && SPIF_ITERATOR_HAS_NEXT(it)) ? SPIF_ITERATOR_NEXT(it) : NULL; if (it) SPIF_ITERATOR_DEL(it); if (p) SPIF_MAP_SET(m, p, (spif_obj_t) NULL); break; }
    case 12: { spif_list_t ks = SPIF_MAP_GET_KEYS(m, (spif_list_t) NULL); int c = ks ? (int) SPIF_LIST_COUNT(ks) : 0;
               if (c) { K = SPIF_OBJ_DUP(SPIF_LIST_GET(ks, c - 1)); r = SPIF_MAP_REMOVE(m, K); SPIF_OBJ_DEL(K); if (r) SPIF_OBJ_DEL(r); }
               if (ks) SPIF_LIST_DEL(ks);
               mset(m, "zz", "1"); break; }
    case 13: { spif_obj_t k = S_("n"), v = S_("1"); spif_objpair_t pr = spif_objpair_new_from_both(k, v); SPIF_OBJ_DEL(k); SPIF_OBJ_DEL(v);      /* the map copies a ready-made pair like anything else */
               if (pr) { SPIF_MAP_SET(m, SPIF_OBJ(pr), (spif_obj_t) NULL); spif_str_append_char(SPIF_STR(pr->value), '!'); spif_objpair_del(pr); } break; }
    case 14: SPIF_MAP_DONE(m); mset(m, "a", "7"); break;
    case 11: if (g_family == 0 && DEBUG_LEVEL < 1) { K = S_("nq"); SPIF_MAP_SET(m, K, (spif_obj_t) NULL); SPIF_OBJ_DEL(K); } break;       /* the list families store the NULL pair; only array refuses it */
    }
}
static const char *mp_mname(int j) { return MPM[j]; }
static void mp_obs(spif_obj_t m, char *b, size_t n)
{
    size_t k = 0; int c = (int) SPIF_MAP_COUNT(m);
    k += (size_t) snprintf(b, n, "n=%d:", c);
    spif_iterator_t it = SPIF_MAP_ITERATOR(m); int g = 0;
    while (it && SPIF_ITERATOR_HAS_NEXT(it) && g++ < 32 && k + 60 < n) { spif_objpair_t p = SPIF_OBJPAIR(SPIF_ITERATOR_NEXT(it)); if (!p) break; k += (size_t) snprintf(b + k, n - k, "[%s=%s]", stext(p->key), stext(p->value)); }
    if (it) SPIF_ITERATOR_DEL(it);
}

#define NEL(a) ((int) (sizeof(a) / sizeof((a)[0])))
static cls_t CLASSES[] = {
    { "str", "!spif_str_t!", NEL(STRB), str_build, str_bname, NEL(STRM), str_mut, str_mname, str_obs, 1, 0 },
    { "ustr", "!spif_ustr_t!", NEL(STRB), ustr_build, str_bname, NEL(STRM), ustr_mut, str_mname, ustr_obs, 1, 0 },
    { "mbuff", "!spif_mbuff_t!", NEL(MBB), mb_build, mb_bname, NEL(MBM), mb_mut, mb_mname, mb_obs, 2, 0 },
    { "objpair", "!spif_objpair_t!", NEL(OPB), op_build, op_bname, NEL(OPM), op_mut, op_mname, op_obs, 0, 0 },
    { "tok", "!spif_tok_t!", NEL(TKB), tk_build, tk_bname, NEL(TKM), tk_mut, tk_mname, tk_obs, 0, 0 },
    { "url", "!spif_url_t!", NEL(URB), ur_build, ur_bname, NEL(URM), ur_mut, ur_mname, ur_obs, 0, 0 },
    { "regexp", "!spif_regexp_t!", NEL(REB), re_build, re_bname, NEL(REM), re_mut, re_mname, re_obs, 0, 0 },
    { "list", NULL, NEL(LSB), ls_build, ls_bname, NEL(LSM), ls_mut, ls_mname, ls_obs, 0, KIND_LIST },
    { "vector", NULL, NEL(VCB), vc_build, vc_bname, NEL(VCM), vc_mut, vc_mname, vc_obs, 0, KIND_VECTOR },
    { "map", NULL, NEL(MPB), mp_build, mp_bname, NEL(MPM), mp_mut, mp_mname, mp_obs, 0, KIND_MAP },
};
#define NCLASSES NEL(CLASSES)
static const char *FAMILY[3] = { "array", "linked_list", "dlinked_list" };
static const char *FAMILY_CLASSNAME[3] = { "!spif_array_t!", "!spif_linked_list_t!", "!spif_dlinked_list_t!" };
/* the last builder state of these classes is a large one (70000 bytes / 300 elements): size thresholds for dup, comp and ownership */
static int cls_is_big(const cls_t *c, int i) { return i == c->n_build - 1 && (c->kind || !strcmp(c->name, "str") || !strcmp(c->name, "ustr") || !strcmp(c->name, "mbuff")); }
/* full class label, e.g. "dlinked_list.map" */
static const char *cls_label(const cls_t *c) { static char b[64]; if (c->kind) snprintf(b, sizeof b, "%s.%s", FAMILY[g_family], c->name); else snprintf(b, sizeof b, "%s", c->name); return b; }
static const char *cls_classname(const cls_t *c) { return c->kind ? FAMILY_CLASSNAME[g_family] : c->classname; }
#endif
