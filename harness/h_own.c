/* h_own.c — C06: every allocation is released exactly once across any object history.
 * E1 with the allocator as the invariant: programs over two object slots of one class
 * {build(state i) -> slot, dup(slot -> other slot), mutate(slot, j), del(slot)}; after every
 * explored history everything the program owns is deleted and the heap must be back at its
 * baseline; ASan reports double frees and use after free. */
#ifdef VERIF_TRACKCHECK
# include <config.h>
# include "mem.c"                  /* DEBUG=5 build: the tracker's private table is read after every teardown (C15, whole-library clause) */
#endif
#include "classes.h"

static cls_t *C; static int g_big_ok;      /* the large builder states take part in the thorough tier (each costs hundreds of allocations per replay) */
typedef struct { spif_obj_t o[2]; long base; const char *last; } st_t;
typedef struct { int k, slot, arg; } op_t;      /* k: 0 build, 1 dup, 2 mutate, 3 del */
static op_t OPS[200]; static int NOPS;

static void build_ops(void)
{
    NOPS = 0;
    for (int s = 0; s < 2; s++) for (int i = 0; i < C->n_build; i++) OPS[NOPS++] = (op_t) { 0, s, i };
    for (int s = 0; s < 2; s++) OPS[NOPS++] = (op_t) { 1, s, 0 };
    for (int s = 0; s < 2; s++) for (int j = 0; j < C->n_mut; j++) OPS[NOPS++] = (op_t) { 2, s, j };
    for (int s = 0; s < 2; s++) OPS[NOPS++] = (op_t) { 3, s, 0 };
}
static void op_name(int i, char *b, size_t n)
{
    op_t *o = &OPS[i];
    switch (o->k) {
    case 0: snprintf(b, n, "s%d = %s", o->slot, C->build_name(o->arg)); break;
    case 1: snprintf(b, n, "s%d = dup(s%d)", 1 - o->slot, o->slot); break;
    case 2: snprintf(b, n, "s%d.%s", o->slot, C->mut_name(o->arg)); break;
    case 3: snprintf(b, n, "del(s%d)", o->slot); break;
    }
}
static void *fresh(void) { st_t *s = calloc(1, sizeof *s); s->base = mc_live_bytes(); s->last = "start"; return s; }
static int enabled(void *vs, int op)
{
    st_t *s = vs; op_t *o = &OPS[op];
    switch (o->k) {
    case 0: return s->o[o->slot] == NULL && (g_big_ok || !cls_is_big(C, o->arg));
    case 1: return s->o[o->slot] != NULL && s->o[1 - o->slot] == NULL;
    default: return s->o[o->slot] != NULL;
    }
}
static void apply(void *vs, int op)
{
    st_t *s = vs; op_t *o = &OPS[op];
    switch (o->k) {
    case 0: s->last = "build"; mc_set_shape(C->build_name(o->arg)); s->o[o->slot] = C->build(o->arg);
        if (!s->o[o->slot]) FAIL(cls_label(C), "model:return", C->build_name(o->arg), "constructor returned NULL"); break;
    case 1: s->last = "dup"; mc_set_shape("dup"); s->o[1 - o->slot] = SPIF_OBJ_DUP(s->o[o->slot]);
        if (!s->o[1 - o->slot]) FAIL(cls_label(C), "model:return", "dup", "dup returned NULL"); break;
    case 2: s->last = C->mut_name(o->arg); mc_set_shape(s->last); C->mutate(s->o[o->slot], o->arg); break;
    case 3: s->last = "del"; mc_set_shape("del"); if (!SPIF_OBJ_DEL(s->o[o->slot])) FAIL(cls_label(C), "model:return", "del", "del returned FALSE"); s->o[o->slot] = NULL; break;
    }
}
static void canon(void *vs, char *b, size_t n)
{
    st_t *s = vs; size_t k = 0; char ob[600];
    for (int i = 0; i < 2; i++) {
        if (s->o[i]) C->observe(s->o[i], ob, sizeof ob); else strcpy(ob, "<none>");
        k += (size_t) snprintf(b + k, n - k, "s%d={%s} ", i, ob);
    }
    snprintf(b + k, n - k, "held=%ld", mc_live_bytes() - s->base);
}
static void teardown(void *vs)
{
    st_t *s = vs; const char *last = s->last;
    mc_set_shape(last);
    for (int i = 0; i < 2; i++) if (s->o[i]) { SPIF_OBJ_DEL(s->o[i]); s->o[i] = NULL; }
    long left = mc_live_bytes() - s->base;
#ifdef VERIF_TRACKCHECK
    if (malloc_rec.cnt != 0) { char sh[160]; snprintf(sh, sizeof sh, "after %s", last);
        FAIL(cls_label(C), "model:tracker-table-not-empty", sh, "the memory tracker still lists %lu blocks after every object was deleted (first: %s:%u, %lu bytes)", (unsigned long) malloc_rec.cnt,
             (char *) malloc_rec.ptrs[0].file, (unsigned) malloc_rec.ptrs[0].line, (unsigned long) malloc_rec.ptrs[0].size);
        malloc_rec.cnt = 0; }
#endif
    if (left != 0) { char sh[160]; snprintf(sh, sizeof sh, "after %s", last); FAIL(cls_label(C), "leak", sh, "%ld bytes still allocated after the program deleted every object it owned", left); }
    free(s);
}

static void warm(void *ctx)
{
    int i = *(int *) ctx; char ob[600];
    spif_obj_t o = C->build(i), d = o ? SPIF_OBJ_DUP(o) : NULL;
    for (int j = 0; o && j < C->n_mut; j++) { C->mutate(o, j); C->observe(o, ob, sizeof ob); }
    if (d) SPIF_OBJ_DEL(d);
    if (o) SPIF_OBJ_DEL(o);
}
int main(int argc, char **argv)
{
#ifdef VERIF_TRACKCHECK
    mc_init("C15", argc, argv);
    libast_debug_level = 5;
#else
    mc_init("C06", argc, argv);
    libast_debug_level = (unsigned) mc_dlevel();        /* --dlevel=N: the whole run at runtime debug level N (default 0) */
#endif
    int depth = (int) mc_arg_int("depth", mc_thorough() ? 6 : 4);
    g_big_ok = (int) mc_arg_int("big", mc_thorough() ? 1 : 0);
    const char *only = mc_arg("class", NULL);
    mc_info("alphabet", "per class (str, ustr, mbuff, objpair, tok, url, regexp, list/vector/map x 3 families): two slots; ops build(state) x slot, dup, every ownership-correct mutator "
            "(setters, done/re-init, remove/remove_at handing elements back, to_array, iterators, get_keys/values/pairs, in-place element mutation) x slot, del; depth <= %d; "
            "oracle: live heap bytes after teardown == baseline, ASan double-free/use-after-free", depth);
    /* warm-up: one-time allocations inside libc/PCRE (NSS tables, stdio buffers) must precede every baseline */
    for (int ci = 0; ci < NCLASSES; ci++) { C = &CLASSES[ci];
        for (g_family = 0; g_family < (C->kind ? 3 : 1); g_family++) for (int i = 0; i < C->n_build; i++) {
            char what[200]; snprintf(what, sizeof what, "warm-up: build %s in state %s, dup, every mutator, delete", cls_label(C), C->build_name(i));
            int wi = i; mc_guarded(cls_label(C), what, warm, &wi);
        } }
    for (int ci = 0; ci < NCLASSES; ci++) {
        C = &CLASSES[ci];
        for (g_family = 0; g_family < (C->kind ? 3 : 1); g_family++) {
            static char name[64];
            snprintf(name, sizeof name, "%s", cls_label(C));
            if (only && strcmp(only, name)) continue;
            build_ops();
            mc_sys sys = { strdup(name), NOPS, op_name, fresh, enabled, apply, NULL, canon, teardown, (int) mc_arg_int("lookahead", 1) };
            mc_e1_run(&sys, depth);
        }
    }
    return mc_finish();
}
