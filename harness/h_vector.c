/* h_vector.c — C04: every vector class is the same sorted multiset.
 * E1 over {insert(x), remove(x)} for the three vector classes against a multiset with identities. */
#include "hcommon.h"

#define VMAX 6
#define MMAX 4
static int NV = 3, MULT = 2, S = 4;
static int CLS;
static const char *CN[3] = { "array_vector", "linked_list_vector", "dlinked_list_vector" };
static const char *VAL[VMAX] = { "b", "d", "f", "h", "j", "l" };           /* stored values */
static const char *PROBE[VMAX + 3]; static int NPROBE;                      /* stored values + below-min, above-max, absent middle */

typedef struct { spif_vector_t v; spif_obj_t e[VMAX][MMAX]; int cnt[VMAX]; int n; } st_t;
typedef struct { int k, x; } op_t;         /* k: 0 insert, 1 remove (x indexes PROBE) */
static op_t OPS[64]; static int NOPS;

static void build_ops(void)
{
    NPROBE = 0;
    for (int i = 0; i < NV; i++) PROBE[NPROBE++] = VAL[i];
    PROBE[NPROBE++] = "a"; PROBE[NPROBE++] = "z"; PROBE[NPROBE++] = "c";
    NOPS = 0;
    for (int i = 0; i < NV; i++) OPS[NOPS++] = (op_t) { 0, i };
    for (int i = 0; i < NPROBE; i++) OPS[NOPS++] = (op_t) { 1, i };
    OPS[NOPS++] = (op_t) { 2, 0 };             /* done(): the vector gives up everything it holds and stays usable */
    for (int i = 0; i < NV; i++) OPS[NOPS++] = (op_t) { 3, i };        /* remove(find(x)): the stored object itself is the probe */
}
static void op_name(int i, char *b, size_t n) { if (OPS[i].k == 2) snprintf(b, n, "done()"); else if (OPS[i].k == 3) snprintf(b, n, "remove(find(%s))", PROBE[OPS[i].x]); else snprintf(b, n, "%s(%s)", OPS[i].k ? "remove" : "insert", PROBE[OPS[i].x]); }
static spif_vector_t new_vec(void)
{
    switch (CLS) {
    case 0: return SPIF_VECTOR_NEW(array);
    case 1: return SPIF_VECTOR_NEW(linked_list);
    default: return SPIF_VECTOR_NEW(dlinked_list);
    }
}
static spif_obj_t S_(const char *t) { return SPIF_OBJ(spif_str_new_from_ptr((spif_charptr_t) t)); }
static void *fresh(void) { st_t *s = calloc(1, sizeof *s); s->v = new_vec(); return s; }
static int enabled(void *vs, int op)
{
    st_t *s = vs; op_t *o = &OPS[op];
    if (o->k == 0) return s->n < S && s->cnt[o->x] < MULT;
    if (o->k == 3) return s->cnt[o->x] > 0;
    return 1;
}
static const char *site(const char *m) { static char b[64]; snprintf(b, sizeof b, "%s.%s", CN[CLS], m); return b; }
static int is_str(spif_obj_t o, const char *t) { return o && SPIF_OBJ_IS_STR(o) && SPIF_STR(o)->s && !strcmp((char *) SPIF_STR(o)->s, t); }
static int owner(st_t *s, spif_obj_t p, int *slot)
{
    for (int v = 0; v < NV; v++) for (int j = 0; j < s->cnt[v]; j++) if (s->e[v][j] == p) { if (slot) *slot = j; return v; }
    return -1;
}
static const char *shape_for(st_t *s, int x)
{
    if (x >= NV) return x == NV ? "probe below the minimum" : (x == NV + 1 ? "probe above the maximum" : "absent probe between stored values");
    if (!s->cnt[x]) return s->n == 0 ? "empty vector" : "value absent";
    int lo = -1, hi = -1; for (int v = 0; v < NV; v++) if (s->cnt[v]) { if (lo < 0) lo = v; hi = v; }
    if (s->cnt[x] > 1) return "duplicate value";
    return x == lo ? "minimum value" : (x == hi ? "maximum value" : "middle value");
}
/* walk the container in storage order: must be ascending and a permutation of the model's identities */
static void check_sequence(st_t *s, spif_obj_t *seq, int n, const char *m, const char *shape)
{
    int seen[VMAX][MMAX]; memset(seen, 0, sizeof seen);
    if (n != s->n) { FAIL(site(m), "model:count", shape, "%d elements, model %d", n, s->n); return; }
    for (int i = 0; i < n; i++) {
        int slot, v = owner(s, seq[i], &slot);
        if (v < 0) { FAIL(site(m), "model:foreign-element", shape, "position %d is not an inserted-and-not-removed object", i); return; }
        if (seen[v][slot]) { FAIL(site(m), "model:duplicate-identity", shape, "position %d repeats an object", i); return; }
        seen[v][slot] = 1;
        if (i && strcmp((char *) SPIF_STR(seq[i - 1])->s, (char *) SPIF_STR(seq[i])->s) > 0) { FAIL(site(m), "model:not-sorted", shape, "positions %d,%d are out of order", i - 1, i); return; }
    }
}
static void check_struct(st_t *s, const char *m, const char *shape)
{
    spif_obj_t seq[VMAX * MMAX + 4]; int n = 0, cap = VMAX * MMAX + 2;
    if (CLS == 0) { spif_array_t a = (spif_array_t) s->v; if (a->len != s->n) { FAIL(site(m), "invariant:len", shape, "len=%d model %d", a->len, s->n); return; }
        for (int i = 0; i < a->len && n < cap; i++) seq[n++] = a->items[i]; }
    else if (CLS == 1) { spif_linked_list_t l = (spif_linked_list_t) s->v; if (l->len != s->n) { FAIL(site(m), "invariant:len", shape, "len=%d model %d", l->len, s->n); return; }
        for (spif_linked_list_item_t it = l->head; it && n < cap; it = it->next) seq[n++] = it->data; }
    else { spif_dlinked_list_t l = (spif_dlinked_list_t) s->v; spif_dlinked_list_item_t it, last = NULL;
        if (l->len != s->n) { FAIL(site(m), "invariant:len", shape, "len=%d model %d", l->len, s->n); return; }
        if (s->n == 0) { if (l->head || l->tail) FAIL(site(m), "invariant:empty-vector-has-head-or-tail", shape, "head/tail set on an empty vector"); return; }
        if (!l->head || !l->tail || l->head->prev || l->tail->next) { FAIL(site(m), "invariant:head-tail-links", shape, "head/tail missing or with stale outer links"); return; }
        for (it = l->head; it && n < cap; last = it, it = it->next) { if (it->prev != last) { FAIL(site(m), "invariant:prev-link-mismatch", shape, "item %d: stale back link", n); return; } seq[n++] = it->data; }
        if (last != l->tail) { FAIL(site(m), "invariant:tail-not-last", shape, "stale tail"); return; } }
    for (int i = 0; i < n; i++) if (!seq[i]) { FAIL(site(m), "invariant:null-element", shape, "NULL element in a vector"); return; }
    check_sequence(s, seq, n, m, shape);
}
static void apply(void *vs, int op)
{
    st_t *s = vs; op_t *o = &OPS[op]; const char *shape = shape_for(s, o->x), *m;
    mc_set_shape(shape);
    /* a caller looks up the greatest value before every operation (so every operation is preceded and followed by a lookup) */
    if (s->v) { int gv = -1; for (int v = 0; v < NV; v++) if (s->cnt[v]) gv = v;
        if (gv >= 0) { spif_obj_t p = S_(VAL[gv]); spif_obj_t f = SPIF_VECTOR_FIND(s->v, p); SPIF_OBJ_DEL(p); if (!f || owner(s, f, NULL) != gv) FAIL(site("find"), "model:return", "maximum value", "find(%s), asked between two operations, %s", VAL[gv], f ? "returned an element that is not a stored equal one" : "missed a stored element"); } }
    if (o->k == 2) {
        m = "done";
        if (!SPIF_VECTOR_DONE(s->v)) FAIL(site(m), "model:return", shape, "done returned FALSE");
        memset(s->cnt, 0, sizeof s->cnt); s->n = 0;
    } else if (o->k == 3) {
        spif_obj_t p = S_(PROBE[o->x]); m = "remove";
        spif_obj_t f = SPIF_VECTOR_FIND(s->v, p); SPIF_OBJ_DEL(p);
        int slot, v = f ? owner(s, f, &slot) : -1;
        if (v != o->x) FAIL(site("find"), "model:return", shape, "find did not return a stored object equal to the probe");
        else { spif_obj_t r = SPIF_VECTOR_REMOVE(s->v, f);
            int slot2, v2 = r ? owner(s, r, &slot2) : -1;
            if (v2 != o->x) FAIL(site(m), "model:return", shape, "remove(stored object) did not hand back a stored object equal to it");
            else { SPIF_OBJ_DEL(r); s->e[v2][slot2] = s->e[v2][--s->cnt[v2]]; s->n--; } }
    } else if (o->k == 0) {
        spif_obj_t x = S_(PROBE[o->x]); m = "insert";
        spif_bool_t r = SPIF_VECTOR_INSERT(s->v, x);
        if (!r) FAIL(site(m), "model:return", shape, "insert returned FALSE");
        s->e[o->x][s->cnt[o->x]++] = x; s->n++;
    } else {
        spif_obj_t p = S_(PROBE[o->x]); m = "remove";
        spif_obj_t r = SPIF_VECTOR_REMOVE(s->v, p);
        SPIF_OBJ_DEL(p);
        int present = o->x < NV && s->cnt[o->x] > 0;
        if (!present) { if (r) FAIL(site(m), "model:return", shape, "remove of an absent value returned an element"); }
        else {
            int slot, v = r ? owner(s, r, &slot) : -1;
            if (v != o->x) FAIL(site(m), "model:return", shape, "remove did not hand back a stored object equal to the probe");
            else { SPIF_OBJ_DEL(r); s->e[v][slot] = s->e[v][--s->cnt[v]]; s->n--; }
        }
    }
    check_struct(s, m, shape);
}
static void probe(void *vs)
{
    st_t *s = vs; spif_vector_t v = s->v; const char *shape = s->n == 0 ? "empty vector" : "non-empty vector";
    mc_set_shape(shape);
    /* a second vector of the same class lives next to this one for a moment: its first insert right after whatever this one just did concerns only itself */
    { spif_vector_t b = new_vec(); spif_obj_t x = S_("m");
      if (!SPIF_VECTOR_INSERT(b, x)) FAIL(site("insert"), "model:return", shape, "insert into a second, empty vector returned FALSE");
      spif_iterator_t it = SPIF_VECTOR_ITERATOR(b); int n = 0; spif_obj_t first = NULL;
      while (it && n < 4 && SPIF_ITERATOR_HAS_NEXT(it)) { spif_obj_t g = SPIF_ITERATOR_NEXT(it); if (!n) first = g; n++; }
      if (it) SPIF_ITERATOR_DEL(it);
      if ((int) SPIF_VECTOR_COUNT(b) != 1 || n != 1 || first != x) FAIL(site("insert"), "model:second-vector", shape, "a second vector holds count=%d and iterates %d elements after its first insert", (int) SPIF_VECTOR_COUNT(b), n);
      for (int q = 0; q < NPROBE; q++) { spif_obj_t p = S_(PROBE[q]); if (SPIF_VECTOR_CONTAINS(b, p)) FAIL(site("contains"), "model:second-vector", shape, "a second vector that holds only \"m\" contains(%s)", PROBE[q]); SPIF_OBJ_DEL(p); }
      SPIF_VECTOR_DEL(b); }
    if ((int) SPIF_VECTOR_COUNT(v) != s->n) FAIL(site("count"), "model:return", shape, "count=%d model %d", (int) SPIF_VECTOR_COUNT(v), s->n);
    for (int x = 0; x < NPROBE; x++) {
        spif_obj_t p = S_(PROBE[x]); const char *sh = shape_for(s, x); int present = x < NV && s->cnt[x] > 0;
        spif_obj_t f = SPIF_VECTOR_FIND(v, p);
        if (present ? (owner(s, f, NULL) != x) : (f != NULL)) FAIL(site("find"), "model:return", sh, "find(%s) %s", PROBE[x], present ? "did not return a stored equal object" : "returned an object for an absent value");
        spif_bool_t c = SPIF_VECTOR_CONTAINS(v, p);
        if ((c ? 1 : 0) != present) FAIL(site("contains"), "model:return", sh, "contains(%s)=%d", PROBE[x], (int) c);
        SPIF_OBJ_DEL(p);
    }
    { spif_obj_t *a = SPIF_VECTOR_TO_ARRAY(v);
      if (s->n && !a) FAIL(site("to_array"), "model:return", shape, "to_array returned NULL"); else if (a) check_sequence(s, a, s->n, "to_array", shape);
      if (a) free(a); }
    { spif_iterator_t it = SPIF_VECTOR_ITERATOR(v); spif_obj_t seq[VMAX * MMAX + 4]; int n = 0;
      if (!it) FAIL(site("iterator"), "model:return", shape, "iterator() returned NULL");
      else { while (n < s->n + 2 && SPIF_ITERATOR_HAS_NEXT(it)) seq[n++] = SPIF_ITERATOR_NEXT(it);
          check_sequence(s, seq, n, "iterator", shape);
          if (n == s->n && SPIF_ITERATOR_NEXT(it)) FAIL(site("iterator"), "model:not-exhausted", shape, "next returned an element after exhaustion");
          if (n == s->n && SPIF_ITERATOR_HAS_NEXT(it)) FAIL(site("iterator"), "model:not-exhausted", shape, "has_next is TRUE again after a refused next on the exhausted iterator");
          if (n == s->n && SPIF_ITERATOR_NEXT(it)) FAIL(site("iterator"), "model:not-exhausted", shape, "a second next after exhaustion returned an element");
          SPIF_ITERATOR_DEL(it); } }
    /* a copy of an iterator taken after k steps yields exactly the remaining n-k elements */
    for (int k = 0; k <= s->n; k++) {
        spif_iterator_t it = SPIF_VECTOR_ITERATOR(v); if (!it) break;
        spif_obj_t seen[VMAX * MMAX + 4]; int ns = 0;
        for (int j = 0; j < k && SPIF_ITERATOR_HAS_NEXT(it); j++) seen[ns++] = SPIF_ITERATOR_NEXT(it);
        spif_iterator_t c = (spif_iterator_t) SPIF_ITERATOR_DUP(it);
        if (!c || c == it) FAIL(site("iterator_dup"), "model:return", shape, "dup of an iterator returned %s", c ? "the iterator itself" : "NULL");
        else { int got = 0, rep = 0; while (got <= s->n + 1 && SPIF_ITERATOR_HAS_NEXT(c)) { spif_obj_t g = SPIF_ITERATOR_NEXT(c); for (int q = 0; q < ns; q++) if (seen[q] == g) rep = 1; got++; }
            if (got != s->n - k || rep) FAIL(site("iterator_dup"), "model:position", shape, "a copy taken after %d of %d steps yielded %d elements%s, expected %d", k, s->n, got, rep ? " (some for the second time)" : "", s->n - k);
            SPIF_ITERATOR_DEL(c); }
        SPIF_ITERATOR_DEL(it);
    }
    { spif_vector_t d = (spif_vector_t) SPIF_VECTOR_DUP(v);
      if (!d || d == v) FAIL(site("dup"), "model:return", shape, "dup returned %s", d ? "self" : "NULL");
      else { if ((int) SPIF_VECTOR_COUNT(d) != s->n) FAIL(site("dup"), "model:count", shape, "dup count %d", (int) SPIF_VECTOR_COUNT(d));
          else { spif_obj_t *a = SPIF_VECTOR_TO_ARRAY(d), *b = SPIF_VECTOR_TO_ARRAY(v);
              for (int i = 0; i < s->n; i++) if (!a[i] || a[i] == b[i] || !is_str(a[i], (char *) SPIF_STR(b[i])->s)) { FAIL(site("dup"), "model:element", shape, "dup position %d is not an equal distinct copy", i); break; }
              free(a); free(b); }
          /* the copy is a vector of its own: a new greatest and a new smallest element go into it, and only into it */
          { spif_obj_t hi = S_("zz"), lo = S_("A"), px = S_("zz"), pl = S_("A");
            SPIF_VECTOR_INSERT(d, hi); SPIF_VECTOR_INSERT(d, lo);
            int dn = (int) SPIF_VECTOR_COUNT(d);
            if (dn != s->n + 2) FAIL(site("dup"), "model:copy-count", shape, "the copy counts %d after two inserts into a copy of %d elements", dn, s->n);
            else { spif_obj_t *a = SPIF_VECTOR_TO_ARRAY(d);
                if (!a || a[0] != lo || a[dn - 1] != hi) FAIL(site("dup"), "model:copy-order", shape, "the copy does not hold its new smallest/greatest element at its ends");
                for (int i = 0; a && i + 1 < dn; i++) if (SPIF_CMP_IS_GREATER(SPIF_OBJ_COMP(a[i], a[i + 1]))) { FAIL(site("dup"), "model:copy-order", shape, "the copy is not sorted at position %d", i); break; }
                if (a) free(a); }
            if (SPIF_VECTOR_FIND(d, px) != hi || SPIF_VECTOR_FIND(d, pl) != lo) FAIL(site("dup"), "model:copy-find", shape, "the copy does not find the elements just inserted into it");
            if (SPIF_VECTOR_FIND(v, px) || SPIF_VECTOR_FIND(v, pl) || (int) SPIF_VECTOR_COUNT(v) != s->n) FAIL(site("dup"), "model:not-independent", shape, "inserting into the copy changed the original");
            SPIF_OBJ_DEL(px); SPIF_OBJ_DEL(pl); }
          SPIF_VECTOR_DEL(d); } }
    /* a second copy loses the element that was its greatest when it was made, is walked, and then receives a new greatest one */
    if (s->n) { spif_vector_t d = (spif_vector_t) SPIF_VECTOR_DUP(v);
      if (d && d != v) {
          spif_obj_t *a = SPIF_VECTOR_TO_ARRAY(d); spif_obj_t top = a ? SPIF_OBJ_DUP(a[s->n - 1]) : NULL; if (a) free(a);
          spif_obj_t r = top ? SPIF_VECTOR_REMOVE(d, top) : NULL;
          if (!r) FAIL(site("dup"), "model:copy-remove", shape, "the copy did not hand back its greatest element");
          else SPIF_OBJ_DEL(r);
          int k = 0; spif_iterator_t it = SPIF_VECTOR_ITERATOR(d); while (it && k <= s->n + 1 && SPIF_ITERATOR_HAS_NEXT(it)) { (void) SPIF_ITERATOR_NEXT(it); k++; } if (it) SPIF_ITERATOR_DEL(it);
          if (k != s->n - 1 || (int) SPIF_VECTOR_COUNT(d) != s->n - 1) FAIL(site("dup"), "model:copy-count", shape, "after removing its greatest element the copy counts %d and iterates %d of %d", (int) SPIF_VECTOR_COUNT(d), k, s->n - 1);
          spif_obj_t hi = S_("zz"); SPIF_VECTOR_INSERT(d, hi);
          a = SPIF_VECTOR_TO_ARRAY(d); if (!a || (int) SPIF_VECTOR_COUNT(d) != s->n || a[s->n - 1] != hi) FAIL(site("dup"), "model:copy-order", shape, "a new greatest element is not the last element of the copy"); if (a) free(a);
          if ((int) SPIF_VECTOR_COUNT(v) != s->n) FAIL(site("dup"), "model:not-independent", shape, "the original changed");
          if (top) SPIF_OBJ_DEL(top);
          SPIF_VECTOR_DEL(d);
      } }
    check_struct(s, "queries", shape);
}
static void canon(void *vs, char *b, size_t n)
{
    st_t *s = vs; size_t o = 0; b[0] = 0;
    for (int v = 0; v < NV; v++) o += (size_t) snprintf(b + o, n - o, "%s*%d ", VAL[v], s->cnt[v]);
}
static void teardown(void *vs) { st_t *s = vs; SPIF_VECTOR_DEL(s->v); free(s); }

/* ---- large vectors: sizes around 127/255/256/512/1024/2048/4096 (thresholds where an implementation may switch strategy), three insertion orders,
 * then a new greatest, a new smallest, a duplicate of the greatest and a middle element; every element is looked up afterwards */
static const int BIGN[] = { 126, 127, 128, 254, 255, 256, 257, 300, 511, 512, 513, 1023, 1024, 1025, 1026, 2049, 4097 };
#define NBIGN ((int) (sizeof BIGN / sizeof BIGN[0]))
static void big_decode(uint64_t idx, int *cls, int *n, int *order) { *cls = (int) (idx % 3); idx /= 3; *order = (int) (idx % 3); idx /= 3; *n = BIGN[idx % NBIGN]; }
static void big_desc(uint64_t idx, void *ctx, char *b, size_t n_)
{
    int cls, n, order; (void) ctx; big_decode(idx, &cls, &n, &order);
    snprintf(b, n_, "%s vector: %d distinct keys inserted in %s order, then a new greatest, a new smallest, a duplicate of the greatest and a middle key; sortedness, count and find of every key",
             CN[cls], n, order == 0 ? "ascending" : (order == 1 ? "descending" : "interleaved"));
}
static int cmpstr(const void *a, const void *b) { return strcmp(*(const char *const *) a, *(const char *const *) b); }
static void big_case(uint64_t idx, void *ctx)
{
    int cls, n, order; (void) ctx; big_decode(idx, &cls, &n, &order);
    CLS = cls;
    char shape[64]; snprintf(shape, sizeof shape, "%d keys", n); mc_set_shape(shape);
    spif_vector_t v = new_vec();
    static char names[4200][12]; const char *model[4200]; int m = 0;
    for (int i = 0; i < n; i++) { int k = order == 0 ? i : (order == 1 ? n - 1 - i : (i % 2 ? n - 1 - i / 2 : i / 2)); snprintf(names[m], sizeof names[m], "k%05d", 2 * k + 10); model[m] = names[m]; SPIF_VECTOR_INSERT(v, S_(names[m])); m++; }
    static const char *extra_fmt[4] = { "k%05d", "k%05d", "k%05d", "k%05d" };
    int extra_key[4] = { 2 * n + 20, 0, 2 * n + 20, n + 11 };          /* new greatest, new smallest, duplicate of the (new) greatest, an odd key in the middle */
    for (int e = 0; e < 4; e++) {
        /* every key is looked up at every size the vector goes through (n, n+1, .. n+3: odd and even counts, with and without equal neighbours); sizes above 1100 only at the end */
        if (n <= 1100) for (int i = 0; i < m; i++) { spif_obj_t p = S_(model[i]); spif_obj_t f = SPIF_VECTOR_FIND(v, p); if (!f || !is_str(f, model[i])) { FAIL(site("find"), "model:return", shape, "with %d elements find(\"%s\") %s", m, model[i], f ? "returned another element" : "missed a stored element"); SPIF_OBJ_DEL(p); break; } SPIF_OBJ_DEL(p); }
        snprintf(names[m], sizeof names[m], extra_fmt[e], extra_key[e]); model[m] = names[m]; SPIF_VECTOR_INSERT(v, S_(names[m])); m++; }
    qsort(model, (size_t) m, sizeof model[0], cmpstr);
    if ((int) SPIF_VECTOR_COUNT(v) != m) FAIL(site("count"), "model:return", shape, "count=%d after %d inserts", (int) SPIF_VECTOR_COUNT(v), m);
    else {
        spif_obj_t *a = SPIF_VECTOR_TO_ARRAY(v);
        if (!a) FAIL(site("to_array"), "model:return", shape, "to_array returned NULL");
        else { for (int i = 0; i < m; i++) if (!is_str(a[i], model[i])) { FAIL(site("insert"), "model:order", shape, "position %d holds \"%s\", the sorted sequence has \"%s\"", i, a[i] && SPIF_STR(a[i])->s ? (char *) SPIF_STR(a[i])->s : "?", model[i]); break; }
            free(a); }
        spif_iterator_t it = SPIF_VECTOR_ITERATOR(v); int k = 0;
        while (it && k <= m && SPIF_ITERATOR_HAS_NEXT(it)) { spif_obj_t g = SPIF_ITERATOR_NEXT(it); if (k < m && !is_str(g, model[k])) { FAIL(site("iterator"), "model:order", shape, "iteration position %d is not \"%s\"", k, model[k]); break; } k++; }
        if (it) SPIF_ITERATOR_DEL(it);
        if (k != m) FAIL(site("iterator"), "model:count", shape, "iteration yielded %d of %d elements", k, m);
    }
    for (int i = 0; i < m; i++) { spif_obj_t p = S_(model[i]); spif_obj_t f = SPIF_VECTOR_FIND(v, p); if (!f || !is_str(f, model[i])) { FAIL(site("find"), "model:return", shape, "find(\"%s\") %s", model[i], f ? "returned another element" : "missed a stored element"); SPIF_OBJ_DEL(p); break; } SPIF_OBJ_DEL(p); }
    { spif_obj_t p = S_("k00001"); if (SPIF_VECTOR_FIND(v, p)) FAIL(site("find"), "model:return", shape, "find of an absent key returned an element"); SPIF_OBJ_DEL(p); }
    /* removal hands each element back exactly once, from both ends and the middle */
    { const char *rm[3] = { model[0], model[m - 1], model[m / 2] };
      for (int r = 0; r < 3; r++) { spif_obj_t p = S_(rm[r]); spif_obj_t g = SPIF_VECTOR_REMOVE(v, p); if (!g || !is_str(g, rm[r])) FAIL(site("remove"), "model:return", shape, "remove(\"%s\") did not hand back an equal element", rm[r]); if (g) SPIF_OBJ_DEL(g); SPIF_OBJ_DEL(p); } }
    /* the history goes on after the removals: the three come back, and a new greatest, smallest and middle key join (whatever the removal did to the storage, the next inserts build on it) */
    { int extra2[6] = { 2 * (m / 2), 0, 0, 2 * n + 40, 1, n + 13 }; const char *back[3] = { model[0], model[m - 1], model[m / 2] }; (void) extra2;
      static char n2[6][12]; int m2 = 0; const char *model2[4200];
      for (int i = 0; i < m; i++) model2[m2++] = model[i];
      for (int r = 0; r < 3; r++) SPIF_VECTOR_INSERT(v, S_(back[r]));
      int keys[3] = { 2 * n + 40, 1, n + 13 };
      for (int e = 0; e < 3; e++) { snprintf(n2[e], sizeof n2[e], "k%05d", keys[e]); model2[m2++] = n2[e]; SPIF_VECTOR_INSERT(v, S_(n2[e])); }
      qsort(model2, (size_t) m2, sizeof model2[0], cmpstr);
      if ((int) SPIF_VECTOR_COUNT(v) != m2) FAIL(site("count"), "model:return", shape, "count=%d after removing three, re-inserting them and inserting three more (%d expected)", (int) SPIF_VECTOR_COUNT(v), m2);
      else { spif_obj_t *a = SPIF_VECTOR_TO_ARRAY(v);
          if (!a) FAIL(site("to_array"), "model:return", shape, "to_array returned NULL");
          else { for (int i = 0; i < m2; i++) if (!is_str(a[i], model2[i])) { FAIL(site("insert"), "model:order", shape, "after removals and further inserts position %d does not hold \"%s\"", i, model2[i]); break; } free(a); } } }
    SPIF_VECTOR_DEL(v);
    mc_nontrivial();
    mc_outcome((uint64_t) n * 9 + (uint64_t) order * 3 + (uint64_t) cls);
}
/* ---- element classes: after vectors of strings have been searched in this process, vectors of buffers that differ only behind an embedded
 * NUL byte, and of URLs, are filled and searched (the comparison belongs to the elements, not to the first vector that was searched) */
static void mx_desc(uint64_t idx, void *ctx, char *b, size_t n) { (void) ctx; snprintf(b, n, "%s vector of %s: insert 4, find each and an absent one, remove one, find again (after a vector of strings was searched)", CN[idx % 3], idx / 3 ? "URLs" : "buffers that differ behind a NUL byte"); }
static spif_obj_t mx_elem(int kind, int i)
{
    if (kind == 0) { unsigned char b[4] = { 'a', 0, (unsigned char) ('p' + i), 'z' }; return SPIF_OBJ(spif_mbuff_new_from_ptr(b, 4)); }
    char t[32]; snprintf(t, sizeof t, "http://h%c/x", 'p' + i); return SPIF_OBJ(spif_url_new_from_ptr((spif_charptr_t) t));
}
static void mx_case(uint64_t idx, void *ctx)
{
    int kind = (int) (idx / 3); (void) ctx; CLS = (int) (idx % 3);
    const char *shape = kind ? "elements of class url" : "elements of class mbuff"; mc_set_shape(shape);
    { spif_vector_t sv = new_vec(); spif_obj_t p = S_("b"); SPIF_VECTOR_INSERT(sv, S_("b")); SPIF_VECTOR_INSERT(sv, S_("d")); (void) SPIF_VECTOR_FIND(sv, p); (void) SPIF_VECTOR_CONTAINS(sv, p); SPIF_OBJ_DEL(p); SPIF_VECTOR_DEL(sv); }
    spif_vector_t v = new_vec(); spif_obj_t e[4]; static const int order[4] = { 2, 0, 3, 1 };
    for (int k = 0; k < 4; k++) { e[order[k]] = mx_elem(kind, order[k]); SPIF_VECTOR_INSERT(v, e[order[k]]); }
    for (int pass = 0; pass < 2; pass++) {
        for (int i = 0; i < 4; i++) { spif_obj_t p = mx_elem(kind, i); spif_obj_t f = SPIF_VECTOR_FIND(v, p); int present = !(pass && i == 1);
            if (present ? f != e[i] : f != NULL) FAIL(site("find"), "model:return", shape, "find(element %d) %s", i, present ? (f ? "returned another element" : "missed a stored element") : "returned an element that was removed");
            if ((SPIF_VECTOR_CONTAINS(v, p) ? 1 : 0) != present) FAIL(site("contains"), "model:return", shape, "contains(element %d) is wrong", i);
            SPIF_OBJ_DEL(p); }
        { spif_obj_t p = mx_elem(kind, 9); if (SPIF_VECTOR_FIND(v, p)) FAIL(site("find"), "model:return", shape, "find of an absent element returned an element"); SPIF_OBJ_DEL(p); }
        if (!pass) { spif_obj_t p = mx_elem(kind, 1); spif_obj_t r = SPIF_VECTOR_REMOVE(v, p); if (r != e[1]) FAIL(site("remove"), "model:return", shape, "remove did not hand back the equal element"); if (r) SPIF_OBJ_DEL(r); SPIF_OBJ_DEL(p); }
    }
    SPIF_VECTOR_DEL(v);
    mc_nontrivial();
    mc_outcome(idx);
}
/* ---- (a) a vector that mixes strings and URLs (a URL is a string: the two compare by text, in either direction); (b) an iteration over one vector
 * that is interrupted by a removal from ANOTHER vector of the same class: it still delivers every element */
static void mv_desc(uint64_t idx, void *ctx, char *b, size_t n) { (void) ctx; if (idx / 3) snprintf(b, n, "%s vector of 5: iterate 2, remove and delete an element of a second vector of the class, iterate on: 5 elements in order", CN[idx % 3]); else snprintf(b, n, "%s vector mixing str and url elements inserted as url m, str a, url z, str k, str m2, url b: sorted by text, every one found", CN[idx % 3]); }
static void mv_case(uint64_t idx, void *ctx)
{
    (void) ctx; CLS = (int) (idx % 3);
    if (idx / 3 == 0) {
        const char *shape = "elements of classes str and url together"; mc_set_shape(shape);
        static const char *TX[6] = { "http://m.org/", "http://a.org/", "http://z.org/", "http://k.org/", "http://m2.org/", "http://b.org/" }; static const int ISURL[6] = { 1, 0, 1, 0, 0, 1 };
        spif_vector_t v = new_vec(); spif_obj_t e[6];
        for (int i = 0; i < 6; i++) { e[i] = ISURL[i] ? SPIF_OBJ(spif_url_new_from_ptr((spif_charptr_t) TX[i])) : S_(TX[i]); if (!SPIF_VECTOR_INSERT(v, e[i])) FAIL(site("insert"), "model:return", shape, "insert returned FALSE"); }
        spif_obj_t *a = SPIF_VECTOR_TO_ARRAY(v);
        if (!a) FAIL(site("to_array"), "model:return", shape, "to_array returned NULL");
        else { for (int i = 0; i + 1 < 6; i++) if (strcmp((char *) SPIF_STR(a[i])->s, (char *) SPIF_STR(a[i + 1])->s) > 0) { FAIL(site("insert"), "model:order", shape, "\"%s\" stands before \"%s\"", (char *) SPIF_STR(a[i])->s, (char *) SPIF_STR(a[i + 1])->s); break; } free(a); }
        for (int i = 0; i < 6; i++) { spif_obj_t p = S_(TX[i]); spif_obj_t f = SPIF_VECTOR_FIND(v, p); if (f != e[i]) FAIL(site("find"), "model:return", shape, "find(\"%s\") %s", TX[i], f ? "returned another element" : "missed a stored element"); if (!SPIF_VECTOR_CONTAINS(v, p)) FAIL(site("contains"), "model:return", shape, "contains(\"%s\") is FALSE", TX[i]); SPIF_OBJ_DEL(p); }
        SPIF_VECTOR_DEL(v);
    } else {
        const char *shape = "iteration interrupted by work on another vector"; mc_set_shape(shape);
        spif_vector_t v = new_vec(), w = new_vec(); static const char *TV[5] = { "a", "b", "c", "d", "e" };
        for (int i = 0; i < 5; i++) SPIF_VECTOR_INSERT(v, S_(TV[i])); SPIF_VECTOR_INSERT(w, S_("x")); SPIF_VECTOR_INSERT(w, S_("y"));
        spif_iterator_t it = SPIF_VECTOR_ITERATOR(v); int k = 0;
        while (it && k < 2 && SPIF_ITERATOR_HAS_NEXT(it)) { spif_obj_t g = SPIF_ITERATOR_NEXT(it); if (!is_str(g, TV[k])) FAIL(site("iterator"), "model:order", shape, "element %d is wrong", k); k++; }
        { spif_obj_t p = S_("x"); spif_obj_t r = SPIF_VECTOR_REMOVE(w, p); if (r) SPIF_OBJ_DEL(r); SPIF_OBJ_DEL(p); SPIF_VECTOR_INSERT(w, S_("z")); }
        { spif_vector_t u = new_vec(); SPIF_VECTOR_INSERT(u, S_("q")); SPIF_VECTOR_DEL(u); }
        while (it && k < 7 && SPIF_ITERATOR_HAS_NEXT(it)) { spif_obj_t g = SPIF_ITERATOR_NEXT(it); if (k < 5 && !is_str(g, TV[k])) FAIL(site("iterator"), "model:order", shape, "element %d is wrong after the other vector changed", k); k++; }
        if (k != 5) FAIL(site("iterator"), "model:count", shape, "the iteration delivered %d of 5 elements (another vector of the class changed meanwhile)", k);
        if (it) SPIF_ITERATOR_DEL(it);
        SPIF_VECTOR_DEL(v); SPIF_VECTOR_DEL(w);
    }
    mc_nontrivial();
    mc_outcome(idx);
}
/* ---- a very long vector (400000 elements, built in the order that is cheap for the class), then one insert above the maximum and one in the middle,
 * a find of the last element and a copy: anything that uses stack in proportion to the position shows here; run in the unoptimised plain build */
static void huge_desc(uint64_t idx, void *ctx, char *b, size_t n) { (void) ctx; snprintf(b, n, "%s vector of 400000 elements: insert above the maximum and in the middle, find the last, dup, count, delete both", CN[1 + idx % 2]); }
static void huge_case(uint64_t idx, void *ctx)
{
    const int n = 400000; (void) ctx; CLS = 1 + (int) (idx % 2);           /* the array class inserts in linear time and is covered up to 4097 elements */
    const char *shape = "400000 elements"; mc_set_shape(shape);
    spif_vector_t v = new_vec(); char t[16];
    for (int i = n - 1; i >= 0; i--) { snprintf(t, sizeof t, "e%06d", 2 * i); SPIF_VECTOR_INSERT(v, S_(t)); }       /* descending: every insert goes to the front */
    if (!SPIF_VECTOR_INSERT(v, S_("e999999")) || !SPIF_VECTOR_INSERT(v, S_("e400001"))) FAIL(site("insert"), "model:return", shape, "insert returned FALSE");
    if ((int) SPIF_VECTOR_COUNT(v) != n + 2) FAIL(site("count"), "model:return", shape, "count=%d after %d inserts", (int) SPIF_VECTOR_COUNT(v), n + 2);
    { spif_obj_t p = S_("e999999"); spif_obj_t f = SPIF_VECTOR_FIND(v, p); if (!f || !is_str(f, "e999999")) FAIL(site("find"), "model:return", shape, "find of the greatest element failed"); SPIF_OBJ_DEL(p); }
    { spif_obj_t p = S_("e400001"); spif_obj_t f = SPIF_VECTOR_FIND(v, p); if (!f || !is_str(f, "e400001")) FAIL(site("find"), "model:return", shape, "find of the middle element failed"); SPIF_OBJ_DEL(p); }
    spif_vector_t d = (spif_vector_t) SPIF_VECTOR_DUP(v);
    if (!d) FAIL(site("dup"), "model:return", shape, "dup returned NULL");
    else { if ((int) SPIF_VECTOR_COUNT(d) != n + 2) FAIL(site("dup"), "model:count", shape, "the copy counts %d", (int) SPIF_VECTOR_COUNT(d));
        spif_iterator_t it = SPIF_VECTOR_ITERATOR(d); int k = 0; const char *prev = ""; int sorted = 1;
        while (it && k <= n + 2 && SPIF_ITERATOR_HAS_NEXT(it)) { spif_obj_t g = SPIF_ITERATOR_NEXT(it); const char *gs = g ? (char *) SPIF_STR(g)->s : ""; if (strcmp(prev, gs) > 0) sorted = 0; prev = gs; k++; }
        if (it) SPIF_ITERATOR_DEL(it);
        if (k != n + 2 || !sorted) FAIL(site("iterator"), "model:order", shape, "the copy iterates %d elements, %s", k, sorted ? "in order" : "not in ascending order");
        SPIF_VECTOR_DEL(d); }
    SPIF_VECTOR_DEL(v);
    mc_nontrivial();
}
int main(int argc, char **argv)
{
    mc_init("C04", argc, argv);
    libast_debug_level = (unsigned) mc_dlevel();        /* --dlevel=N: the whole run at runtime debug level N (default 0) */
    if (mc_arg("only", NULL) && !strcmp(mc_arg("only", ""), "huge")) { mc_e2_level("huge", 400000, 2, huge_case, huge_desc, NULL); return mc_finish(); }
    NV = (int) mc_arg_int("values", mc_thorough() ? 4 : 3);
    MULT = (int) mc_arg_int("mult", mc_thorough() ? 3 : 2);
    S = (int) mc_arg_int("S", mc_thorough() ? 7 : 4);
    build_ops();
    mc_info("alphabet", "%d stored values, multiplicity <= %d, size <= %d; ops insert(x), remove(p) for stored values and the probes a (below min), z (above max), c (absent middle); %d opcodes; "
            "probe: count, find/contains for every probe, to_array, iterator, dup; sortedness + identity-permutation + link invariants", NV, MULT, S, NOPS);
    const char *only = mc_arg("class", NULL);
    for (CLS = 0; CLS < 3; CLS++) {
        if (only && strcmp(only, CN[CLS])) continue;
        mc_sys sys = { CN[CLS], NOPS, op_name, fresh, enabled, apply, probe, canon, teardown, (int) mc_arg_int("lookahead", 1) };
        mc_e1_run(&sys, (int) mc_arg_int("depth", 40));
    }
    if (!only) mc_e2_level("element_classes", 1, 6, mx_case, mx_desc, NULL);
    if (!only) mc_e2_level("mixed_classes_and_neighbours", 1, 6, mv_case, mv_desc, NULL);
    if (!only) mc_e2_level("large", 4097, (uint64_t) 3 * 3 * NBIGN, big_case, big_desc, NULL);
    return mc_finish();
}
