/* hcommon.h — common prelude of every harness translation unit */
#ifndef VERIF_HCOMMON_H
#define VERIF_HCOMMON_H
#include <config.h>
#include <libast_internal.h>
#include "mc.h"
#define FAIL(site, kind, shape, ...) mc_fail(site, kind, shape, __VA_ARGS__)
#endif
