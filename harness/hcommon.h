/* hcommon.h — common prelude of every harness translation unit */
#ifndef VERIF_HCOMMON_H
#define VERIF_HCOMMON_H
#include <config.h>
#include <libast_internal.h>
#include "mc.h"
#define FAIL(site, kind, shape, ...) mc_fail(site, kind, shape, __VA_ARGS__)

/* History for the string helpers of strings.c (C12, C13, C17): once per process, before the first case, the OTHER helpers of the same
 * source file are used with arguments of their own (explicit delimiter sets, quoted words, version words, blanks), so that anything the
 * file keeps between calls - tables, scratch buffers, counters - has been written by a sibling before the function under test runs. */
static inline void mc_strings_prelude(void)
{
    static int done;
    if (done) return;
    done = 1;
    { char *s = strdup("a,b;c d"), *d = strdup(",;"); char **l = (char **) spiftool_split((spif_charptr_t) d, (spif_charptr_t) s);
      if (l) { for (int i = 0; l[i]; i++) free(l[i]); free(l); } free(s); free(d); }
    { char *s = strdup("x \"y z\" 'w'"); char *w = (char *) spiftool_get_word(2, (spif_charptr_t) s); free(w); (void) spiftool_get_pword(2, (spif_charptr_t) s); (void) spiftool_num_words((spif_charptr_t) s); free(s); }
    { char *a = strdup("1.2beta3"), *b = strdup("1.2rc1"); (void) spiftool_version_compare((spif_charptr_t) a, (spif_charptr_t) b); free(a); free(b); }
    { char *s = strdup("  p  q\t"); s = (char *) spiftool_condense_whitespace((spif_charptr_t) s); (void) spiftool_chomp((spif_charptr_t) s); free(s); }
    { char d[8]; char *s = strdup("AbC"); spiftool_safe_strncpy((spif_charptr_t) d, (spif_charptr_t) s, sizeof d); (void) spiftool_downcase_str((spif_charptr_t) s); (void) spiftool_upcase_str((spif_charptr_t) s);
      char *t = (char *) spiftool_substr((spif_charptr_t) s, 1, 1); free(t); free(s); }
    { spif_tok_t t = spif_tok_new_from_ptr((spif_charptr_t) "m:n o"); spif_tok_set_sep(t, spif_str_new_from_ptr((spif_charptr_t) ":")); spif_tok_eval(t); spif_tok_del(t); }
}
#endif
