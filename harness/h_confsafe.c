/* h_confsafe.c — C11: the config subsystem is memory-safe and spawns nothing on arbitrary files and paths.
 * (1) E2 over hostile files (<= N lines from a hostile line alphabet x file-shape variants);
 * (2) E2 over file/dir/pathlist length combinations up to and beyond PATH_MAX;
 * (3) spawn trap with positive controls, and spiftool_temp_file over umask x TMPDIR/TMP x template length;
 * (4) E1 over init / register / parse / expand / free cycles with a heap baseline; counter sweep 0..300. */
#include <dirent.h>
#include "confcommon.h"
#include <fcntl.h>

static int g_hcalls;
static void *ctx_handler(spif_charptr_t b, void *s) { (void) b; g_hcalls++; return s; }
static spif_charptr_t my_builtin(spif_charptr_t p) { (void) p; return (spif_charptr_t) STRDUP("B"); }

/* ------------------------------------------------------------------ (1) hostile files */
enum { H_PCT, H_PCT_SP, H_PCT_X, H_INCLUDE, H_INCLUDE_NX, H_BEGIN, H_BEGIN_SP, H_END, H_E, H_B, H_L20478, H_L20479, H_L20480, H_L20481, H_L41000, H_NUL, H_BSLASH, H_DOLLAR_BRACE,
       H_FF, H_GET_OPEN, H_QUOTE, H_BEGIN_A, H_TEXT, H_PUT, H_PUT_KV, H_GET_KD, H_GET_K, H_PUT_GROW, H_NESTED_GROW, NHOST };
static size_t hostile_line(int k, char *out)          /* returns length; no newline */
{
    static const int longs[5] = { 20478, 20479, 20480, 20481, 41000 };
    switch (k) {
    case H_PCT: return (size_t) sprintf(out, "%%"); case H_PCT_SP: return (size_t) sprintf(out, "%% "); case H_PCT_X: return (size_t) sprintf(out, "%%x");
    case H_INCLUDE: return (size_t) sprintf(out, "%%include"); case H_INCLUDE_NX: return (size_t) sprintf(out, "%%include /nonexistent/verif/file");
    case H_BEGIN: return (size_t) sprintf(out, "begin"); case H_BEGIN_SP: return (size_t) sprintf(out, "begin "); case H_END: return (size_t) sprintf(out, "end");
    case H_E: return (size_t) sprintf(out, "e"); case H_B: return (size_t) sprintf(out, "b");
    case H_L20478: case H_L20479: case H_L20480: case H_L20481: case H_L41000: { int n = longs[k - H_L20478]; memset(out, 'L', (size_t) n); out[n] = 0; return (size_t) n; }
    case H_NUL: memcpy(out, "ab\0cd", 5); return 5;
    case H_BSLASH: return (size_t) sprintf(out, "ab\\");
    case H_DOLLAR_BRACE: return (size_t) sprintf(out, "x ${");
    case H_FF: memcpy(out, "\xff\xff \xfe", 4); out[4] = 0; return 4;
    case H_GET_OPEN: return (size_t) sprintf(out, "v %%get(");
    case H_QUOTE: return (size_t) sprintf(out, "begin '");
    case H_BEGIN_A: return (size_t) sprintf(out, "begin A");
    case H_TEXT: return (size_t) sprintf(out, "text ~ $V");
    case H_PUT_KV: return (size_t) sprintf(out, "%%put(k v1)");
    case H_GET_KD: return (size_t) sprintf(out, "v %%get(k d)");
    case H_GET_K: return (size_t) sprintf(out, "v %%get(k)");
    case H_PUT_GROW: return (size_t) sprintf(out, "%%put(d $L$L)");                       /* the argument grows from 4 to 80 characters on expansion */
    case H_NESTED_GROW: return (size_t) sprintf(out, "v %%get(q %%random($L)-t)z");
    default: return (size_t) sprintf(out, "%%put(k");
    }
}
static const char *HN[NHOST] = { "%", "% ", "%x", "%include", "%include /nonexistent", "begin", "begin ", "end", "e", "b", "<20478 x L>", "<20479 x L>", "<20480 x L>", "<20481 x L>", "<41000 x L>", "ab<NUL>cd",
                                 "ab\\", "x ${", "<0xFF 0xFF 0x20 0xFE>", "v %get(", "begin '", "begin A", "text ~ $V", "%put(k", "%put(k v1)", "v %get(k d)", "v %get(k)", "%put(d $L$L)", "v %get(q %random($L)-t)z" };
enum { V_NORMAL, V_NO_FINAL_NL, V_MAGIC_NO_GT, V_MAGIC_LONG, NVAR };
static int g_n;
static void h_desc(uint64_t idx, void *ctx, char *b, size_t n)
{
    int d[8]; (void) ctx; int var = (int) (idx % NVAR); mc_word_decode(idx / NVAR, NHOST, g_n, d);
    static const char *vn[NVAR] = { "", " (no final newline)", " (magic line without '>')", " (magic line of 300 bytes)" };
    size_t o = (size_t) snprintf(b, n, "hostile config file%s:", vn[var]);
    for (int i = 0; i < g_n; i++) o += (size_t) snprintf(b + o, n - o, " [%s]", HN[d[i]]);
}
static void parse_guarded_file(const char *path, const char *shape)
{
    names_once();
    spifconf_init_subsystem();
    spifconf_register_context((spif_charptr_t) "A", ctx_handler);
    g_spawns = 0; g_errors = 0; g_open_files = g_opens = 0; g_hcalls = 0;
    env_new_epoch();
    g_env_on = 1; g_ledger_on = 1; g_allow_fork = 0; g_home = "/h";
    spif_charptr_t r = spifconf_parse((spif_charptr_t) path, NULL, NULL);
    g_env_on = 0; g_ledger_on = 0; g_allow_fork = 1;
    if (r) FREE(r);
    if (g_spawns) FAIL("spifconf_parse", "spawn", shape, "a process was spawned although the text has no backquote, %%exec or %%preproc: %s", g_spawn_what);
    if (g_open_files) FAIL("spifconf_parse", "fd-leak", shape, "%d files opened by the parser were not closed", g_open_files);
    if (fstate_idx != 0) FAIL("spifconf_parse", "model:file-stack-not-restored", shape, "file stack index %d after parsing", fstate_idx);
    mc_outcome((uint64_t) g_errors * 100003u + (uint64_t) g_hcalls * 101u + (uint64_t) g_opens * 7u + (uint64_t) ctx_state_idx);      /* what the parse did, as far as the harness sees it */
    spifconf_free_subsystem();
}
static void h_case(uint64_t idx, void *ctx)
{
    int d[8]; (void) ctx; int var = (int) (idx % NVAR); mc_word_decode(idx / NVAR, NHOST, g_n, d);
    static char *data; if (!data) data = malloc(200000);
    size_t o = 0;
    if (var == V_MAGIC_NO_GT) o += (size_t) sprintf(data, "<verif-1.0\n");
    else if (var == V_MAGIC_LONG) { o += (size_t) sprintf(data, "<verif-1.0"); memset(data + o, 'm', 290); o += 290; o += (size_t) sprintf(data + o, ">\n"); }
    else o += (size_t) sprintf(data, "<verif-1.0>\n");
    int longline = 0;
    for (int i = 0; i < g_n; i++) { o += hostile_line(d[i], data + o); if (d[i] >= H_L20478 && d[i] <= H_L41000) longline = 1; if (!(var == V_NO_FINAL_NL && i == g_n - 1)) data[o++] = '\n'; }
    const char *shape = longline ? "line at or over the 20480-byte limit" : (var == V_NO_FINAL_NL ? "no final newline" : (var ? "odd magic line" : "hostile lines"));
    mc_set_shape(shape);
    char path[300]; snprintf(path, sizeof path, "%s/host-%d.cfg", scratch(), (int) getpid());
    write_file(path, data, o);
    parse_guarded_file(path, shape);
    mc_nontrivial();
}
static void s_desc(uint64_t idx, void *ctx, char *b, size_t n) { (void) ctx; static const char *w[] = { "empty file", "magic line only", "magic line only, no newline", "300 unmatched [begin A] lines", "400 [%include /nonexistent] lines", "one byte: '<'" }; snprintf(b, n, "special config file: %s", w[idx]); }
static void s_case(uint64_t idx, void *ctx)
{
    static char data[40000]; size_t o = 0; (void) ctx;
    switch (idx) {
    case 0: break;
    case 1: o = (size_t) sprintf(data, "<verif-1.0>\n"); break;
    case 2: o = (size_t) sprintf(data, "<verif-1.0>"); break;
    case 3: o = (size_t) sprintf(data, "<verif-1.0>\n"); for (int i = 0; i < 300; i++) o += (size_t) sprintf(data + o, "begin A\n"); break;
    case 4: o = (size_t) sprintf(data, "<verif-1.0>\n"); for (int i = 0; i < 400; i++) o += (size_t) sprintf(data + o, "%%include /nonexistent/x\n"); break;
    case 5: o = (size_t) sprintf(data, "<"); break;
    }
    mc_set_shape("special file");
    char path[300]; snprintf(path, sizeof path, "%s/spec-%d.cfg", scratch(), (int) getpid());
    write_file(path, data, o);
    parse_guarded_file(path, "special file");
    mc_nontrivial();
}

/* program names of any length: the magic first line is "<NAME-VERSION>", built in a fixed 30-byte buffer */
static const int NLEN[] = { 1, 26, 27, 28, 29, 30, 40, 300 };
#define NNLEN 8
#define NFIRST 8
static void pn_desc(uint64_t idx, void *ctx, char *b, size_t n)
{
    static const char *w[NFIRST] = { "<NAME-1.0>", "<NAME", "<NAME>", "<NAME cut to 28 chars", "<NAME without newline", "<NAME-", "<NAMEzzz>-1.0", "<NAME-1.0 without '>'" }; (void) ctx;
    snprintf(b, n, "program name of %d characters; config file whose first line is %s, then one ordinary line", NLEN[idx / NFIRST], w[idx % NFIRST]);
}
static void pn_case(uint64_t idx, void *ctx)
{
    int nl = NLEN[idx / NFIRST], v = (int) (idx % NFIRST); (void) ctx;
    names_once();
    char *name = malloc((size_t) nl + 1); for (int i = 0; i < nl; i++) name[i] = (char) ('a' + i % 26); name[nl] = 0;
    static char data[1200]; size_t o = 0;
    switch (v) {
    case 0: o = (size_t) sprintf(data, "<%s-1.0>\n", name); break;
    case 1: o = (size_t) sprintf(data, "<%s\n", name); break;
    case 2: o = (size_t) sprintf(data, "<%s>\n", name); break;
    case 3: o = (size_t) sprintf(data, "<%.28s\n", name); break;
    case 4: o = (size_t) sprintf(data, "<%s", name); break;
    case 5: o = (size_t) sprintf(data, "<%s-\n", name); break;
    case 6: o = (size_t) sprintf(data, "<%szzz>-1.0\n", name); break;
    case 7: o = (size_t) sprintf(data, "<%s-1.0\n", name); break;
    }
    if (v != 4) o += (size_t) sprintf(data + o, "x 1\n");
    char shape[64]; snprintf(shape, sizeof shape, "program name %s 28 characters", nl < 28 ? "below" : "of at least");
    mc_set_shape(shape);
    char path[300]; snprintf(path, sizeof path, "%s/pn-%d.cfg", scratch(), (int) getpid());
    write_file(path, data, o);
    spif_charptr_t keep = libast_program_name; libast_program_name = (spif_charptr_t) name;
    parse_guarded_file(path, shape);
    libast_program_name = keep;
    free(name);
    mc_nontrivial();
}

/* ------------------------------------------------------------------ (2) paths */
static const int PLEN[] = { 0, 1, 255, 4093, 4094, 4095, 4096, 4097, 40000, 70000, 32767, 32768, 65534, 65535, 65536, 66000 };     /* incl. lengths whose sums wrap a 15/16-bit length */
#define NPLEN 16
static char *mkcomp(int n, char c) { char *p = malloc((size_t) n + 1); memset(p, c, (size_t) n); p[n] = 0; return p; }
static char *pathlist_of(int k)        /* 0 NULL, 1 "", 2..11 single component, 12..27 two components, 28 ":x", 29 "x:", 30 "::" */
{
    static const int two[4] = { 1, 4093, 4096, 70000 };
    if (k == 0) return NULL;
    if (k == 1) return strdup("");
    if (k < 12) return mkcomp(PLEN[k - 2], 'p');
    if (k < 28) { int a = two[(k - 12) / 4], b = two[(k - 12) % 4]; char *p = malloc((size_t) a + (size_t) b + 2); memset(p, 'p', (size_t) a); p[a] = ':'; memset(p + a + 1, 'q', (size_t) b); p[a + 1 + b] = 0; return p; }
    return strdup(k == 28 ? ":x" : (k == 29 ? "x:" : "::"));
}
#define NPL 31
static void p_desc(uint64_t idx, void *ctx, char *b, size_t n)
{
    (void) ctx; int f = (int) (idx % NPLEN), d = (int) ((idx / NPLEN) % (NPLEN + 1)), pl = (int) (idx / NPLEN / (NPLEN + 1));
    snprintf(b, n, "spifconf_find_file(file of %d chars, dir %s, pathlist shape #%d)", PLEN[f], d ? "of given length" : "NULL", pl);
}
static void p_case(uint64_t idx, void *ctx)
{
    (void) ctx; int f = (int) (idx % NPLEN), d = (int) ((idx / NPLEN) % (NPLEN + 1)), pl = (int) (idx / NPLEN / (NPLEN + 1));
    char *file = mkcomp(PLEN[f], 'f'), *dir = d ? mkcomp(PLEN[d - 1], 'd') : NULL, *plist = pathlist_of(pl);
    const char *shape = (PLEN[f] >= 4093 || (d && PLEN[d - 1] >= 4093)) ? "file or dir around PATH_MAX" : (pl >= 2 ? "pathlist with long components" : "short");
    mc_set_shape(shape);
    g_spawns = 0; g_allow_fork = 0;
    spif_charptr_t r = spifconf_find_file((spif_charptr_t) file, (spif_charptr_t) dir, (spif_charptr_t) plist);
    g_allow_fork = 1;
    if (r && strnlen((char *) r, PATH_MAX + 1) > PATH_MAX) FAIL("spifconf_find_file", "model:unterminated-result", shape, "result is not terminated within PATH_MAX");
    if (g_spawns) FAIL("spifconf_find_file", "spawn", shape, "a process was spawned: %s", g_spawn_what);
    free(file); free(dir); free(plist);
    if (PLEN[f] > 255 || pl > 1) mc_nontrivial();
}
/* a lookup that must succeed, so the positive path is exercised too */
static void p_found(void *ctx)
{
    (void) ctx; char dir[300], full[400]; snprintf(dir, sizeof dir, "%s/pdir-%d", scratch(), (int) getpid()); mkdir(dir, 0700);
    snprintf(full, sizeof full, "%s/f.cfg", dir); write_file(full, "x\n", 2);
    char plist[700]; snprintf(plist, sizeof plist, "/nonexistent:%s:", dir);
    spif_charptr_t r = spifconf_find_file((spif_charptr_t) "f.cfg", NULL, (spif_charptr_t) plist);
    if (!r || !strstr((char *) r, "f.cfg")) FAIL("spifconf_find_file", "model:not-found", "positive control", "an existing file on the search path was not found");
    r = spifconf_find_file((spif_charptr_t) "f.cfg", (spif_charptr_t) dir, NULL);
    if (!r) FAIL("spifconf_find_file", "model:not-found", "positive control", "dir/file lookup failed for an existing file");
}

/* ------------------------------------------------------------------ (3) spawn trap controls and temp files */
static void spawn_controls(void *ctx)
{
    (void) ctx; names_once(); spifconf_init_subsystem();
    char *b = malloc(CONFIG_BUFF); g_env_on = 1; g_allow_fork = 0;
    strcpy(b, "x `true` y"); g_spawns = 0; spifconf_shell_expand((spif_charptr_t) b);
    if (!g_spawns) FAIL("spawn-trap", "harness:trap-dead", "positive control", "a backquote value did not reach the spawn trap");
    strcpy(b, "%exec(true)"); g_spawns = 0; spifconf_shell_expand((spif_charptr_t) b);
    if (!g_spawns) FAIL("spawn-trap", "harness:trap-dead", "positive control", "%%exec(true) did not reach the spawn trap");
    strcpy(b, "'`true`' plain $V ~"); g_spawns = 0; spifconf_shell_expand((spif_charptr_t) b);
    if (g_spawns) FAIL("spifconf_shell_expand", "spawn", "single-quoted backquote", "a backquote inside single quotes spawned: %s", g_spawn_what);
    g_env_on = 0; g_allow_fork = 1; free(b);
    spifconf_free_subsystem();
}
static void t_desc(uint64_t idx, void *ctx, char *b, size_t n)
{
    (void) ctx; static const int um[4] = { 0, 022, 077, 0777 }, tl[4] = { 1, 100, 250, 300 };
    snprintf(b, n, "spiftool_temp_file: umask %03o, TMPDIR %s, TMP %s, template of %d chars, 50 successive files", um[idx % 4], (idx / 4) & 1 ? "set" : "unset", (idx / 8) & 1 ? "set" : "unset", tl[(idx / 16) % 4]);
}
static void t_case(uint64_t idx, void *ctx)
{
    (void) ctx; static const int um[4] = { 0, 022, 077, 0777 }, tl[4] = { 1, 100, 250, 300 };
    int u = um[idx % 4], tlen = tl[(idx / 16) % 4]; g_tmp_mode = (int) ((idx / 4) & 3);
    const char *shape = tlen >= 250 ? "template near the 256-byte internal buffer" : "short template";
    mc_set_shape(shape);
    /* the wrapped getenv answers TMPDIR/TMP; with both unset the library uses /tmp */
    char names[50][400]; int got = 0; mode_t old = umask((mode_t) u);
    for (int i = 0; i < 50; i++) {
        size_t len = 400; char *buf = malloc(len); memset(buf, 't', (size_t) tlen); buf[tlen] = 0;
        g_env_on = 2;
        int fd = spiftool_temp_file((spif_charptr_t) buf, len);
        g_env_on = 0;
        if (fd >= 0) {
            struct stat st; if (fstat(fd, &st) || (st.st_mode & 07777) != 0600) FAIL("spiftool_temp_file", "model:mode", shape, "temporary file has mode %04o under umask %03o, expected 0600", (unsigned) (st.st_mode & 07777), (unsigned) u);
            for (int k = 0; k < got; k++) if (!strcmp(names[k], buf)) { FAIL("spiftool_temp_file", "model:name-not-unique", shape, "the same name \"%s\" was handed out twice", buf); break; }
            snprintf(names[got++], sizeof names[0], "%s", buf);
            if ((mode_t) umask((mode_t) u) != (mode_t) u) FAIL("spiftool_temp_file", "model:umask-not-restored", shape, "the process umask was left changed");
            close(fd); unlink(buf);
        }
        free(buf);
    }
    umask(old);
    if (tlen < 200 && got != 50) FAIL("spiftool_temp_file", "model:return", shape, "only %d of 50 temporary files could be created", got);
    mc_nontrivial();
}

/* ------------------------------------------------------------------ (4) lifecycle */
typedef struct { int init, nctx, nbi, kset, cycles, nullreg, scans, argvs, queued, pre; long base; int first_get_ok; } ls_t;
enum { O_INIT, O_REG_CTX, O_REG_BI, O_PARSE, O_PUT, O_GET, O_FREE, O_REG_NULL, O_DIRSCAN, O_ARGV, O_PARSE_QUEUED, O_PARSE_PREPROC, NLOPS };
static const char *LN[NLOPS] = { "init", "register_context", "register_builtin", "parse(file with %include, blocks, $V)", "expand %put(k v)", "expand x%get(k)y", "free", "register_context(\"null\") again", "expand %dirscan(dir with one file)", "parse_line(NULL, ...) x 10 (lines given on the command line)", "file_push(an open stream), then parse(file): the file is read, then the queued stream", "parse(file with [%preproc cat] [begin A] [x 1] [end] [y 2]; the preprocessor is emulated and copies its input)" };
static char g_lfile[300], g_linc[300], g_ldir[300], g_lpre[300];
static void l_name(int i, char *b, size_t n) { snprintf(b, n, "%s", LN[i]); }
static void *l_fresh(void)
{
    names_once();
    ls_t *s = calloc(1, sizeof *s);
    static int lpid; if ((int) getpid() != lpid) { lpid = (int) getpid();
        char d[600]; snprintf(g_linc, sizeof g_linc, "%s/linc-%d.cfg", scratch(), (int) getpid()); snprintf(g_lfile, 290, "%s/lmain-%d.cfg", scratch(), (int) getpid());
        snprintf(d, sizeof d, "<verif-1.0>\nincluded $V\n"); write_file(g_linc, d, strlen(d));
        snprintf(g_lpre, sizeof g_lpre, "%s/lpre-%d.cfg", scratch(), (int) getpid()); snprintf(d, sizeof d, "<verif-1.0>\n%%preproc cat\nbegin A\nx 1\nend\ny 2\n"); write_file(g_lpre, d, strlen(d));
        snprintf(g_ldir, sizeof g_ldir, "%s/ldir-%d", scratch(), (int) getpid()); mkdir(g_ldir, 0700); snprintf(d, sizeof d, "%s/f", g_ldir); write_file(d, "x", 1);
        snprintf(d, sizeof d, "<verif-1.0>\nbegin A\n%%include %s\n%%include /nonexistent/q\nv $V ${V} ~\nend\n%%put(p q)\n", g_linc); write_file(g_lfile, d, strlen(d));
    }
    s->base = mc_live_bytes();
    return s;
}
static int l_enabled(void *vs, int op) { ls_t *s = vs; if (op == O_INIT) return !s->init && s->cycles < 2; if (!s->init) return 0; if (op == O_REG_CTX) return s->nctx < 2; if (op == O_REG_BI) return s->nbi < 2; if (op == O_REG_NULL) return !s->nullreg; if (op == O_DIRSCAN) return s->scans < 1; if (op == O_ARGV) return s->argvs < 1; if (op == O_PARSE_QUEUED) return s->queued < 1; if (op == O_PARSE_PREPROC) return s->pre < 1; return 1; }
static void l_apply(void *vs, int op)
{
    ls_t *s = vs; const char *shape = LN[op]; char *b;
    mc_set_shape(shape);
    env_new_epoch();
    g_env_on = 1; g_allow_fork = 0; g_home = "/h"; g_spawns = 0;
    switch (op) {
    case O_INIT: spifconf_init_subsystem(); s->init = 1; s->nctx = s->nbi = 0; s->kset = 0; s->nullreg = 0; s->scans = 0; s->argvs = 0; s->queued = 0; s->pre = 0; break;
    case O_PARSE_QUEUED: {      /* the public file stack: a stream queued by the application is read after the file spifconf_parse() is given */
        static char qname[] = "<queued stream>";
        FILE *q = fopen(g_linc, "r");
        if (q) { spifconf_register_fstate(q, (spif_charptr_t) qname, NULL, 1, 0);
            spif_charptr_t r = spifconf_parse((spif_charptr_t) g_lfile, NULL, NULL); if (!r) FAIL("spifconf_parse", "model:return", shape, "returned NULL"); else FREE(r);
            if (fstate_idx != 0) { FAIL("spifconf_parse", "model:file-stack-not-restored", shape, "file stack index %d after parsing with a queued stream", fstate_idx); fstate_idx = 0; } }
        s->queued++; break; }
    case O_PARSE_PREPROC: {     /* the preprocessed copy is a temporary file of the parser's: read instead of the original, removed and forgotten when the parse is over */
        g_exec_emul = 1; g_preprocs = 0; g_preproc_out[0] = 0;
        spif_charptr_t r = spifconf_parse((spif_charptr_t) g_lpre, NULL, NULL);
        g_exec_emul = 0;
        if (!r) FAIL("spifconf_parse", "model:return", shape, "returned NULL"); else FREE(r);
        if (g_preprocs != 1) FAIL("spifconf_parse", "model:preprocessor-runs", shape, "the preprocessor was started %d times for one %%preproc line", g_preprocs);
        if (g_preproc_out[0] && access(g_preproc_out, F_OK) == 0) { FAIL("spifconf_parse", "temp-file-left", shape, "the preprocessed copy %s still exists after the parse", g_preproc_out); unlink(g_preproc_out); }
        if (fstate_idx != 0) { FAIL("spifconf_parse", "model:file-stack-not-restored", shape, "file stack index %d after parsing", fstate_idx); fstate_idx = 0; }
        s->pre++; break; }
    case O_ARGV: {          /* the fp == NULL mode of spifconf_parse_line: "context text..." given outside any file */
        static char inc[400]; snprintf(inc, sizeof inc, "A %%include %s", g_linc);
        const char *AL[11] = { "A attr value $V", "", "# c", "zz text", "A", "B x", "A %", "A %x", inc, "A %preproc cat", "A # a comment after the context name" };
        for (int i = 0; i < 11; i++) { b = malloc(CONFIG_BUFF); strcpy(b, AL[i]); spifconf_parse_line(NULL, (spif_charptr_t) b); free(b);
            if (fstate_idx != 0) { FAIL("spifconf_parse_line", "model:file-stack-not-restored", shape, "file stack index is %d after parse_line(NULL, \"%s\")", fstate_idx, AL[i]); fstate_idx = 0; break; }
            if (ctx_state_idx != 0) { FAIL("spifconf_parse_line", "model:context-stack-depth", shape, "context stack index is %d after parse_line(NULL, \"%s\")", ctx_state_idx, AL[i]); ctx_state_idx = 0; break; } }
        g_spawns = 0;                       /* the %preproc line may run its command; the other lines may not, and the parse op checks that */
        s->argvs++; break; }
    case O_REG_NULL: spifconf_register_context((spif_charptr_t) "null", ctx_handler); s->nullreg = 1; break;        /* replaces the built-in null context, whatever else is registered */
    case O_DIRSCAN: b = malloc(CONFIG_BUFF); snprintf(b, CONFIG_BUFF, "x%%dirscan(%s)y", g_ldir); spifconf_shell_expand((spif_charptr_t) b);
        if (strcmp(b, "xf y")) FAIL("spifconf_shell_expand", "model:value", shape, "x%%dirscan(dir)y gave \"%s\"", b);
        free(b); s->scans++; break;
    case O_REG_CTX: spifconf_register_context((spif_charptr_t) (s->nctx ? "B" : "A"), ctx_handler); s->nctx++; break;
    case O_REG_BI: spifconf_register_builtin(s->nbi ? "mybi2" : "mybi", my_builtin); s->nbi++; break;
    case O_PARSE: { spif_charptr_t r = spifconf_parse((spif_charptr_t) g_lfile, NULL, NULL); if (!r) FAIL("spifconf_parse", "model:return", shape, "returned NULL"); else FREE(r); break; }
    case O_PUT: b = malloc(CONFIG_BUFF); strcpy(b, "%put(k v)"); spifconf_shell_expand((spif_charptr_t) b); free(b); s->kset = 1; break;
    case O_GET: b = malloc(CONFIG_BUFF); strcpy(b, "x%get(k)y"); spifconf_shell_expand((spif_charptr_t) b);
        if (strcmp(b, s->kset ? "xvy" : "xy")) FAIL("spifconf_shell_expand", "model:value", s->cycles ? "second cycle" : "first cycle", "x%%get(k)y gave \"%s\" with k %s in this cycle", b, s->kset ? "set" : "not set");
        free(b); break;
    case O_FREE: spifconf_free_subsystem(); s->init = 0; s->cycles++;
        { long left = mc_live_bytes() - s->base; if (left) FAIL("spifconf_free_subsystem", "leak", s->cycles > 1 ? "second cycle" : "first cycle", "%ld bytes still allocated after spifconf_free_subsystem()", left); }
        break;
    }
    g_env_on = 0; g_allow_fork = 1;
    if (g_spawns) FAIL("spifconf", "spawn", shape, "a process was spawned: %s", g_spawn_what);
}
static void l_canon(void *vs, char *b, size_t n) { ls_t *s = vs; snprintf(b, n, "init=%d ctx=%d bi=%d k=%d null=%d scans=%d argv=%d queued=%d pre=%d cycles=%d held=%ld", s->init, s->nctx, s->nbi, s->kset, s->nullreg, s->scans, s->argvs, s->queued, s->pre, s->cycles, s->init ? 0L : mc_live_bytes() - s->base); }
static void l_teardown(void *vs)
{
    ls_t *s = vs;
    if (s->init) { spifconf_free_subsystem(); long left = mc_live_bytes() - s->base; if (left) FAIL("spifconf_free_subsystem", "leak", "teardown", "%ld bytes still allocated after spifconf_free_subsystem()", left); }
    free(s);
}
/* counter sweep: n contexts and n built-ins */
static void c_desc(uint64_t idx, void *ctx, char *b, size_t n) { (void) ctx; snprintf(b, n, "init, register %d contexts and %d built-ins, use the last of each, call an unknown %%zz(, free", (int) idx, (int) idx); }
static void c_case(uint64_t idx, void *ctx)
{
    int n = (int) idx; char nm[32]; (void) ctx;
    char shape[48]; snprintf(shape, sizeof shape, "%s registrations", n < 20 ? "fewer than 20" : (n < 160 ? "20..159" : (n < 256 ? "160..255" : "256 or more")));
    mc_set_shape(shape);
    names_once();
    long base = mc_live_bytes();
    spifconf_init_subsystem();
    for (int i = 0; i < n; i++) { snprintf(nm, sizeof nm, "c%d", i); spifconf_register_context((spif_charptr_t) nm, ctx_handler); }
    for (int i = 0; i < n; i++) { snprintf(nm, sizeof nm, "b%d", i); spifconf_register_builtin(nm, my_builtin); }
    char *b = malloc(CONFIG_BUFF); g_env_on = 1; g_allow_fork = 0;
    int last = n > 240 ? 240 : n - 1;
    if (n) { snprintf(b, CONFIG_BUFF, "x%%b%d()y", last); spifconf_shell_expand((spif_charptr_t) b); if (strcmp(b, "xBy")) FAIL("spifconf_shell_expand", "model:value", shape, "built-in b%d of %d gave \"%s\"", last, n, b); }
    strcpy(b, "p %zz(q) r"); spifconf_shell_expand((spif_charptr_t) b);
    g_env_on = 0; g_allow_fork = 1; free(b);
    spifconf_free_subsystem();
    long left = mc_live_bytes() - base;
    if (left) FAIL("spifconf_free_subsystem", "leak", shape, "%ld bytes still allocated after registering %d contexts/built-ins and freeing", left, n);
    mc_nontrivial();
}


/* ------------------------------------------------------------------ %dirscan on directories whose listing reaches the line-buffer limit */
static void ds_desc(uint64_t idx, void *ctx, char *b, size_t n) { (void) ctx; static const int nl[2] = { 255, 127 }; int L = nl[idx / 5], k = (int) (CONFIG_BUFF / (L + 1)) - 2 + (int) (idx % 5); snprintf(b, n, "%%dirscan() of a directory with %d regular files whose names have %d characters (%d bytes of listing, buffer %d)", k, L, k * (L + 1), CONFIG_BUFF); }
static void ds_case(uint64_t idx, void *ctx)
{
    static const int nl[2] = { 255, 127 }; int L = nl[idx / 5], k = (int) (CONFIG_BUFF / (L + 1)) - 2 + (int) (idx % 5); (void) ctx;
    char dir[300], path[700], name[300];
    const char *shape = k * (L + 1) >= CONFIG_BUFF ? "listing reaches the buffer size" : "listing below the buffer size";
    mc_set_shape(shape);
    snprintf(dir, sizeof dir, "%s/ds-%d-%d", scratch(), (int) getpid(), (int) idx); mkdir(dir, 0700);
    for (int i = 0; i < k; i++) { memset(name, 'n', (size_t) L); name[L] = 0; snprintf(name, 8, "%06d", i); name[6] = 'n'; snprintf(path, sizeof path, "%s/%s", dir, name); write_file(path, "", 0); }
    names_once(); spifconf_init_subsystem();
    char *b = malloc(CONFIG_BUFF); snprintf(b, CONFIG_BUFF, "%%dirscan(%s)", dir);
    g_env_on = 1; g_allow_fork = 0;
    char *r = (char *) spifconf_shell_expand((spif_charptr_t) b);
    g_env_on = 0; g_allow_fork = 1;
    if (r && strnlen(r, CONFIG_BUFF) >= CONFIG_BUFF) FAIL("builtin_dirscan", "model:too-long", shape, "result not terminated within the line buffer");
    free(b);
    spifconf_free_subsystem();
    for (int i = 0; i < k; i++) { memset(name, 'n', (size_t) L); name[L] = 0; snprintf(name, 8, "%06d", i); name[6] = 'n'; snprintf(path, sizeof path, "%s/%s", dir, name); unlink(path); }
    rmdir(dir);
    mc_nontrivial();
}

/* ------------------------------------------------------------------ %dirscan on a directory whose spelling is nearly PATH_MAX long: directory + "/" + entry name crosses the limit */
static const int DLP[] = { 3000, 3838, 3839, 3840, 3841, 4000, 4079, 4090, 4092, 4093, 4094, 4095 };
#define NDLP ((int) (sizeof DLP / sizeof DLP[0]))
static void dl_desc(uint64_t idx, void *ctx, char *b, size_t n) { (void) ctx; snprintf(b, n, "%%dirscan() of a directory spelled with %d characters (padded with /./) that holds one regular file with a name of 255 characters (PATH_MAX %d)", DLP[idx], PATH_MAX); }
static void dl_case(uint64_t idx, void *ctx)
{
    int want = DLP[idx]; (void) ctx;
    char dir[300], path[700], name[300]; const char *shape = want + 1 + 255 + 1 > PATH_MAX ? "directory and entry name together exceed PATH_MAX" : "directory and entry name fit in PATH_MAX"; mc_set_shape(shape);
    snprintf(dir, sizeof dir, "%s/dl-%d-%d", scratch(), (int) getpid(), (int) idx); mkdir(dir, 0700);
    memset(name, 'a', 255); name[255] = 0; snprintf(path, sizeof path, "%s/%s", dir, name); write_file(path, "", 0);
    char *sp = malloc(8192); size_t o = (size_t) snprintf(sp, 8192, "%s", dir);
    while ((int) o + 2 <= want) { sp[o++] = '/'; sp[o++] = '.'; } if ((int) o < want) { memmove(sp + 1, sp, o); sp[0] = '/'; o++; } sp[o] = 0;       /* a leading extra slash makes up an odd length */
    names_once(); spifconf_init_subsystem();
    char *b = malloc(CONFIG_BUFF); snprintf(b, CONFIG_BUFF, "[%%dirscan(%s)]", sp);
    g_env_on = 1; g_allow_fork = 0;
    char *r = (char *) spifconf_shell_expand((spif_charptr_t) b);
    g_env_on = 0; g_allow_fork = 1;
    if (r && strnlen(r, CONFIG_BUFF) >= CONFIG_BUFF) FAIL("builtin_dirscan", "model:too-long", shape, "result not terminated within the line buffer");
    else if (r && (int) o + 1 + 255 + 1 <= PATH_MAX && (strlen(r) != 258 || r[1] != 'a')) FAIL("builtin_dirscan", "model:value", shape, "the one file of the directory is not listed: result has %zu characters", strlen(r));
    uint64_t rl = r ? strlen(r) : 0;
    free(b); free(sp);
    spifconf_free_subsystem();
    unlink(path); rmdir(dir);
    mc_nontrivial();
    mc_outcome(rl);
}

/* ------------------------------------------------------------------ commands near the line-buffer limit with a long TMPDIR: "COMMAND >TMPDIR/Eterm-exec-XXXXXX" is built in a buffer of the line size */
#define XL_T 150
static void xl_desc(uint64_t idx, void *ctx, char *b, size_t n) { (void) ctx; snprintf(b, n, "spifconf_shell_expand(\"`e aaa..`\") with a command of %d characters and a TMPDIR of %d characters (line buffer %d)", (int) (CONFIG_BUFF - XL_T - 45 + (int) idx), XL_T, CONFIG_BUFF); }
static void xl_case(uint64_t idx, void *ctx)
{
    int P = CONFIG_BUFF - XL_T - 45 + (int) idx; (void) ctx;
    const char *shape = P + XL_T + 18 + 8 > CONFIG_BUFF ? "command and temporary-file name together exceed the line buffer" : "command and temporary-file name fit in the line buffer"; mc_set_shape(shape);
    static char tdir[400]; { size_t o = (size_t) snprintf(tdir, sizeof tdir, "%s/", scratch()); while (o < XL_T) tdir[o++] = 'd'; tdir[o] = 0; mkdir(tdir, 0700); }
    names_once(); spifconf_init_subsystem();
    char *b = malloc(CONFIG_BUFF); b[0] = '`'; b[1] = 'e'; b[2] = ' '; memset(b + 3, 'a', (size_t) P - 2); b[P + 1] = '`'; b[P + 2] = 0;
    g_tmpdir_override = tdir; g_env_on = 1; g_allow_fork = 0; g_exec_emul = 1;
    char *r = (char *) spifconf_shell_expand((spif_charptr_t) b);
    g_exec_emul = 0; g_env_on = 0; g_allow_fork = 1; g_tmpdir_override = NULL;
    if (r && strnlen(r, CONFIG_BUFF) >= CONFIG_BUFF) FAIL("builtin_exec", "model:too-long", shape, "result not terminated within the line buffer");
    uint64_t rl = r ? strnlen(r, CONFIG_BUFF) : 0;
    free(b);
    spifconf_free_subsystem();
    { DIR *d = opendir(tdir); struct dirent *e; char f[700]; if (d) { while ((e = readdir(d))) if (e->d_name[0] != '.') { snprintf(f, sizeof f, "%s/%s", tdir, e->d_name); unlink(f); } closedir(d); } }
    mc_nontrivial();
    mc_outcome(rl > 100 ? 2 : (rl ? 1 : 0));
}

int main(int argc, char **argv)
{
    mc_init("C11", argc, argv);
    libast_debug_level = (unsigned) mc_dlevel();        /* --dlevel=N: the whole run at runtime debug level N (default 0) */
    int N = (int) mc_arg_int("N", mc_thorough() ? 3 : 2);
    mc_info("alphabet", "(1) files of <= %d lines from %d hostile line kinds x {normal, no final newline, magic without '>', 300-byte magic} + 6 special files; (2) find_file: 16 file lengths x 17 dir choices (0..70000 characters, incl. 32767/32768/65534..66000) x 31 pathlist shapes (0..70000 chars); "
            "(3) spawn-trap positive controls, temp_file: 4 umasks x TMPDIR/TMP set/unset x 4 template lengths x 50 files; (4) lifecycle E1 over {init, register_context, register_context(null) again, register_builtin, parse, %%put, %%get, %%dirscan, parse_line(NULL,..), free}, 2 cycles; counter sweep 0..300", N, NHOST);
    mc_guarded("controls", "spawn-trap positive controls: backquote value and %exec(true) must reach the trap; single-quoted backquote must not", spawn_controls, NULL);
    mc_guarded("find_file", "find_file positive control: an existing file is found via dir and via the search path", p_found, NULL);
    mc_e2_level("special_files", 1, 6, s_case, s_desc, NULL);
    mc_e2_level("program_name_length", 300, (uint64_t) NNLEN * NFIRST, pn_case, pn_desc, NULL);
    for (g_n = 1; g_n <= N; g_n++) if (!mc_e2_level("hostile_files", g_n, mc_words_of_len(NHOST, g_n) * NVAR, h_case, h_desc, NULL)) break;
    mc_e2_level("paths", 1, (uint64_t) NPLEN * (NPLEN + 1) * NPL, p_case, p_desc, NULL);
    mc_e2_level("temp_file", 1, 64, t_case, t_desc, NULL);
    mc_e2_level("counters", 300, 301, c_case, c_desc, NULL);
    mc_e2_level("dirscan_limit", 1, 10, ds_case, ds_desc, NULL);
    mc_e2_level("dirscan_long_path", PATH_MAX, NDLP, dl_case, dl_desc, NULL);
    mc_e2_level("exec_near_limit_long_tmpdir", XL_T, 42, xl_case, xl_desc, NULL);
    { mc_sys sys = { "lifecycle", NLOPS, l_name, l_fresh, l_enabled, l_apply, NULL, l_canon, l_teardown, (int) mc_arg_int("lookahead", 1) }; mc_e1_run(&sys, (int) mc_arg_int("depth", mc_thorough() ? 9 : 7)); }
    return mc_finish();
}
