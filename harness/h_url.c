/* h_url.c — C14: URL objects decompose and recompose every well-formed URL exactly.
 * E2 over component tuples x lookup outcomes (value oracle) and over all strings of length <= N
 * over {a : / @ ? .} x lookup outcomes (safety + idempotence).  getprotobyname/getservbyname are
 * owned by the harness; every result lives in a heap block that is freed at the next lookup. */
#include "hcommon.h"
#include <ctype.h>
#include <netdb.h>
#include <arpa/inet.h>

enum { LK_PROTO, LK_SERV_TCP, LK_SERV_UDP, LK_SERV_NOPROTO, LK_NONE, NLK };
static const char *LKN[NLK] = { "word is a protocol", "word is a tcp service", "word is a udp-only service", "service found but its protocol lookup fails", "nothing found" };
static int g_lk; static const char *g_word;
static struct protoent *g_pe; static struct servent *g_se; static int g_lookups;

struct protoent *__wrap_getprotobyname(const char *name)
{
    g_lookups++;
    if (g_pe) { free(g_pe->p_name); free(g_pe); g_pe = NULL; }      /* like libc: each lookup family reuses its own result buffer, so a stale protoent is a use-after-free */
    int found = 0;
    /* the first lookup of a parse asks about the scheme word; a later one asks about the protocol of the service entry just found */
    if (g_lookups == 1) found = (g_lk == LK_PROTO);
    else found = (g_lk == LK_SERV_TCP || g_lk == LK_SERV_UDP || g_lk == LK_PROTO);
    if (!found) return NULL;
    g_pe = calloc(1, sizeof *g_pe); g_pe->p_name = strdup(name ? name : ""); g_pe->p_proto = 6;
    return g_pe;
}
struct servent *__wrap_getservbyname(const char *name, const char *proto)
{
    g_lookups++;
    if (g_se) { free(g_se->s_name); free(g_se->s_proto); free(g_se); g_se = NULL; }
    int found = 0, port = 0;
    if (g_lk == LK_SERV_TCP && proto && !strcmp(proto, "tcp")) { found = 1; port = 4242; }
    else if (g_lk == LK_SERV_UDP && proto && !strcmp(proto, "udp")) { found = 1; port = 60177; }      /* above 32767: a port is an unsigned 16-bit number */
    else if (g_lk == LK_SERV_NOPROTO && proto && !strcmp(proto, "tcp")) { found = 1; port = 4444; }
    if (!found) return NULL;
    g_se = calloc(1, sizeof *g_se); g_se->s_name = strdup(name ? name : ""); g_se->s_proto = strdup(proto); g_se->s_port = htons((unsigned short) port);
    return g_se;
}

static const char *PROTO[] = { NULL, "http", "tcp", "zz", "" };
static const char *SLASH[] = { "", "//" };
static const char *USER[] = { NULL, "u" };
static const char *PASS[] = { NULL, "p" };
static const char *HOST[] = { "h", "h.x", "10.0.0.1", NULL /* bare path */ };
static const char *PORT[] = { NULL, "8" };
static const char *PATH[] = { NULL, "/", "/p", "/p@q:r" };
static const char *QUERY[] = { NULL, "q", "a?b" };
typedef struct { const char *proto, *slash, *user, *pass, *host, *port, *path, *query; int lk; } tup_t;
#define NTUP (5ULL * 2 * 2 * 2 * 4 * 2 * 4 * 3 * NLK)
static void tup_decode(uint64_t i, tup_t *t)
{
    t->lk = (int) (i % NLK); i /= NLK;
    t->proto = PROTO[i % 5]; i /= 5; t->slash = SLASH[i % 2]; i /= 2; t->user = USER[i % 2]; i /= 2; t->pass = PASS[i % 2]; i /= 2;
    t->host = HOST[i % 4]; i /= 4; t->port = PORT[i % 2]; i /= 2; t->path = PATH[i % 4]; i /= 4; t->query = QUERY[i % 3];
    if (!t->user) t->pass = NULL;
    if (!t->host) { t->user = t->pass = t->port = NULL; t->slash = ""; t->proto = NULL; if (!t->path) t->path = "/"; }     /* bare path */
}
static void tup_text(const tup_t *t, char *b, size_t n)
{
    size_t o = 0; b[0] = 0;
    if (t->proto) o += (size_t) snprintf(b + o, n - o, "%s:", t->proto);
    o += (size_t) snprintf(b + o, n - o, "%s", t->slash);
    if (t->user) { o += (size_t) snprintf(b + o, n - o, "%s", t->user); if (t->pass) o += (size_t) snprintf(b + o, n - o, ":%s", t->pass); o += (size_t) snprintf(b + o, n - o, "@"); }
    if (t->host) o += (size_t) snprintf(b + o, n - o, "%s", t->host);
    if (t->port) o += (size_t) snprintf(b + o, n - o, ":%s", t->port);
    if (t->path) o += (size_t) snprintf(b + o, n - o, "%s", t->path);
    if (t->query) snprintf(b + o, n - o, "?%s", t->query);
}
static void tup_desc(uint64_t i, void *ctx, char *b, size_t n)
{
    tup_t t; char x[120]; (void) ctx; tup_decode(i, &t); tup_text(&t, x, sizeof x);
    snprintf(b, n, "url \"%s\" (proto=%s user=%s passwd=%s host=%s port=%s path=%s query=%s); lookups: %s", x, t.proto ? t.proto : "-", t.user ? t.user : "-", t.pass ? t.pass : "-",
             t.host ? t.host : "-", t.port ? t.port : "-", t.path ? t.path : "-", t.query ? t.query : "-", LKN[t.lk]);
}
static const char *sv(spif_str_t s) { return s ? (s->s ? (const char *) s->s : "") : NULL; }
static int same(const char *a, const char *b) { return (!a && !b) || (a && b && !strcmp(a, b)); }
static void components(spif_url_t u, const char *c[7]) { c[0] = sv(u->proto); c[1] = sv(u->user); c[2] = sv(u->passwd); c[3] = sv(u->host); c[4] = sv(u->port); c[5] = sv(u->path); c[6] = sv(u->query); }
static const char *CNAME[7] = { "proto", "user", "passwd", "host", "port", "path", "query" };

static __attribute__((noinline)) spif_url_t parse(const char *text, int fill)
{
    char *h = mc_heapstr(text);
    g_lookups = 0;
    mc_dirty_stack(fill, 4096);                /* a lookup result that was never obtained is then a wild pointer, not a lucky NULL */
    spif_url_t u = spif_url_new_from_ptr((spif_charptr_t) h);
    memset(h, '!', strlen(h)); free(h);
    return u;
}
static int ambiguous(const tup_t *t, const char *text)
{
    if (t->proto) return 0;
    const char *c = strchr(text, ':'); if (!c) return 0;
    for (const char *p = text; p < c; p++) if (!isalnum((unsigned char) *p)) return 0;
    return 1;
}
static void tup_case(uint64_t i, void *ctx)
{
    tup_t t; char text[120]; (void) ctx; tup_decode(i, &t); tup_text(&t, text, sizeof text);
    int amb = ambiguous(&t, text);
    const char *shape = amb ? "ambiguous without proto" : (t.proto && !t.port ? LKN[t.lk] : (t.host ? "no lookup needed" : "bare path"));
    mc_set_shape(shape);
    g_lk = t.lk; g_word = t.proto; g_lookups = 0;
    spif_url_t u = parse(text, 0xA5);
    if (!u) { FAIL("spif_url_new_from_ptr", "model:return", shape, "returned NULL"); return; }
    const char *exp[7] = { t.proto, t.user, t.pass, t.host, t.port, t.path, t.query }, *got[7];
    if (t.proto && !t.port) exp[4] = t.lk == LK_SERV_TCP ? "4242" : (t.lk == LK_SERV_UDP ? "60177" : NULL);
    if (!amb && !(t.proto && !t.port) && g_lookups) FAIL("spif_url_parse", "model:needless-lookup", shape, "service database consulted although %s", t.proto ? "a port was given" : "no protocol was given");
    components(u, got);
    if (!amb) for (int k = 0; k < 7; k++) if (!same(exp[k], got[k])) { FAIL("spif_url_parse", "model:component", shape, "%s is %s%s%s, expected %s%s%s", CNAME[k], got[k] ? "\"" : "", got[k] ? got[k] : "absent", got[k] ? "\"" : "",
                                                                         exp[k] ? "\"" : "", exp[k] ? exp[k] : "absent", exp[k] ? "\"" : ""); break; }
    if (!SPIF_OBJ_IS_URL(u)) FAIL("spif_url_parse", "model:class", shape, "object is not a URL after parsing");
    /* unparse -> canonical text, still a URL, re-parse gives the same components */
    char keep[7][64]; const char *k1[7]; components(u, k1); for (int k = 0; k < 7; k++) snprintf(keep[k], sizeof keep[k], "%s", k1[k] ? k1[k] : "\x01");
    if (!spif_url_unparse(u)) FAIL("spif_url_unparse", "model:return", shape, "unparse returned FALSE");
    if (!SPIF_OBJ_IS_URL(u)) FAIL("spif_url_unparse", "model:class", shape, "object is not a URL after unparse");
    if (!amb) {
        char canon[160]; size_t o = 0; canon[0] = 0;
        const char *pr = exp[0], *us = exp[1], *pw = exp[2], *ho = exp[3], *po = exp[4], *pa = exp[5], *qu = exp[6];
        if (pr) o += (size_t) snprintf(canon + o, sizeof canon - o, "%s:", pr);
        if (ho) o += (size_t) snprintf(canon + o, sizeof canon - o, "//");
        if (us) { o += (size_t) snprintf(canon + o, sizeof canon - o, "%s", us); if (pw) o += (size_t) snprintf(canon + o, sizeof canon - o, ":%s", pw); o += (size_t) snprintf(canon + o, sizeof canon - o, "@"); }
        if (ho) { o += (size_t) snprintf(canon + o, sizeof canon - o, "%s", ho); if (po) o += (size_t) snprintf(canon + o, sizeof canon - o, ":%s", po); }
        if (pa) o += (size_t) snprintf(canon + o, sizeof canon - o, "%s", pa);
        if (qu) snprintf(canon + o, sizeof canon - o, "?%s", qu);
        const char *ut = SPIF_STR(u)->s ? (char *) SPIF_STR(u)->s : "";
        if (strcmp(ut, canon)) FAIL("spif_url_unparse", "model:canonical-text", shape, "unparse gives \"%s\", canonical form is \"%s\"", ut, canon);
    }
    { const char *ut = SPIF_STR(u)->s ? (char *) SPIF_STR(u)->s : "";
      g_lookups = 0;
      spif_url_t v = parse(ut, 0x5A);
      if (!v) FAIL("spif_url_new_from_ptr", "model:return", shape, "re-parse returned NULL");
      else { const char *g2[7]; components(v, g2);
          for (int k = 0; k < 7; k++) { const char *e = keep[k][0] == 1 ? NULL : keep[k]; if (!same(e, g2[k])) { if (!amb) FAIL("spif_url_parse", "model:round-trip", shape, "after unparse+parse %s is %s, was %s (text \"%s\")", CNAME[k], g2[k] ? g2[k] : "absent", e ? e : "absent", ut); break; } }
          spif_url_del(v); } }
    spif_url_del(u);
    if (!amb) mc_nontrivial();
    mc_outcome(mc_hash_str(text) + (uint64_t) t.lk);
}

/* ---- part B: arbitrary strings */
static const char SYM[6] = { 'a', ':', '/', '@', '?', '.' };
static int g_len;
static void str_desc(uint64_t i, void *ctx, char *b, size_t n)
{
    int d[16]; char s[20]; (void) ctx; mc_word_decode(i / NLK, 6, g_len, d); for (int k = 0; k < g_len; k++) s[k] = SYM[d[k]]; s[g_len] = 0;
    snprintf(b, n, "parse \"%s\" (lookups: %s), unparse, re-parse, unparse again", s, LKN[i % NLK]);
}
static void str_case(uint64_t i, void *ctx)
{
    int d[16]; char s[20]; (void) ctx; mc_word_decode(i / NLK, 6, g_len, d); for (int k = 0; k < g_len; k++) s[k] = SYM[d[k]]; s[g_len] = 0;
    g_lk = (int) (i % NLK); g_lookups = 0;
    const char *c = strchr(s, ':'); static char w[20]; g_word = NULL;
    if (c) { memcpy(w, s, (size_t) (c - s)); w[c - s] = 0; g_word = w; }
    mc_set_shape(LKN[g_lk]);
    spif_url_t u = parse(s, 0xA5);
    if (!u) { FAIL("spif_url_new_from_ptr", "model:return", LKN[g_lk], "returned NULL"); return; }
    spif_url_unparse(u);
    char t1[200]; snprintf(t1, sizeof t1, "%s", SPIF_STR(u)->s ? (char *) SPIF_STR(u)->s : "");
    if (!SPIF_OBJ_IS_URL(u)) FAIL("spif_url_unparse", "model:class", LKN[g_lk], "object is not a URL after unparse");
    spif_url_t v = parse(t1, 0x5A);
    if (v) { spif_url_unparse(v); const char *t2 = SPIF_STR(v)->s ? (char *) SPIF_STR(v)->s : "";
        if (strlen(t2) > strlen(t1) + 32) FAIL("spif_url_unparse", "model:unparse-grows", LKN[g_lk], "canonical text keeps growing: \"%s\" -> \"%s\"", t1, t2);
        spif_url_del(v); }
    spif_url_del(u);
    if (strpbrk(s, ":/@?")) mc_nontrivial();
    mc_outcome(mc_hash_str(t1));
}
/* ---- part C: a port without a host (protocol + path with the port filled from the service database, or a bare path whose
 * port is set afterwards): unparse supplies "localhost"; the text it builds must parse back to the components the object then has */
static const char *PH_PROTO[] = { "http", "tcp", "zz" }, *PH_PATH[] = { "/p", "/", "/p/q" }, *PH_Q[] = { NULL, "q" };
#define NPH (3ULL * 3 * 2 * 2 * NLK)
static void ph_text(uint64_t i, char *b, size_t n, int *lk, int *setter)
{
    *lk = (int) (i % NLK); i /= NLK; *setter = (int) (i % 2); i /= 2;
    const char *pr = PH_PROTO[i % 3]; i /= 3; const char *pa = PH_PATH[i % 3]; i /= 3; const char *q = PH_Q[i % 2];
    size_t o = 0;
    if (!*setter) o += (size_t) snprintf(b, n, "%s:", pr);
    o += (size_t) snprintf(b + o, n - o, "%s", pa);
    if (q) snprintf(b + o, n - o, "?%s", q);
}
static void ph_desc(uint64_t i, void *ctx, char *b, size_t n) { char t[80]; int lk, st; (void) ctx; ph_text(i, t, sizeof t, &lk, &st); snprintf(b, n, "parse \"%s\"%s (lookups: %s), unparse, parse the text", t, st ? ", set_port(\"8\")" : "", LKN[lk]); }
static void ph_case(uint64_t i, void *ctx)
{
    char text[80]; int lk, st; (void) ctx; ph_text(i, text, sizeof text, &lk, &st);
    const char *shape = st ? "bare path + set_port" : LKN[lk];
    mc_set_shape(shape);
    g_lk = lk; g_lookups = 0; static char w[20]; g_word = NULL;
    if (!st) { const char *c = strchr(text, ':'); memcpy(w, text, (size_t) (c - text)); w[c - text] = 0; g_word = w; }
    spif_url_t u = parse(text, 0xA5);
    if (!u) { FAIL("spif_url_new_from_ptr", "model:return", shape, "returned NULL"); return; }
    if (st) spif_url_set_port(u, spif_str_new_from_ptr((spif_charptr_t) "8"));
    int had_port = u->port != NULL, had_host = u->host != NULL;
    if (!spif_url_unparse(u)) FAIL("spif_url_unparse", "model:return", shape, "unparse returned FALSE");
    char t1[200]; snprintf(t1, sizeof t1, "%s", SPIF_STR(u)->s ? (char *) SPIF_STR(u)->s : "");
    const char *c1[7]; components(u, c1);
    g_word = c1[0];
    spif_url_t v = parse(t1, 0x5A);
    if (!v) FAIL("spif_url_new_from_ptr", "model:return", shape, "re-parse returned NULL");
    else {
        const char *c2[7]; components(v, c2);
        for (int k = 0; k < 7; k++) if (!same(c1[k], c2[k])) { FAIL("spif_url_unparse", "model:round-trip", shape, "the object has %s %s%s%s after unparse, but its text \"%s\" parses to %s %s%s%s", CNAME[k], c1[k] ? "\"" : "", c1[k] ? c1[k] : "absent", c1[k] ? "\"" : "", t1,
                                                             CNAME[k], c2[k] ? "\"" : "", c2[k] ? c2[k] : "absent", c2[k] ? "\"" : ""); break; }
        spif_url_unparse(v);
        const char *t2 = SPIF_STR(v)->s ? (char *) SPIF_STR(v)->s : "";
        if (strcmp(t1, t2)) FAIL("spif_url_unparse", "model:canonical-text-not-stable", shape, "unparse gives \"%s\"; parsing that text and unparsing again gives \"%s\"", t1, t2);
        spif_url_del(v);
    }
    spif_url_del(u);
    if (had_port && !had_host) mc_nontrivial();
    mc_outcome(mc_hash_str(t1));
}
/* ---- part D: one long component (lengths around 1024 and 4096, the sizes of plausible scratch buffers), the others short */
static const int LONGS[] = { 255, 256, 1021, 1022, 1023, 1024, 1025, 4095, 4096, 4097, 9000 };
#define NLONGS ((int) (sizeof LONGS / sizeof LONGS[0]))
static void lc_desc(uint64_t i, void *ctx, char *b, size_t n)
{
    static const char *w[6] = { "user", "passwd", "host", "path", "query", "user and passwd together" };
    (void) ctx; snprintf(b, n, "url http://u:p@h:8/p?q with %s of %d characters: parse, unparse, re-parse", w[i % 6], LONGS[i / 6]);
}
static void lc_case(uint64_t i, void *ctx)
{
    int which = (int) (i % 6), n = LONGS[i / 6]; (void) ctx;
    char *big = malloc((size_t) n + 2), *big2 = malloc((size_t) n + 2); memset(big, 'x', (size_t) n); big[n] = 0; memset(big2, 'y', (size_t) n); big2[n] = 0;
    if (which == 3) big[0] = '/';
    const char *user = which == 0 || which == 5 ? big : "u", *pass = which == 1 ? big : (which == 5 ? big2 : "p"), *host = which == 2 ? big : "h", *path = which == 3 ? big : "/p", *query = which == 4 ? big : "q";
    size_t cap = (size_t) 2 * (size_t) n + 64; char *text = malloc(cap);
    snprintf(text, cap, "http://%s:%s@%s:8%s?%s", user, pass, host, path, query);
    const char *shape = n < 1023 ? "long component below 1023" : "long component of 1023 or more";
    mc_set_shape(shape);
    g_lk = LK_NONE; g_word = "http"; g_lookups = 0;
    spif_url_t u = parse(text, 0xA5);
    if (!u) { FAIL("spif_url_new_from_ptr", "model:return", shape, "returned NULL"); goto done; }
    const char *exp[7] = { "http", user, pass, host, "8", path, query }, *got[7];
    components(u, got);
    for (int k = 0; k < 7; k++) if (!same(exp[k], got[k])) { FAIL("spif_url_parse", "model:component", shape, "%s has %zu characters, expected %zu", CNAME[k], got[k] ? strlen(got[k]) : 0, strlen(exp[k])); break; }
    if (!spif_url_unparse(u)) FAIL("spif_url_unparse", "model:return", shape, "unparse returned FALSE");
    { const char *ut = SPIF_STR(u)->s ? (char *) SPIF_STR(u)->s : "";
      if (strcmp(ut, text)) { size_t d = 0; while (ut[d] && ut[d] == text[d]) d++; FAIL("spif_url_unparse", "model:canonical-text", shape, "unparse gives %zu characters, the canonical form has %zu; first difference at offset %zu", strlen(ut), strlen(text), d); }
      spif_url_t v = parse(ut, 0x5A);
      if (!v) FAIL("spif_url_new_from_ptr", "model:return", shape, "re-parse returned NULL");
      else { const char *g2[7]; components(v, g2);
          for (int k = 0; k < 7; k++) if (!same(exp[k], g2[k])) { FAIL("spif_url_parse", "model:round-trip", shape, "after unparse+parse %s has %zu characters, expected %zu", CNAME[k], g2[k] ? strlen(g2[k]) : 0, strlen(exp[k])); break; }
          spif_url_del(v); } }
    spif_url_del(u);
done:
    free(big); free(big2); free(text);
    mc_nontrivial();
    mc_outcome(i);
}
/* ---- the _from_str twin: it parses the TEXT of the string object it is given - also when that object is a URL whose parts were edited since its text was built */
static void tw_desc(uint64_t i, void *ctx, char *b, size_t n) { (void) ctx; snprintf(b, n, "parse \"http://u:p@www.example.com:8080/p?q\", %s, new_from_str(that object): the components of its text", i ? "set_host(\"other.org\") and set_port(NULL) without unparse" : "nothing else"); }
static void tw_case(uint64_t i, void *ctx)
{
    (void) ctx; const char *shape = "new_from_str on a URL object"; mc_set_shape(shape);
    g_lk = LK_NONE; g_word = "http"; g_lookups = 0;
    spif_url_t u = parse("http://u:p@www.example.com:8080/p?q", 0xA5);
    if (!u) { FAIL("spif_url_new_from_ptr", "model:return", shape, "returned NULL"); return; }
    if (i) { spif_url_set_host(u, spif_str_new_from_ptr((spif_charptr_t) "other.org")); spif_url_set_port(u, (spif_str_t) NULL); }
    g_lookups = 0;
    spif_url_t v = spif_url_new_from_str(SPIF_STR(u));
    if (!v) FAIL("spif_url_new_from_str", "model:return", shape, "returned NULL");
    else { const char *exp[7] = { "http", "u", "p", "www.example.com", "8080", "/p", "q" }, *got[7]; components(v, got);
        for (int k = 0; k < 7; k++) if (!same(exp[k], got[k])) { FAIL("spif_url_new_from_str", "model:component", shape, "%s is %s%s%s, the text has \"%s\"", CNAME[k], got[k] ? "\"" : "", got[k] ? got[k] : "absent", got[k] ? "\"" : "", exp[k]); break; }
        spif_url_del(v); }
    spif_url_del(u);
    mc_nontrivial();
    mc_outcome(i);
}
/* ---- copies: by name and through the class table, of a parsed, an edited and an assembled URL: the same components and the same text */
static void cp_desc(uint64_t i, void *ctx, char *b, size_t n) { static const char *h[4] = { "parse \"http://u:p@www.example.com:8080/p?q\"", "parse \"http://u:p@www.example.com:8080/p?q\", set_host(\"other.org\") and set_port(NULL) without unparse", "spif_url_new(), set_proto(\"ftp\"), set_host(\"h\"), set_path(\"/x\") without unparse", "parse \"ftp://u:s3@h/\", set_user(NULL) (a password without a user), set_query(\"q\")" };
    (void) ctx; snprintf(b, n, "%s; %s: components and text of the copy", h[i / 2], i % 2 ? "SPIF_OBJ_DUP() (the class's dup slot, as containers copy a stored value)" : "spif_url_dup()"); }
static void cp_case(uint64_t i, void *ctx)
{
    (void) ctx; const char *shape = i % 2 ? "copy through the class table" : "copy by name"; mc_set_shape(shape);
    g_lk = LK_NONE; g_word = "http"; g_lookups = 0;
    spif_url_t u = i / 2 < 2 ? parse("http://u:p@www.example.com:8080/p?q", 0xA5) : (i / 2 == 3 ? parse("ftp://u:s3@h/", 0xA5) : spif_url_new());
    if (!u) { FAIL("spif_url_new", "model:return", shape, "returned NULL"); return; }
    if (i / 2 == 1) { spif_url_set_host(u, spif_str_new_from_ptr((spif_charptr_t) "other.org")); spif_url_set_port(u, (spif_str_t) NULL); }
    if (i / 2 == 2) { spif_url_set_proto(u, spif_str_new_from_ptr((spif_charptr_t) "ftp")); spif_url_set_host(u, spif_str_new_from_ptr((spif_charptr_t) "h")); spif_url_set_path(u, spif_str_new_from_ptr((spif_charptr_t) "/x")); }
    if (i / 2 == 3) { spif_url_set_user(u, (spif_str_t) NULL); spif_url_set_query(u, spif_str_new_from_ptr((spif_charptr_t) "q")); }
    spif_url_t v = i % 2 ? (spif_url_t) SPIF_OBJ_DUP(SPIF_OBJ(u)) : spif_url_dup(u);
    if (!v) FAIL("spif_url_dup", "model:return", shape, "returned NULL");
    else { const char *c1[7], *c2[7]; components(u, c1); components(v, c2);
        for (int k = 0; k < 7; k++) {
            if (!same(c1[k], c2[k])) { FAIL("spif_url_dup", "model:component", shape, "%s of the copy is %s%s%s, the original has %s%s%s", CNAME[k], c2[k] ? "\"" : "", c2[k] ? c2[k] : "absent", c2[k] ? "\"" : "", c1[k] ? "\"" : "", c1[k] ? c1[k] : "absent", c1[k] ? "\"" : ""); break; }
            if (c1[k] && c1[k] == c2[k]) { FAIL("spif_url_dup", "model:shared-component", shape, "%s of the copy is the original's own string", CNAME[k]); break; } }
        const char *t1 = SPIF_STR(u)->s ? (char *) SPIF_STR(u)->s : "", *t2 = SPIF_STR(v)->s ? (char *) SPIF_STR(v)->s : "";
        if (strcmp(t1, t2)) FAIL("spif_url_dup", "model:text", shape, "the copy's text is \"%s\", the original's \"%s\"", t2, t1);
        if (SPIF_OBJ_CLASS(SPIF_OBJ(v)) != SPIF_OBJ_CLASS(SPIF_OBJ(u))) FAIL("spif_url_dup", "model:class", shape, "the copy is of another class");
        spif_url_unparse(u); spif_url_unparse(v);
        t1 = SPIF_STR(u)->s ? (char *) SPIF_STR(u)->s : ""; t2 = SPIF_STR(v)->s ? (char *) SPIF_STR(v)->s : "";
        if (strcmp(t1, t2)) FAIL("spif_url_unparse", "model:text", shape, "after unparse the copy reads \"%s\", the original \"%s\"", t2, t1);
        spif_url_del(v); }
    spif_url_del(u);
    mc_nontrivial();
    mc_outcome(i);
}
int main(int argc, char **argv)
{
    mc_init("C14", argc, argv);
    libast_debug_level = (unsigned) mc_dlevel();        /* --dlevel=N: the whole run at runtime debug level N (default 0) */
    int N = (int) mc_arg_int("N", mc_thorough() ? 8 : 5);
    mc_info("alphabet", "component tuples proto{-,http,tcp,zz,''} x //{-,//} x user{-,u} x passwd{-,p} x host{h,h.x,10.0.0.1,bare path} x port{-,8} x path{-,/,/p,/p@q:r} x query{-,q,a?b} x 5 lookup outcomes; "
            "all strings of length <= %d over {a : / @ ? .} x 5 lookup outcomes; parser stack pre-filled with 0xA5/0x5A; "
            "port without host: proto{http,tcp,zz}:path{/p,/,/p/q}[?q] x 5 lookup outcomes, and the same bare paths with set_port(8)", N);
    mc_e2_level("tuples", 1, NTUP, tup_case, tup_desc, NULL);
    mc_e2_level("port_without_host", 1, NPH, ph_case, ph_desc, NULL);
    mc_e2_level("long_component", 9000, (uint64_t) NLONGS * 6, lc_case, lc_desc, NULL);
    mc_e2_level("from_str_twin", 1, 2, tw_case, tw_desc, NULL);
    mc_e2_level("copies", 1, 8, cp_case, cp_desc, NULL);
    for (g_len = 0; g_len <= N; g_len++)
        if (!mc_e2_level("strings", g_len, mc_words_of_len(6, g_len) * NLK, str_case, str_desc, NULL)) break;
    return mc_finish();
}
