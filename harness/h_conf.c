/* h_conf.c — C09: the config parser delivers every line once, in order, to the innermost open context.
 * E2 over all files of <= N lines from a 16-kind line alphabet (comments, begin/end for known,
 * case-differing and unknown contexts, text to strip and to expand, three kinds of %include),
 * plus a depth sweep d = 1..255 (balanced and unbalanced) and an include-depth sweep. */
#include "confcommon.h"

/* ------------------------------------------------------------------ recording handlers and the model trace */
typedef struct { char ctx; char kind; char text[40]; long state_in; } ev_t;     /* kind: 'B' begin, 'E' end, 'T' text */
#define MAXEV 1200
static ev_t GOT[MAXEV], EXP[MAXEV]; static int NGOT, NEXP;
static long g_token;               /* handlers return fresh tokens: the state a handler returns is the state it receives next */
static int g_cap_bad; static char g_cap_msg[160];
static void *handler(char c, spif_charptr_t buff, void *state)
{
    if (ctx_state_idx >= ctx_state_cnt || fstate_idx >= fstate_cnt) { g_cap_bad++; snprintf(g_cap_msg, sizeof g_cap_msg, "ctx_state_idx=%d capacity=%d fstate_idx=%d capacity=%d", ctx_state_idx, ctx_state_cnt, fstate_idx, fstate_cnt); }
    if (NGOT < MAXEV) { ev_t *e = &GOT[NGOT++]; e->ctx = c; e->state_in = (long) state;
        if (*buff == SPIFCONF_BEGIN_CHAR) { e->kind = 'B'; e->text[0] = 0; } else if (*buff == SPIFCONF_END_CHAR) { e->kind = 'E'; e->text[0] = 0; } else { e->kind = 'T'; snprintf(e->text, sizeof e->text, "%s", (char *) buff); } }
    if (!strncmp((char *) buff, "skip ", 5)) file_poke_skip(atoi((char *) buff + 5));      /* a handler may ask for the rest of its block to be skipped: any non-zero value */
    return (void *) (++g_token);
}
static void *handler_A(spif_charptr_t b, void *s) { return handler('A', b, s); }
static void *handler_B(spif_charptr_t b, void *s) { return handler('B', b, s); }

enum { L_COMMENT, L_BLANK, L_BEGIN_A, L_BEGIN_B, L_BEGIN_a, L_BEGIN_ZZ, L_END, L_END_A, L_T1, L_T2, L_V, L_INC1, L_INC2, L_INC3, L_ENDX, L_BEGINX, L_INC_MISS, L_INC_NOMAGIC, L_INC_NESTMISS, NKIND };
static char INCP[6][300];       /* plain, unbalanced, nested, (missing), no magic line, includes a missing file */
static const char *line_text(int k, char *tmp, size_t n)
{
    switch (k) {
    case L_COMMENT: return "# c"; case L_BLANK: return ""; case L_BEGIN_A: return "begin A"; case L_BEGIN_B: return "begin B"; case L_BEGIN_a: return "begin a";
    case L_BEGIN_ZZ: return "begin zz"; case L_END: return "end"; case L_END_A: return "end A"; case L_T1: return "t1"; case L_T2: return "  t2 two  "; case L_V: return "v $V";
    case L_INC1: case L_INC2: case L_INC3: snprintf(tmp, n, "%%include %s", INCP[k - L_INC1]); return tmp;
    case L_INC_MISS: case L_INC_NOMAGIC: case L_INC_NESTMISS: snprintf(tmp, n, "%%include %s", INCP[3 + k - L_INC_MISS]); return tmp;
    case L_ENDX: return "endx"; default: return "beginx";
    }
}
/* the reference reading of a flattened line list */
typedef struct { char ctx; long state; } frame_t;
static frame_t STK[300]; static int DEPTH; static long m_token; static int m_null_errors, m_unknown_ctx, m_inc_errors;
static void m_emit(char ctx, char kind, const char *text, long state_in) { if (NEXP < MAXEV) { ev_t *e = &EXP[NEXP++]; e->ctx = ctx; e->kind = kind; e->state_in = state_in; snprintf(e->text, sizeof e->text, "%s", text); } }
static long m_call(char ctx, char kind, const char *text, long state_in)
{
    if (ctx == '0') { if (kind == 'T') { m_null_errors++; return state_in; } return 0; }          /* built-in null context */
    m_emit(ctx, kind, text, state_in); return ++m_token;
}
static void m_line(int k);
static void m_include(int which)
{
    if (which == 0) { m_line(L_T1); m_line(L_T2); }
    else if (which == 1) { m_line(L_BEGIN_A); m_line(L_T1); }                 /* unbalanced */
    else { m_line(L_INC1); m_line(L_V); }                                     /* nested include */
}
static void m_line(int k)
{
    char ctx;
    switch (k) {
    case L_COMMENT: case L_BLANK: return;
    case L_BEGIN_A: case L_BEGIN_B: case L_BEGIN_a: case L_BEGIN_ZZ:
        ctx = k == L_BEGIN_B ? 'B' : (k == L_BEGIN_ZZ ? '0' : 'A');
        if (k == L_BEGIN_ZZ) m_unknown_ctx++;
        STK[DEPTH + 1].ctx = ctx; STK[DEPTH + 1].state = m_call(ctx, 'B', "", STK[DEPTH].state); DEPTH++; return;
    case L_END: case L_END_A:
        if (DEPTH > 0) { long r = m_call(STK[DEPTH].ctx, 'E', "", STK[DEPTH].state); DEPTH--; STK[DEPTH].state = r; } return;
    case L_INC1: case L_INC2: case L_INC3: m_include(k - L_INC1); return;
    case L_INC_MISS: case L_INC_NOMAGIC: m_inc_errors++; return;                         /* a failed include is reported and skipped; the including file carries on */
    case L_INC_NESTMISS: m_line(L_T1); m_inc_errors++; m_line(L_T2); return;
    default: {
        const char *t = k == L_T1 ? "t1" : (k == L_T2 ? "t2 two" : (k == L_V ? "v val" : (k == L_ENDX ? "endx" : "beginx")));
        STK[DEPTH].state = m_call(STK[DEPTH].ctx, 'T', t, STK[DEPTH].state); return; }
    }
}
static void setup(void)
{
    names_once();
    spifconf_init_subsystem();
    spifconf_register_context((spif_charptr_t) "A", handler_A);
    spifconf_register_context((spif_charptr_t) "B", handler_B);
    NGOT = NEXP = 0; g_token = 0; m_token = 0; DEPTH = 0; STK[0].ctx = '0'; STK[0].state = 0; m_null_errors = m_unknown_ctx = m_inc_errors = 0; g_cap_bad = 0;
    g_errors = g_warnings = 0; g_spawns = 0; g_open_files = g_opens = 0;
}
static void prepare_includes(void)
{
    static int pid;
    if (pid == (int) getpid()) return;
    pid = (int) getpid();
    char b[1000];
    for (int i = 0; i < 6; i++) snprintf(INCP[i], sizeof INCP[i], "%s/inc%d-%d.cfg", scratch(), i + 1, pid);
    unlink(INCP[3]);
    snprintf(b, sizeof b, "no magic here\nt1\n"); write_file(INCP[4], b, strlen(b));
    snprintf(b, sizeof b, "<verif-1.0>\nt1\n%%include %s\n  t2 two  \n", INCP[3]); write_file(INCP[5], b, strlen(b));
    snprintf(b, sizeof b, "<verif-1.0>\nt1\n  t2 two  \n"); write_file(INCP[0], b, strlen(b));
    snprintf(b, sizeof b, "<verif-1.0>\nbegin A\nt1\n"); write_file(INCP[1], b, strlen(b));
    snprintf(b, sizeof b, "<verif-1.0>\n%%include %s\nv $V\n", INCP[0]); write_file(INCP[2], b, strlen(b));
}
static int g_skip_state;          /* lines given outside a file: only the call sequence is compared, not the state values */
static void compare_and_finish(const char *shape, int expect_depth)
{
    if (g_cap_bad) FAIL("spifconf_parse", "invariant:index-not-below-capacity", shape, "a handler ran with %s", g_cap_msg);
    if (NGOT != NEXP) {
        FAIL("spifconf_parse_line", "model:call-count", shape, "%d handler calls, the reference reading has %d", NGOT, NEXP);
    } else for (int i = 0; i < NGOT; i++) {
        ev_t *g = &GOT[i], *e = &EXP[i];
        if (g->ctx != e->ctx || g->kind != e->kind || strcmp(g->text, e->text)) { FAIL("spifconf_parse_line", "model:delivery", shape, "call %d went to context %c as %c \"%s\", expected context %c %c \"%s\"", i, g->ctx, g->kind, g->text, e->ctx, e->kind, e->text); break; }
        if (!g_skip_state && g->state_in != e->state_in) { FAIL("spifconf_parse_line", "model:state-threading", shape, "call %d (%c %c \"%s\") received state %ld, expected %ld", i, g->ctx, g->kind, g->text, g->state_in, e->state_in); break; }
    }
    if (fstate_idx != 0) FAIL("spifconf_parse", "model:file-stack-not-restored", shape, "file stack index is %d after parsing", fstate_idx);
    if (g_open_files != 0) FAIL("spifconf_parse", "fd-leak", shape, "%d of %d files opened by the parser were not closed", g_open_files, g_opens);
    if (expect_depth >= 0 && ctx_state_idx != expect_depth) FAIL("spifconf_parse", "model:context-stack-depth", shape, "context stack index is %d after parsing, expected %d", ctx_state_idx, expect_depth);
    if (g_spawns) FAIL("spifconf_parse", "spawn", shape, "a process was spawned: %s", g_spawn_what);
    spifconf_free_subsystem();
}
static int N; static int g_n;
static char g_main[300];
static int g_no_final_nl;             /* file-shape variant: the last line has no newline character */
static void run_file(const int *kinds, int n, const char *shape)
{
    char data[4000], tmp[400]; size_t o = 0;
    o += (size_t) snprintf(data, sizeof data, "<verif-1.0>\n");
    for (int i = 0; i < n; i++) o += (size_t) snprintf(data + o, sizeof data - o, "%s\n", line_text(kinds[i], tmp, sizeof tmp));
    if (g_no_final_nl && n > 0) o--;
    snprintf(g_main, sizeof g_main, "%s/main-%d.cfg", scratch(), (int) getpid());
    write_file(g_main, data, o);
    setup();
    for (int i = 0; i < n; i++) m_line(kinds[i]);
    g_env_on = 1; g_ledger_on = 1; g_allow_fork = 0;
    spif_charptr_t r = spifconf_parse((spif_charptr_t) g_main, NULL, NULL);
    g_env_on = 0; g_ledger_on = 0; g_allow_fork = 1;
    if (!r) FAIL("spifconf_parse", "model:return", shape, "returned NULL for a readable file with the magic line"); else FREE(r);
    int nullerr = 0; (void) nullerr;
    if (g_errors != m_null_errors + m_unknown_ctx + m_inc_errors) FAIL("spifconf_parse_line", "model:diagnostics", shape, "%d error diagnostics, expected %d (text in the null context) + %d (unknown context names) + %d (failed includes); last: %s", g_errors, m_null_errors, m_unknown_ctx, m_inc_errors, g_last_error);
    compare_and_finish(shape, DEPTH);
}
static void f_desc(uint64_t idx, void *ctx, char *b, size_t n)
{
    int d[12]; char tmp[400]; size_t o = 0; (void) ctx; mc_word_decode(idx / 2, NKIND, g_n, d);
    o += (size_t) snprintf(b, n, "config file%s:", idx % 2 ? " (no newline after the last line)" : "");
    for (int i = 0; i < g_n; i++) { const char *t = line_text(d[i], tmp, sizeof tmp); if (d[i] >= L_INC_MISS) t = d[i] == L_INC_MISS ? "%include <missing file>" : (d[i] == L_INC_NOMAGIC ? "%include <file without the magic line>" : "%include <t1, include of a missing file, t2>"); else if (d[i] >= L_INC1 && d[i] <= L_INC3) t = d[i] == L_INC1 ? "%include <plain>" : (d[i] == L_INC2 ? "%include <unbalanced: begin A, t1>" : "%include <nested: includes plain, then v $V>"); o += (size_t) snprintf(b + o, n - o, " [%s]", t); }
}
static void f_case(uint64_t idx, void *ctx)
{
    int d[12]; (void) ctx; mc_word_decode(idx / 2, NKIND, g_n, d);
    g_no_final_nl = (int) (idx % 2);
    if (g_no_final_nl && g_n == 0) return;
    prepare_includes();
    int nb = 0, ne = 0, inc = 0; for (int i = 0; i < g_n; i++) { if (d[i] >= L_BEGIN_A && d[i] <= L_BEGIN_ZZ) nb++; if (d[i] == L_END || d[i] == L_END_A) ne++; if ((d[i] >= L_INC1 && d[i] <= L_INC3) || d[i] >= L_INC_MISS) inc++; }
    const char *shape = inc ? "with %include" : (nb == ne ? (nb ? "balanced blocks" : "no blocks") : (nb > ne ? "unclosed blocks" : "surplus end"));
    mc_set_shape(shape);
    run_file(d, g_n, shape);
    g_no_final_nl = 0;
    if (nb || inc) mc_nontrivial();
    mc_outcome(mc_hash(EXP, sizeof(ev_t) * (size_t) (NEXP < 8 ? NEXP : 8)) + (uint64_t) NEXP);
}
/* ---- depth sweep: d x begin A, one text line, d x end (and without the ends) */
static void d_desc(uint64_t idx, void *ctx, char *b, size_t n) { (void) ctx; snprintf(b, n, "%d x [begin A], [t1], %s", (int) (idx / 2) + 1, idx % 2 ? "no end lines (unbalanced)" : "as many [end] lines"); }
static void d_case(uint64_t idx, void *ctx)
{
    int d = (int) (idx / 2) + 1, unbalanced = (int) (idx % 2); (void) ctx;
    static int kinds[600]; int n = 0;
    for (int i = 0; i < d; i++) kinds[n++] = L_BEGIN_A;
    kinds[n++] = L_T1;
    if (!unbalanced) for (int i = 0; i < d; i++) kinds[n++] = L_END;
    char shape[64]; snprintf(shape, sizeof shape, "depth %s", d < 20 ? "below 20" : (d < 40 ? "20..39" : (d < 80 ? "40..79" : (d < 160 ? "80..159" : "160..255"))));
    mc_set_shape(shape);
    char *data = malloc(16 * 600), tmp[64]; size_t o = (size_t) sprintf(data, "<verif-1.0>\n");
    for (int i = 0; i < n; i++) o += (size_t) sprintf(data + o, "%s\n", line_text(kinds[i], tmp, sizeof tmp));
    snprintf(g_main, sizeof g_main, "%s/deep-%d.cfg", scratch(), (int) getpid());
    write_file(g_main, data, o); free(data);
    setup();
    for (int i = 0; i < n; i++) m_line(kinds[i]);
    g_env_on = 1; g_ledger_on = 1; g_allow_fork = 0;
    spif_charptr_t r = spifconf_parse((spif_charptr_t) g_main, NULL, NULL);
    g_env_on = 0; g_ledger_on = 0; g_allow_fork = 1;
    if (!r) FAIL("spifconf_parse", "model:return", shape, "returned NULL"); else FREE(r);
    compare_and_finish(shape, DEPTH);
    mc_nontrivial();
}
/* ---- include-depth sweep: a chain of d files, each including the next */
static void i_desc(uint64_t idx, void *ctx, char *b, size_t n) { (void) ctx; snprintf(b, n, "chain of %d nested %%include files, each with one text line before and after the include", (int) idx + 1); }
static void i_case(uint64_t idx, void *ctx)
{
    int d = (int) idx + 1; char path[40][300], data[1000]; (void) ctx;
    char shape[40]; snprintf(shape, sizeof shape, "include depth %s", d < 9 ? "below 9" : "9 or more");
    mc_set_shape(shape);
    for (int i = 0; i < d; i++) snprintf(path[i], sizeof path[i], "%s/chain%d-%d.cfg", scratch(), i, (int) getpid());
    for (int i = 0; i < d; i++) {
        if (i + 1 < d) snprintf(data, sizeof data, "<verif-1.0>\nt1\n%%include %s\nendx\n", path[i + 1]); else snprintf(data, sizeof data, "<verif-1.0>\nt1\nendx\n");
        write_file(path[i], data, strlen(data));
    }
    setup();
    m_line(L_BEGIN_A);
    for (int i = 0; i < d; i++) m_line(L_T1);
    for (int i = 0; i < d; i++) m_line(L_ENDX);
    /* the outermost file opens context A first so the lines are recorded */
    snprintf(g_main, sizeof g_main, "%s/chainmain-%d.cfg", scratch(), (int) getpid());
    snprintf(data, sizeof data, "<verif-1.0>\nbegin A\n%%include %s\n", path[0]); write_file(g_main, data, strlen(data));
    g_env_on = 1; g_ledger_on = 1; g_allow_fork = 0;
    spif_charptr_t r = spifconf_parse((spif_charptr_t) g_main, NULL, NULL);
    g_env_on = 0; g_ledger_on = 0; g_allow_fork = 1;
    if (!r) FAIL("spifconf_parse", "model:return", shape, "returned NULL"); else FREE(r);
    compare_and_finish(shape, DEPTH);
    for (int i = 0; i < d; i++) unlink(path[i]);
    mc_nontrivial();
}
/* ---- over-long lines: [begin A] [n x 'L'] [t1] [end] for n around every multiple of the 20479-character read chunk: a line that does not
 * fit is reported once and skipped as a whole; the line after it is delivered exactly once */
static int ll_n(uint64_t idx) { static const int base[3] = { 20470, 40949, 61428 }; return base[idx / 20] + (int) (idx % 20); }
static void ll_desc(uint64_t idx, void *ctx, char *b, size_t n) { (void) ctx; snprintf(b, n, "config file: [begin A] [%d x 'L'] [t1] [end]", ll_n(idx)); }
static void ll_case(uint64_t idx, void *ctx)
{
    int n = ll_n(idx), fits = n + 1 <= CONFIG_BUFF - 1; (void) ctx;
    const char *shape = fits ? "long line that fits" : "line over the limit";
    mc_set_shape(shape);
    char *data = malloc((size_t) n + 100); size_t o = (size_t) sprintf(data, "<verif-1.0>\nbegin A\n");
    memset(data + o, 'L', (size_t) n); o += (size_t) n; o += (size_t) sprintf(data + o, "\nt1\nend\n");
    snprintf(g_main, sizeof g_main, "%s/long-%d.cfg", scratch(), (int) getpid());
    write_file(g_main, data, o);
    setup();
    m_line(L_BEGIN_A);
    if (fits) { char t[64]; memset(t, 'L', 39); t[39] = 0; STK[DEPTH].state = m_call(STK[DEPTH].ctx, 'T', t, STK[DEPTH].state); }
    m_line(L_T1); m_line(L_END);
    g_env_on = 1; g_ledger_on = 1; g_allow_fork = 0;
    spif_charptr_t r = spifconf_parse((spif_charptr_t) g_main, NULL, NULL);
    g_env_on = 0; g_ledger_on = 0; g_allow_fork = 1;
    if (!r) FAIL("spifconf_parse", "model:return", shape, "returned NULL"); else FREE(r);
    if (g_errors != (fits ? 0 : 1)) FAIL("spifconf_parse", "model:diagnostics", shape, "%d error diagnostics for a line of %d characters, expected %d; last: %s", g_errors, n, fits ? 0 : 1, g_last_error);
    compare_and_finish(shape, DEPTH);
    free(data);
    mc_nontrivial();
    mc_outcome((uint64_t) fits);
}
/* ---- lines given outside any file (spifconf_parse_line(NULL, "CONTEXT text...")): each is one begin call, at most one text call and one end
 * call for its context; afterwards an ordinary file parses as if nothing had happened */
static const char *AV[] = { "A attr value", "B x", "A", "zz text", "A %", "A %zz", "", "# c", "A t1 $V", "A # note" };
#define NAV ((int) (sizeof AV / sizeof AV[0]))
static void av_model(int k)
{
    char ctx = AV[k][0] == 'A' ? 'A' : (AV[k][0] == 'B' ? 'B' : '0');
    if (!AV[k][0] || AV[k][0] == '#') return;
    if (ctx == '0') { m_unknown_ctx++; const char *sp = strchr(AV[k], ' '); if (sp && sp[1] && sp[1] != '%') m_null_errors++; return; }     /* the null context swallows its calls; text in it is an error */
    m_emit(ctx, 'B', "", 0);
    const char *sp = strchr(AV[k], ' ');
    if (sp && sp[1] && sp[1] != '%' && sp[1] != '#') { char t[40]; snprintf(t, sizeof t, "%s", sp + 1); char *v = strstr(t, "$V"); if (v) strcpy(v, "val"); m_emit(ctx, 'T', t, 0); }
    m_emit(ctx, 'E', "", 0);
}
static void av_desc(uint64_t idx, void *ctx, char *b, size_t n)
{
    int d[4]; size_t o = 0; (void) ctx; mc_word_decode(idx, NAV, g_n, d);
    o += (size_t) snprintf(b, n, "lines given outside a file:");
    for (int i = 0; i < g_n; i++) o += (size_t) snprintf(b + o, n - o, " [%s]", AV[d[i]]);
    snprintf(b + o, n - o, ", then the file [begin A] [t1] [end]");
}
static void av_case(uint64_t idx, void *ctx)
{
    int d[4]; (void) ctx; mc_word_decode(idx, NAV, g_n, d);
    const char *shape = "lines outside a file"; mc_set_shape(shape);
    static const int kinds[3] = { L_BEGIN_A, L_T1, L_END };
    char data[200]; size_t o = (size_t) snprintf(data, sizeof data, "<verif-1.0>\nbegin A\nt1\nend\n");
    snprintf(g_main, sizeof g_main, "%s/argv-%d.cfg", scratch(), (int) getpid());
    write_file(g_main, data, o);
    setup();
    g_env_on = 1; g_ledger_on = 1; g_allow_fork = 0;
    for (int i = 0; i < g_n; i++) {
        char *b = malloc(CONFIG_BUFF); strcpy(b, AV[d[i]]);
        spifconf_parse_line(NULL, (spif_charptr_t) b); free(b);
        av_model(d[i]);
        if (fstate_idx != 0 || ctx_state_idx != 0) { FAIL("spifconf_parse_line", "model:stacks-not-restored", shape, "after the line \"%s\": file stack index %d, context stack index %d", AV[d[i]], fstate_idx, ctx_state_idx); fstate_idx = 0; ctx_state_idx = 0; }
    }
    for (int i = 0; i < 3; i++) m_line(kinds[i]);
    spif_charptr_t r = spifconf_parse((spif_charptr_t) g_main, NULL, NULL);
    g_env_on = 0; g_ledger_on = 0; g_allow_fork = 1;
    if (!r) FAIL("spifconf_parse", "model:return", shape, "returned NULL"); else FREE(r);
    g_skip_state = 1;
    compare_and_finish(shape, DEPTH);
    g_skip_state = 0;
    mc_nontrivial();
    mc_outcome(mc_hash(EXP, sizeof(ev_t) * (size_t) (NEXP < 8 ? NEXP : 8)) + (uint64_t) NEXP);
}
/* ---- the same while a context is open (an earlier file left [begin B] unclosed): the line's own context is opened inside B and closed again;
 * a line whose text is "end" closes its own context with that word and the enclosing one with the end of the line (pinned) - every end call goes
 * to the handler of the context that is innermost at that moment */
static const char *AV2[] = { "A end", "A x", "B end", "A", "B y" };
#define NAV2 ((int) (sizeof AV2 / sizeof AV2[0]))
static void av2_desc(uint64_t idx, void *ctx, char *b, size_t n) { (void) ctx; snprintf(b, n, "file [begin B] [t1] (B stays open), then the line [%s] given outside a file%s, then the file [begin A] [t1] [end]", AV2[idx % NAV2], idx / NAV2 ? " twice" : ""); }
static void av2_case(uint64_t idx, void *ctx)
{
    (void) ctx; int k = (int) (idx % NAV2), reps = (int) (idx / NAV2) + 1;
    const char *shape = "line outside a file while a context is open"; mc_set_shape(shape);
    char data[200]; size_t o = (size_t) snprintf(data, sizeof data, "<verif-1.0>\nbegin B\nt1\n");
    char first[300]; snprintf(first, sizeof first, "%s/argv0-%d.cfg", scratch(), (int) getpid());
    write_file(first, data, o);
    o = (size_t) snprintf(data, sizeof data, "<verif-1.0>\nbegin A\nt1\nend\n");
    snprintf(g_main, sizeof g_main, "%s/argv-%d.cfg", scratch(), (int) getpid());
    write_file(g_main, data, o);
    setup();
    g_env_on = 1; g_ledger_on = 1; g_allow_fork = 0;
    spif_charptr_t r = spifconf_parse((spif_charptr_t) first, NULL, NULL); if (r) FREE(r);
    m_line(L_BEGIN_B); m_line(L_T1);
    for (int rep = 0; rep < reps; rep++) {
        char *b = malloc(CONFIG_BUFF); strcpy(b, AV2[k]);
        spifconf_parse_line(NULL, (spif_charptr_t) b); free(b);
        m_line(AV2[k][0] == 'A' ? L_BEGIN_A : L_BEGIN_B);
        const char *sp = strchr(AV2[k], ' ');
        if (sp && !strcmp(sp + 1, "end")) m_line(L_END);
        else if (sp) { STK[DEPTH].state = m_call(STK[DEPTH].ctx, 'T', sp + 1, STK[DEPTH].state); }
        m_line(L_END);                                  /* the end of the line closes whatever is innermost now */
        if (fstate_idx != 0) { FAIL("spifconf_parse_line", "model:stacks-not-restored", shape, "after the line \"%s\": file stack index %d", AV2[k], fstate_idx); fstate_idx = 0; }
    }
    m_line(L_BEGIN_A); m_line(L_T1); m_line(L_END);
    r = spifconf_parse((spif_charptr_t) g_main, NULL, NULL);
    g_env_on = 0; g_ledger_on = 0; g_allow_fork = 1;
    if (!r) FAIL("spifconf_parse", "model:return", shape, "returned NULL"); else FREE(r);
    g_skip_state = 1;
    compare_and_finish(shape, DEPTH);
    g_skip_state = 0;
    unlink(first);
    mc_nontrivial();
    mc_outcome(mc_hash(EXP, sizeof(ev_t) * (size_t) (NEXP < 8 ? NEXP : 8)) + (uint64_t) NEXP);
}
/* ---- a handler asks for the rest of its block to be skipped (file_poke_skip(n), n any non-zero value): nothing more of the block is delivered, the
 * block's end is, and the file goes on normally after it */
static const int SKIPV[] = { 1, 2, 3, 4, 256, -1 };
#define NSKIPV ((int) (sizeof SKIPV / sizeof SKIPV[0]))
static void sk_desc(uint64_t idx, void *ctx, char *b, size_t n) { (void) ctx; snprintf(b, n, "file [begin A] [skip %d] [t1] [  t2 two  ] [end] [begin B] [t1] [end]: the handler calls file_poke_skip(%d) on the skip line", SKIPV[idx], SKIPV[idx]); }
static void sk_case(uint64_t idx, void *ctx)
{
    (void) ctx; const char *shape = "handler asks to skip the rest of its block"; mc_set_shape(shape);
    char data[300]; size_t o = (size_t) snprintf(data, sizeof data, "<verif-1.0>\nbegin A\nskip %d\nt1\n  t2 two  \nend\nbegin B\nt1\nend\n", SKIPV[idx]);
    snprintf(g_main, sizeof g_main, "%s/skip-%d.cfg", scratch(), (int) getpid());
    write_file(g_main, data, o);
    setup();
    g_env_on = 1; g_ledger_on = 1; g_allow_fork = 0;
    m_line(L_BEGIN_A); { char t[24]; snprintf(t, sizeof t, "skip %d", SKIPV[idx]); STK[DEPTH].state = m_call(STK[DEPTH].ctx, 'T', t, STK[DEPTH].state); } m_line(L_END);
    m_line(L_BEGIN_B); m_line(L_T1); m_line(L_END);
    spif_charptr_t r = spifconf_parse((spif_charptr_t) g_main, NULL, NULL);
    g_env_on = 0; g_ledger_on = 0; g_allow_fork = 1;
    if (!r) FAIL("spifconf_parse", "model:return", shape, "returned NULL"); else FREE(r);
    g_skip_state = 1;
    compare_and_finish(shape, DEPTH);
    g_skip_state = 0;
    mc_nontrivial();
    mc_outcome((uint64_t) NGOT * 7 + idx);
}
/* ---- values are expanded before a line is delivered: a variable set to the empty string is set (the two-word %get gives its value, not the fallback) */
static const char *XQ[][2] = { { "k 'a\"b' $V ~", "k 'a\"b' val /h" }, { "k \"it\" '$V' \"$V\" ~", "k \"it\" '$V' \"val\" /h" }, { "k '\"' \"$V\" '\"' ~", "k '\"' \"val\" '\"' /h" },
    { "k %put(b 1)%put(\xe9t 2)%put(\x80 3)[%get(\xe9t)][%get(b)][%get(\x80)]", "k [2][1][3]" } };       /* variable names that start with bytes above 0x7f, next to an ASCII one */
#define NXQ ((int) (sizeof XQ / sizeof XQ[0]))
static void xv_desc(uint64_t idx, void *ctx, char *b, size_t n) { (void) ctx; if (idx >= 2) { char e[300]; mc_esc(XQ[idx - 2][0], strlen(XQ[idx - 2][0]), e, sizeof e); snprintf(b, n, "file [begin A] [%s] [end] with V=val and HOME=/h: quotes inside quotes are ordinary characters, variable names may start with any byte", e); return; } snprintf(b, n, idx ? "file [begin A] [%%put(e \"\")] [x=%%get(e blue)] [y=%%get(unset blue)] [end]" : "file [begin A] [%%put(e v)] [x=%%get(e blue)] [y=%%get(unset blue)] [end]"); }
static void xv_case(uint64_t idx, void *ctx)
{
    (void) ctx; const char *shape = "line with %put / %get"; mc_set_shape(shape);
    char data[300]; size_t o = idx >= 2 ? (size_t) snprintf(data, sizeof data, "<verif-1.0>\nbegin A\n%s\nend\n", XQ[idx - 2][0]) : (size_t) snprintf(data, sizeof data, "<verif-1.0>\nbegin A\n%%put(e %s)\nx=%%get(e blue)\ny=%%get(unset blue)\nend\n", idx ? "\"\"" : "v");
    snprintf(g_main, sizeof g_main, "%s/xv-%d.cfg", scratch(), (int) getpid());
    write_file(g_main, data, o);
    setup();
    g_env_on = 1; g_ledger_on = 1; g_allow_fork = 0;
    m_line(L_BEGIN_A);
    if (idx >= 2) STK[DEPTH].state = m_call(STK[DEPTH].ctx, 'T', XQ[idx - 2][1], STK[DEPTH].state);
    else {
    STK[DEPTH].state = m_call(STK[DEPTH].ctx, 'T', idx ? "x=" : "x=v", STK[DEPTH].state);
    STK[DEPTH].state = m_call(STK[DEPTH].ctx, 'T', "y=blue", STK[DEPTH].state); }
    m_line(L_END);
    spif_charptr_t r = spifconf_parse((spif_charptr_t) g_main, NULL, NULL);
    g_env_on = 0; g_ledger_on = 0; g_allow_fork = 1;
    if (!r) FAIL("spifconf_parse", "model:return", shape, "returned NULL"); else FREE(r);
    g_skip_state = 1;
    compare_and_finish(shape, DEPTH);
    g_skip_state = 0;
    mc_nontrivial();
    mc_outcome((uint64_t) NGOT * 7 + idx);
}
/* ---- the application replaces the handler of the "null" context: top-level lines and blocks of unknown names go to it - also when every other context ID is in use */
static void *handler_N(spif_charptr_t b, void *s) { return handler('N', b, s); }
static const int NR_EXTRA[3] = { 0, 100, 253 };
static void nr_desc(uint64_t idx, void *ctx, char *b, size_t n) { (void) ctx; snprintf(b, n, "contexts A, B and %d more registered (%d of 255 IDs in use), then register_context(\"%s\", handler N); file [t1] [begin zz] [  t2 two  ] [end] [begin A] [t1] [end]", NR_EXTRA[idx / 2], NR_EXTRA[idx / 2] + 2, idx % 2 ? "NULL" : "null"); }
static void nr_case(uint64_t idx, void *ctx)
{
    (void) ctx; const char *shape = NR_EXTRA[idx / 2] + 2 == 255 ? "null context replaced with the context table full" : "null context replaced"; mc_set_shape(shape);
    char data[300]; size_t o = (size_t) snprintf(data, sizeof data, "<verif-1.0>\nt1\nbegin zz\n  t2 two  \nend\nbegin A\nt1\nend\n");
    snprintf(g_main, sizeof g_main, "%s/nr-%d.cfg", scratch(), (int) getpid());
    write_file(g_main, data, o);
    setup();
    for (int i = 0; i < NR_EXTRA[idx / 2]; i++) { char nm[24]; snprintf(nm, sizeof nm, "c%d", i); unsigned char id = spifconf_register_context((spif_charptr_t) nm, handler_B); if (id != i + 3) FAIL("spifconf_register_context", "model:return", shape, "context number %d got id %u", i + 3, id); }
    unsigned char id0 = spifconf_register_context((spif_charptr_t) (idx % 2 ? "NULL" : "null"), handler_N);
    if (id0 != 0) FAIL("spifconf_register_context", "model:return", shape, "registering the null context again returned id %u, expected 0", id0);
    g_env_on = 1; g_ledger_on = 1; g_allow_fork = 0;
    m_emit('N', 'T', "t1", 0); m_emit('N', 'B', "", 0); m_emit('N', 'T', "t2 two", 0); m_emit('N', 'E', "", 0); m_emit('A', 'B', "", 0); m_emit('A', 'T', "t1", 0); m_emit('A', 'E', "", 0);
    spif_charptr_t r = spifconf_parse((spif_charptr_t) g_main, NULL, NULL);
    g_env_on = 0; g_ledger_on = 0; g_allow_fork = 1;
    if (!r) FAIL("spifconf_parse", "model:return", shape, "returned NULL"); else FREE(r);
    g_skip_state = 1;
    compare_and_finish(shape, 0);
    g_skip_state = 0;
    mc_nontrivial();
    mc_outcome((uint64_t) NGOT * 7 + idx);
}
/* ---- the file is found through a search path, in a directory that is not the current one, and includes a file by a relative name
 * (the parser works from the directory of the file it found and returns to where it was); and the name in the magic line follows
 * the program name as it is when a file is opened */
static void sp_desc(uint64_t idx, void *ctx, char *b, size_t n)
{
    (void) ctx;
    if (idx >= 6) snprintf(b, n, "spifconf_parse(\"main.cfg\", NULL, %s) with main.cfg = [begin A] [%%include rel.cfg] [t1] [end]: a search-path entry written with a trailing slash", idx == 6 ? "\"dir/\") after a lookup through a 250-character path" : "\"<250-character directory that does not exist>:dir/\"");
    else if (idx < 4) snprintf(b, n, "spifconf_parse(\"main.cfg\", %s, %s) with main.cfg = [begin A] [%%include rel.cfg] [t1] [end] in a directory other than the current one", idx & 1 ? "dir" : "NULL", idx & 2 ? "\"/nonexistent:dir\"" : "\"dir\"");
    else snprintf(b, n, "parse a file with the magic of the program name, rename the program, parse a file with the new magic%s", idx == 5 ? " from an %include" : "");
}
static void sp_case(uint64_t idx, void *ctx)
{
    (void) ctx;
    char dir[300], path[700], data[600], cwd0[PATH_MAX], cwd1[PATH_MAX];
    snprintf(dir, sizeof dir, "%s/sp-%d", scratch(), (int) getpid()); mkdir(dir, 0700);
    setup();
    if (idx < 4 || idx >= 6) {
        const char *shape = "file found through a search path"; mc_set_shape(shape);
        int slash = idx >= 6, use_dir = idx < 4 && (idx & 1);
        static const char LONGP[] = "/nonexistent/verif/a-directory-name-that-is-much-longer-than-the-scratch-directory-of-this-run/0123456789/0123456789/0123456789/0123456789/0123456789/0123456789/0123456789/0123456789/0123456789/0123456789/0123456789/0123456789/0123456789";
        if (idx == 6) { spif_charptr_t f = spifconf_find_file((spif_charptr_t) "nosuch.cfg", NULL, (spif_charptr_t) LONGP); if (f) FAIL("spifconf_find_file", "model:return", shape, "a file was found in a directory that does not exist"); }      /* an earlier, longer lookup in the same process */
        snprintf(path, sizeof path, "%s/main.cfg", dir); snprintf(data, sizeof data, "<verif-1.0>\nbegin A\n%%include rel.cfg\nt1\nend\n"); write_file(path, data, strlen(data));
        snprintf(path, sizeof path, "%s/rel.cfg", dir); snprintf(data, sizeof data, "<verif-1.0>\n  t2 two  \n"); write_file(path, data, strlen(data));
        m_line(L_BEGIN_A); m_line(L_T2); m_line(L_T1); m_line(L_END);
        char plist[900]; if (slash) snprintf(plist, sizeof plist, "%s%s%s/", idx == 7 ? LONGP : "", idx == 7 ? ":" : "", dir); else snprintf(plist, sizeof plist, "%s%s", idx & 2 ? "/nonexistent/verif:" : "", dir);
        if (!getcwd(cwd0, sizeof cwd0)) cwd0[0] = 0;
        g_env_on = 1; g_ledger_on = 1; g_allow_fork = 0;
        spif_charptr_t r = use_dir ? spifconf_parse((spif_charptr_t) "main.cfg", (spif_charptr_t) dir, (spif_charptr_t) "/nonexistent/verif") : spifconf_parse((spif_charptr_t) "main.cfg", NULL, (spif_charptr_t) plist);
        g_env_on = 0; g_ledger_on = 0; g_allow_fork = 1;
        if (!getcwd(cwd1, sizeof cwd1)) cwd1[0] = 0;
        if (!r) FAIL("spifconf_parse", "model:return", shape, "returned NULL for a file that is in the search path"); else FREE(r);
        if (strcmp(cwd0, cwd1)) { FAIL("spifconf_parse", "model:cwd-not-restored", shape, "the current directory is %s after parsing, it was %s", cwd1, cwd0); if (chdir(cwd0)) {} }
        compare_and_finish(shape, DEPTH);
    } else {
        const char *shape = "program renamed between two parses"; mc_set_shape(shape);
        snprintf(path, sizeof path, "%s/one.cfg", dir); snprintf(data, sizeof data, "<verif-1.0>\nbegin A\nt1\nend\n"); write_file(path, data, strlen(data));
        char two[700], three[700]; snprintf(two, sizeof two, "%s/two.cfg", dir); snprintf(three, sizeof three, "%s/three.cfg", dir);
        snprintf(data, sizeof data, "<other-1.0>\n  t2 two  \n"); write_file(three, data, strlen(data));
        if (idx == 5) snprintf(data, sizeof data, "<other-1.0>\nbegin B\n%%include %s\nend\n", three); else snprintf(data, sizeof data, "<other-1.0>\nbegin B\n  t2 two  \nend\n");
        write_file(two, data, strlen(data));
        m_line(L_BEGIN_A); m_line(L_T1); m_line(L_END); m_line(L_BEGIN_B); m_line(L_T2); m_line(L_END);
        g_env_on = 1; g_ledger_on = 1; g_allow_fork = 0;
        spif_charptr_t r1 = spifconf_parse((spif_charptr_t) path, NULL, NULL);
        libast_set_program_name("other");
        spif_charptr_t r2 = spifconf_parse((spif_charptr_t) two, NULL, NULL);
        spif_charptr_t r3 = spifconf_parse((spif_charptr_t) path, NULL, NULL);          /* the old magic no longer names this program */
        libast_set_program_name("verif");
        g_env_on = 0; g_ledger_on = 0; g_allow_fork = 1;
        if (!r1) FAIL("spifconf_parse", "model:return", shape, "the first file was refused"); else FREE(r1);
        if (!r2) FAIL("spifconf_parse", "model:return", shape, "a file with the magic of the current program name was refused"); else FREE(r2);
        if (r3) { FAIL("spifconf_parse", "model:return", shape, "a file with the magic of the former program name was accepted"); FREE(r3); }
        compare_and_finish(shape, DEPTH);
    }
    mc_nontrivial();
    mc_outcome(idx);
}
int main(int argc, char **argv)
{
    mc_init("C09", argc, argv);
    libast_debug_level = (unsigned) mc_dlevel();        /* --dlevel=N: the whole run at runtime debug level N (default 0) */
    N = (int) mc_arg_int("N", mc_thorough() ? 5 : 3);
    mc_info("alphabet", "files of <= %d lines over 19 line kinds {# c, blank, begin A|B|a|zz(unknown), end, end A, t1, '  t2 two  ', 'v $V', %%include plain|unbalanced|nested|missing|without magic line|file that includes a missing file, endx, beginx}; "
            "contexts A, B registered with recording handlers, null context built in; depth sweep 1..255 balanced and unbalanced; include-chain sweep 1..30; lines of 20470..20489, 40949..40968 and 61428..61447 characters followed by an ordinary line; every file also without a newline after its last line", N);
    mc_e2_level("depth", 255, 255 * 2, d_case, d_desc, NULL);
    mc_e2_level("include_chain", 30, 30, i_case, i_desc, NULL);
    mc_e2_level("long_lines", 61447, 60, ll_case, ll_desc, NULL);
    mc_e2_level("search_path_and_name", 1, 8, sp_case, sp_desc, NULL);
    for (g_n = 1; g_n <= 2; g_n++) mc_e2_level("argv_lines", g_n, mc_words_of_len(NAV, g_n), av_case, av_desc, NULL);
    mc_e2_level("argv_lines_in_open_context", 2, (uint64_t) NAV2 * 2, av2_case, av2_desc, NULL);
    mc_e2_level("skip_to_end", 1, NSKIPV, sk_case, sk_desc, NULL);
    mc_e2_level("expanded_values", 1, 2 + NXQ, xv_case, xv_desc, NULL);
    mc_e2_level("null_context_replaced", 255, 6, nr_case, nr_desc, NULL);
    for (g_n = 0; g_n <= N; g_n++) if (!mc_e2_level("files", g_n, mc_words_of_len(NKIND, g_n) * 2, f_case, f_desc, NULL)) break;
    return mc_finish();
}
