/* h_opt.c — C08: the option parser assigns exactly what the command line says and nothing else.
 * Part A (value oracle): E2 over all sequences of <= K semantic items x all their spellings x the
 * settings {pre-parse, remove-args}^2; the expected assignment is computed from the items, not by parsing.
 * Part B (safety oracle): E2 over all vectors of <= N tokens from a hostile token alphabet. */
#include "hcommon.h"

/* ------------------------------------------------------------------ targets between guard words */
#define GUARD 0xC3C3C3C3C3C3C3C3UL
#define NOBODY 0xA5A5A5A5000000f0UL       /* bits of the flag word that belong to no option: 4..7 and the upper half of the unsigned long */
static struct { unsigned long g0; unsigned long flags; unsigned long g1; int num; int gi1; int count; int gi2; unsigned long g2;
                const char *file; unsigned long g3; const char *display; unsigned long g4; char **exec; unsigned long g5; } T;
static char *g_theme; static int g_theme_calls, g_theme_null;
static void handle_theme(spif_charptr_t v) { g_theme_calls++; free(g_theme); g_theme = v ? strdup((char *) v) : NULL; g_theme_null = (v == NULL); }
static int g_help_calls;
static void help_stub(void) { g_help_calls++; }
static int g_diag;
void __wrap_libast_print_error(const char *fmt, ...)
{
    (void) fmt;
    if (++g_diag > 1000 && mc_protected) { FAIL("spifopt_parse", "hang:diagnostics", "", "more than 1000 diagnostics in one parse: the parser does not advance"); mc_protected = 0; siglongjmp(mc_jmp, 97); }
}
void __wrap_libast_print_warning(const char *fmt, ...) { (void) fmt; }

static int g_exec_pp;           /* table variant: exec and theme belong to the pre-parse pass */
static spifopt_t OPTS[12]; static int NOPT; static int g_rot;
static void table(void)
{
    spifopt_t t[] = {
        SPIFOPT_BOOL('a', "alpha", "a", T.flags, 0x01),
        SPIFOPT_BOOL('b', "beta", "b", T.flags, 0x02),
        SPIFOPT_BOOL_LONG("gamma", "g", T.flags, 0x04),
        SPIFOPT_BOOL_PP('v', "verbose", "v", T.flags, 0x08),
        SPIFOPT_INT('n', "num", "n", T.num),
        SPIFOPT_INT_LONG("count", "c", T.count),
        SPIFOPT_STR('f', "file", "f", T.file),
        SPIFOPT_STR_PP('d', "display", "d", T.display),
        SPIFOPT_ARGS('e', "exec", "e", T.exec),
        SPIFOPT_ABST('t', "theme", "t", handle_theme),
    };
    NOPT = (int) (sizeof t / sizeof t[0]);
    if (g_exec_pp) { t[8].flags |= SPIFOPT_FLAG_PREPARSE; t[9].flags |= SPIFOPT_FLAG_PREPARSE; }
    /* the same table contents, rotated by g_rot entries, always at the same address: the order of a table carries no meaning */
    for (int i = 0; i < NOPT; i++) OPTS[(i + g_rot) % NOPT] = t[i];
}

/* ------------------------------------------------------------------ semantic items */
enum { E_BOOL_SET, E_BOOL_CLR, E_INT, E_STR, E_ABST, E_ABST_NULL, E_ARGS_REST, E_ARGS_EQ, E_WORD };
typedef struct { const char *tok[3]; int kind; int tgt; const char *val; int tgt2, tgt3; const char *val3; } item_t;
/* tgt: bool -> mask; int -> 0 num 1 count; str -> 0 file 1 display.  A bundle may set up to two booleans (tgt, tgt2) and one string (tgt3/val3). */
static const item_t ITEMS[] = {
    { { "-a" }, E_BOOL_SET, 0x01, 0, 0, 0, 0 },                 { { "--alpha" }, E_BOOL_SET, 0x01, 0, 0, 0, 0 },
    { { "--alpha=yes" }, E_BOOL_SET, 0x01, 0, 0, 0, 0 },        { { "--ALPHA=On" }, E_BOOL_SET, 0x01, 0, 0, 0, 0 },
    { { "--alpha=no" }, E_BOOL_CLR, 0x01, 0, 0, 0, 0 },         { { "--alpha", "off" }, E_BOOL_CLR, 0x01, 0, 0, 0, 0 },
    { { "--alpha", "true" }, E_BOOL_SET, 0x01, 0, 0, 0, 0 },    { { "--alpha=0" }, E_BOOL_CLR, 0x01, 0, 0, 0, 0 },
    { { "-b" }, E_BOOL_SET, 0x02, 0, 0, 0, 0 },                 { { "--beta=false" }, E_BOOL_CLR, 0x02, 0, 0, 0, 0 },
    { { "--gamma" }, E_BOOL_SET, 0x04, 0, 0, 0, 0 },            { { "--gamma=1" }, E_BOOL_SET, 0x04, 0, 0, 0, 0 },
    /* boolean words are matched without regard to case, whichever letter comes first */
    { { "--alpha=Off" }, E_BOOL_CLR, 0x01, 0, 0, 0, 0 },        { { "--beta", "NO" }, E_BOOL_CLR, 0x02, 0, 0, 0, 0 },
    { { "--gamma", "Yes" }, E_BOOL_SET, 0x04, 0, 0, 0, 0 },     { { "--beta=FALSE" }, E_BOOL_CLR, 0x02, 0, 0, 0, 0 },
    { { "--gamma=TRUE" }, E_BOOL_SET, 0x04, 0, 0, 0, 0 },
    { { "-v" }, E_BOOL_SET, 0x08, 0, 0, 0, 0 },                 { { "--verbose=off" }, E_BOOL_CLR, 0x08, 0, 0, 0, 0 },
    { { "-ab" }, E_BOOL_SET, 0x01, 0, 0x02, 0, 0 },             { { "-bva" }, E_BOOL_SET, 0x01, 0, 0x0a, 0, 0 },
    { { "-abf", "X" }, E_BOOL_SET, 0x01, 0, 0x02, 1, "X" },     { { "-afX" }, E_BOOL_SET, 0x01, 0, 0, 1, "X" },
    { { "-n5" }, E_INT, 0, "5", 0, 0, 0 },                      { { "-n", "-7" }, E_INT, 0, "-7", 0, 0, 0 },
    { { "--num=0x10" }, E_INT, 0, "0x10", 0, 0, 0 },            { { "--num", "5" }, E_INT, 0, "5", 0, 0, 0 },
    { { "--count=7" }, E_INT, 1, "7", 0, 0, 0 },                { { "--count", "8" }, E_INT, 1, "8", 0, 0, 0 },
    { { "-fX" }, E_STR, 0, "X", 0, 0, 0 },                      { { "-f", "Y" }, E_STR, 0, "Y", 0, 0, 0 },
    { { "--file=x y" }, E_STR, 0, "x y", 0, 0, 0 },             { { "--file", "Z" }, E_STR, 0, "Z", 0, 0, 0 },
    { { "--file=a=b" }, E_STR, 0, "a=b", 0, 0, 0 },             /* the value starts after the FIRST '=' */
    { { "-f=X" }, E_STR, 0, "=X", 0, 0, 0 },                     /* everything after the letter is the value: a short option has no '=' spelling */
    { { "--file=" }, E_STR, 0, "", 0, 0, 0 },                   { { "-d", ":0" }, E_STR, 1, ":0", 0, 0, 0 },
    { { "--display=:1" }, E_STR, 1, ":1", 0, 0, 0 },
    { { "-t", "T1" }, E_ABST, 0, "T1", 0, 0, 0 },               { { "-tT2" }, E_ABST, 0, "T2", 0, 0, 0 },
    { { "--theme=T3" }, E_ABST, 0, "T3", 0, 0, 0 },             { { "--theme", "T4" }, E_ABST, 0, "T4", 0, 0, 0 },
    { { "--theme" }, E_ABST_NULL, 0, 0, 0, 0, 0 },
    { { "-e", "w1", "w2" }, E_ARGS_REST, 0, 0, 0, 0, 0 },       { { "--exec", "w1", "-a" }, E_ARGS_REST, 0, 0, 0, 0, 0 },
    { { "-ew1", "w2" }, E_ARGS_REST, 1, 0, 0, 0, 0 },            /* the first word of the list attached to the letter, like -fX for a string */
    { { "--exec=w1 w2" }, E_ARGS_EQ, 0, 0, 0, 0, 0 },           { { "--exec=one" }, E_ARGS_EQ, 1, 0, 0, 0, 0 },
    { { "word" }, E_WORD, 0, 0, 0, 0, 0 },                      { { "x1" }, E_WORD, 0, 0, 0, 0, 0 },
};
#define NITEMS ((int) (sizeof ITEMS / sizeof ITEMS[0]))
static int K;
typedef struct { int n; int it[6]; int preparse, remove, exec_pp; } line_t;
static uint64_t lines_of(int k) { return mc_words_of_len(NITEMS, k) * 8; }
static void line_decode(uint64_t idx, int k, line_t *l)
{
    l->preparse = (int) (idx & 1); l->remove = (int) ((idx >> 1) & 1); l->exec_pp = (int) ((idx >> 2) & 1); idx >>= 3;
    l->n = k; mc_word_decode(idx, NITEMS, k, l->it);
}
static int is_option_item(const item_t *it) { return it->kind != E_WORD; }
static int line_valid(const line_t *l)
{
    for (int i = 0; i < l->n; i++) {
        const item_t *it = &ITEMS[l->it[i]];
        if (it->kind == E_ARGS_REST && i != l->n - 1) return 0;                                  /* swallows the rest of the line */
        if (it->kind == E_ABST_NULL && i != l->n - 1 && !is_option_item(&ITEMS[l->it[i + 1]])) return 0;   /* a following word would be its value */
    }
    return 1;
}
static int g_k;
static void line_text(const line_t *l, char *b, size_t n)
{
    size_t o = 0; o += (size_t) snprintf(b, n, "prog");
    for (int i = 0; i < l->n; i++) for (int t = 0; t < 3 && ITEMS[l->it[i]].tok[t]; t++) o += (size_t) snprintf(b + o, n - o, " [%s]", ITEMS[l->it[i]].tok[t]);
    snprintf(b + o, n - o, "  {pre-parse=%d remove-args=%d exec/theme are %s options}", l->preparse, l->remove, l->exec_pp ? "pre-parse" : "normal");
}
static void a_desc(uint64_t idx, void *ctx, char *b, size_t n) { line_t l; (void) ctx; line_decode(idx, g_k, &l); line_text(&l, b, n); }

typedef struct { unsigned long flags; int num, count; const char *file, *display; int exec_set; const char *exec[4]; int theme_calls; const char *theme; int theme_null; } exp_t;
static int is_pp(const item_t *it, int exec_pp)
{
    switch (it->kind) {
    case E_BOOL_SET: case E_BOOL_CLR: return it->tgt == 0x08 && !it->tgt2;       /* only -v/--verbose alone; bundles are handled per letter below */
    case E_STR: return it->tgt == 1;
    case E_ABST: case E_ABST_NULL: case E_ARGS_REST: case E_ARGS_EQ: return exec_pp;
    default: return 0;
    }
}
/* apply the items that belong to pass 'pp' (1 = pre-parse pass, 0 = normal pass) */
static void expect_pass(const line_t *l, int pp, exp_t *e)
{
    for (int i = 0; i < l->n; i++) {
        const item_t *it = &ITEMS[l->it[i]];
        switch (it->kind) {
        case E_BOOL_SET: {
            unsigned long all = (unsigned long) (it->tgt | it->tgt2), mine = pp ? (all & 0x08) : (all & ~0x08UL);
            e->flags |= mine;
            if (it->tgt3 && !pp) e->file = it->val3;
            break; }
        case E_BOOL_CLR: if (is_pp(it, l->exec_pp) == pp) e->flags &= ~(unsigned long) it->tgt; break;
        case E_INT: if (!pp) { int v = (int) strtol(it->val, NULL, 0); if (it->tgt == 0) e->num = v; else e->count = v; } break;
        case E_STR: if (is_pp(it, l->exec_pp) == pp) { if (it->tgt == 0) e->file = it->val; else e->display = it->val; } break;
        case E_ABST: if (l->exec_pp == pp) { e->theme_calls++; e->theme = it->val; e->theme_null = 0; } break;
        case E_ABST_NULL: if (l->exec_pp == pp) { e->theme_calls++; e->theme = NULL; e->theme_null = 1; } break;
        case E_ARGS_REST: if (l->exec_pp == pp) { e->exec_set = 1; if (it->tgt) { e->exec[0] = it->tok[0] + 2; e->exec[1] = it->tok[1]; } else { e->exec[0] = it->tok[1]; e->exec[1] = it->tok[2]; } e->exec[2] = NULL; } return;     /* ends parsing in either pass */
        case E_ARGS_EQ: if (l->exec_pp == pp) { e->exec_set = 1; if (it->tgt) { e->exec[0] = "one"; e->exec[1] = NULL; } else { e->exec[0] = "w1"; e->exec[1] = "w2"; e->exec[2] = NULL; } } break;
        }
    }
}
static int streq(const char *a, const char *b) { return (!a && !b) || (a && b && !strcmp(a, b)); }
static void compare(const exp_t *e, const char *when, const char *shape)
{
    if (T.g0 != GUARD || T.g1 != GUARD || T.g2 != GUARD || T.g3 != GUARD || T.g4 != GUARD || T.g5 != GUARD || T.gi1 != 0x5a5a5a5a || T.gi2 != 0x5a5a5a5a)
        FAIL("spifopt_parse", "invariant:guard-word-overwritten", shape, "%s: a guard word next to an option variable changed", when);
    if (T.flags != e->flags) FAIL("spifopt_parse", "model:boolean-bits", shape, "%s: flags 0x%lx, expected 0x%lx (bits 0xa5a5a5a5000000f0 belong to nobody)", when, T.flags, e->flags);
    if (T.num != e->num || T.count != e->count) FAIL("spifopt_parse", "model:integer", shape, "%s: num=%d count=%d, expected %d %d", when, T.num, T.count, e->num, e->count);
    if (!streq(T.file, e->file)) FAIL("spifopt_parse", "model:string", shape, "%s: file is %s%s%s, expected %s%s%s", when, T.file ? "\"" : "", T.file ? T.file : "unset", T.file ? "\"" : "", e->file ? "\"" : "", e->file ? e->file : "unset", e->file ? "\"" : "");
    if (!streq(T.display, e->display)) FAIL("spifopt_parse", "model:string", shape, "%s: display is %s, expected %s", when, T.display ? T.display : "unset", e->display ? e->display : "unset");
    if ((T.exec != NULL) != e->exec_set) FAIL("spifopt_parse", "model:arglist", shape, "%s: exec list is %s, expected %s", when, T.exec ? "set" : "unset", e->exec_set ? "set" : "unset");
    else if (T.exec) { int i; for (i = 0; e->exec[i] || T.exec[i]; i++) if (!streq(T.exec[i], e->exec[i])) { FAIL("spifopt_parse", "model:arglist", shape, "%s: exec[%d] is %s, expected %s", when, i, T.exec[i] ? T.exec[i] : "NULL", e->exec[i] ? e->exec[i] : "NULL"); break; } }
    if (g_theme_calls != e->theme_calls) FAIL("spifopt_parse", "model:abstract-calls", shape, "%s: handler called %d times, expected %d", when, g_theme_calls, e->theme_calls);
    else if (e->theme_calls && (!streq(g_theme, e->theme) || g_theme_null != e->theme_null)) FAIL("spifopt_parse", "model:abstract-value", shape, "%s: handler got %s, expected %s", when, g_theme ? g_theme : "NULL", e->theme ? e->theme : "NULL");
}
static void reset_targets(void)
{
    memset(&T, 0, sizeof T);
    T.g0 = T.g1 = T.g2 = T.g3 = T.g4 = T.g5 = GUARD; T.gi1 = T.gi2 = 0x5a5a5a5a; T.flags = NOBODY;
    free(g_theme); g_theme = NULL; g_theme_calls = 0; g_theme_null = 0; g_help_calls = 0; g_diag = 0;
}
static void free_targets(void)
{
    /* strings and lists are the parser's allocations; earlier values of a repeated option are lost by design of the API */
    if (T.file) FREE(T.file); if (T.display) FREE(T.display);
    if (T.exec) { for (int i = 0; T.exec[i]; i++) FREE(T.exec[i]); FREE(T.exec); }
}
static void free_targets(void);
static void prime(void)
{
    static const char *PL[] = { "prog", "-ab", "-v", "-n", "3", "-f", "P", "-d", "Q", "-t", "R", "--gamma", "--count=2", "-e", "w" };
    char *av[16]; int ac = (int) (sizeof PL / sizeof PL[0]);
    for (int i = 0; i < ac; i++) av[i] = mc_heapstr(PL[i]);
    char **argv = malloc(sizeof(char *) * (size_t) (ac + 1)); memcpy(argv, av, sizeof(char *) * (size_t) ac); argv[ac] = NULL;
    SPIFOPT_OPTLIST_SET(OPTS); SPIFOPT_NUMOPTS_SET(NOPT); SPIFOPT_ALLOWBAD_SET(0); SPIFOPT_BADOPTS_SET(0); SPIFOPT_HELPHANDLER_SET(help_stub);
    spifopt_settings.flags = 0;
    spifopt_parse(ac, argv);
    free_targets();
    for (int i = 0; i < ac; i++) free(av[i]);
    free(argv);
}
static void a_case(uint64_t idx, void *ctx)
{
    line_t l; (void) ctx; line_decode(idx, g_k, &l);
    if (!line_valid(&l)) return;
    const char *shape = l.preparse ? (l.remove ? "pre-parse + remove-args" : "pre-parse") : (l.remove ? "remove-args" : "plain");
    mc_set_shape(shape);
    /* history: an earlier parse in the same process used the same table storage with the entries in another order */
    g_exec_pp = l.exec_pp; g_rot = (int) ((idx >> 3) % 10 + 1) % 10; table(); reset_targets(); prime();
    g_rot = (int) ((idx >> 3) % 10); table(); reset_targets();
    /* argv: exact-size heap strings in an exact-size heap array */
    char *av[24], *orig[24]; int ac = 0; av[ac++] = mc_heapstr("prog");
    for (int i = 0; i < l.n; i++) for (int t = 0; t < 3 && ITEMS[l.it[i]].tok[t]; t++) av[ac++] = mc_heapstr(ITEMS[l.it[i]].tok[t]);
    char **argv = malloc(sizeof(char *) * (size_t) (ac + 1)); memcpy(argv, av, sizeof(char *) * (size_t) ac); argv[ac] = NULL; memcpy(orig, av, sizeof(char *) * (size_t) ac);
    /* history: in half of the cases an earlier command line of this process left the bad-option count above the limit (the parser never resets it) */
    unsigned char bad0 = (unsigned char) (((idx >> 3) % 2) ? 5 : 0);
    SPIFOPT_OPTLIST_SET(OPTS); SPIFOPT_NUMOPTS_SET(NOPT); SPIFOPT_ALLOWBAD_SET(0); SPIFOPT_BADOPTS_SET(bad0); SPIFOPT_HELPHANDLER_SET(help_stub);
    spifopt_settings.flags = 0;
    if (l.remove) SPIFOPT_FLAGS_SET(SPIFOPT_SETTING_REMOVE_ARGS);
    exp_t e; memset(&e, 0, sizeof e); e.flags = NOBODY;
    if (l.preparse) {
        SPIFOPT_FLAGS_SET(SPIFOPT_SETTING_PREPARSE);
        spifopt_parse(ac, argv);
        expect_pass(&l, 1, &e);
        compare(&e, "after the pre-parse pass", shape);
        for (int i = 0; i < ac; i++) if (argv[i] != orig[i]) { FAIL("spifopt_parse", "model:argv-changed-in-preparse", shape, "argv[%d] changed during the pre-parse pass", i); break; }
        if (ac > 1 && SPIFOPT_FLAGS_IS_SET(SPIFOPT_SETTING_PREPARSE)) FAIL("spifopt_parse", "model:preparse-flag", shape, "the pre-parse setting was not cleared by the pre-parse pass");
        SPIFOPT_FLAGS_CLEAR(SPIFOPT_SETTING_PREPARSE);        /* an empty command line returns before the flag is touched; the statement does not cover that */
    }
    spifopt_parse(ac, argv);
    expect_pass(&l, 0, &e);
    compare(&e, "after the normal pass", shape);
    if (SPIFOPT_BADOPTS_GET() != bad0 || g_help_calls) FAIL("spifopt_parse", "model:bad-option-on-wellformed-line", shape, "bad-option count went from %d to %d, %d help calls on a well-formed line", (int) bad0, (int) SPIFOPT_BADOPTS_GET(), g_help_calls);
    /* argv afterwards */
    if (l.remove) {
        char *want[24]; int nw = 0; want[nw++] = orig[0]; int pos = 1, stop = 0;
        for (int i = 0; i < l.n && !stop; i++) { const item_t *it = &ITEMS[l.it[i]]; int nt = 0; while (nt < 3 && it->tok[nt]) nt++;
            if (it->kind == E_WORD) want[nw++] = orig[pos];
            pos += nt; }
        int i; for (i = 0; i < nw; i++) if (argv[i] != want[i]) break;
        if (i < nw || argv[nw] != NULL) {
            char got[300]; size_t o = 0; got[0] = 0; for (int k = 0; k <= ac && argv[k] && o + 40 < sizeof got; k++) o += (size_t) snprintf(got + o, sizeof got - o, "[%s]", argv[k]);
            FAIL("spifopt_parse", "model:argv-after-removal", shape, "argv is %s; expected the program name and %d non-option words, NULL-terminated", got, nw - 1);
        }
    } else {
        for (int i = 0; i <= ac; i++) if (argv[i] != (i < ac ? orig[i] : NULL)) { FAIL("spifopt_parse", "model:argv-changed", shape, "argv[%d] changed although argument removal is off", i); break; }
    }
    free_targets();
    for (int i = 0; i < ac; i++) free(orig[i]);
    free(argv);
    mc_nontrivial();
    mc_outcome((uint64_t) e.flags * 1000003u + (uint64_t) e.num * 31 + (uint64_t) e.theme_calls * 7 + (uint64_t) e.exec_set);
}

/* ------------------------------------------------------------------ part B: arbitrary vectors */
static const char *TOK[] = { "-", "--", "-z", "--bogus", "--bogus=1", "-n", "--num", "--file=", "-e", "--exec=", "--exec=a \"b c", "=x", "-=", "--=", "-a", "--alpha=maybe", "X", "no", "-ab", "-fa", "-t", "--count" };
#define NTOK ((int) (sizeof TOK / sizeof TOK[0]))
static void b_desc(uint64_t idx, void *ctx, char *b, size_t n)
{
    int d[8], len = g_k; (void) ctx; int set = (int) (idx & 3); mc_word_decode(idx >> 2, NTOK, len, d);
    size_t o = (size_t) snprintf(b, n, "prog"); for (int i = 0; i < len; i++) o += (size_t) snprintf(b + o, n - o, " [%s]", TOK[d[i]]);
    snprintf(b + o, n - o, "  {pre-parse=%d remove-args=%d}", set & 1, (set >> 1) & 1);
}
static void b_case(uint64_t idx, void *ctx)
{
    int d[8], len = g_k; (void) ctx; int set = (int) (idx & 3); mc_word_decode(idx >> 2, NTOK, len, d);
    int lone = 0, missing = 0; for (int i = 0; i < len; i++) { if (!strcmp(TOK[d[i]], "-")) lone = 1; }
    if (len && (!strcmp(TOK[d[len - 1]], "-n") || !strcmp(TOK[d[len - 1]], "--num") || !strcmp(TOK[d[len - 1]], "-e") || !strcmp(TOK[d[len - 1]], "--count"))) missing = 1;
    const char *shape = lone ? "lone '-'" : (missing ? "value missing at the end" : "other");
    mc_set_shape(shape);
    g_exec_pp = 0; table(); reset_targets();
    char *orig[12]; int ac = 0; orig[ac++] = mc_heapstr("prog"); for (int i = 0; i < len; i++) orig[ac++] = mc_heapstr(TOK[d[i]]);
    char **argv = malloc(sizeof(char *) * (size_t) (ac + 1)); memcpy(argv, orig, sizeof(char *) * (size_t) ac); argv[ac] = NULL;
    SPIFOPT_OPTLIST_SET(OPTS); SPIFOPT_NUMOPTS_SET(NOPT); SPIFOPT_ALLOWBAD_SET(3); SPIFOPT_BADOPTS_SET(0); SPIFOPT_HELPHANDLER_SET(help_stub);
    spifopt_settings.flags = 0;
    if (set & 2) SPIFOPT_FLAGS_SET(SPIFOPT_SETTING_REMOVE_ARGS);
    int passes = (set & 1) ? 2 : 1; unsigned bad_before = 0;
    for (int p = 0; p < passes; p++) {
        if (p == 0 && (set & 1)) SPIFOPT_FLAGS_SET(SPIFOPT_SETTING_PREPARSE);
        g_diag = 0;
        spifopt_parse(ac, argv);
        if (p == 0 && (set & 1) && ac > 1 && SPIFOPT_FLAGS_IS_SET(SPIFOPT_SETTING_PREPARSE)) { FAIL("spifopt_parse", "model:preparse-flag", shape, "the pre-parse setting is still set after the pre-parse pass (%u bad options, %d allowed)", (unsigned) SPIFOPT_BADOPTS_GET(), 3); SPIFOPT_FLAGS_CLEAR(SPIFOPT_SETTING_PREPARSE); }
        if (SPIFOPT_BADOPTS_GET() < bad_before) FAIL("spifopt_parse", "model:bad-count-decreased", shape, "bad option count went from %u to %u", bad_before, (unsigned) SPIFOPT_BADOPTS_GET());
        bad_before = SPIFOPT_BADOPTS_GET();
    }
    if ((T.flags & ~0x0fUL) != NOBODY) FAIL("spifopt_parse", "model:boolean-bits", shape, "bits outside every option mask changed: flags 0x%lx", T.flags);
    if (T.g0 != GUARD || T.g1 != GUARD || T.g2 != GUARD || T.g3 != GUARD || T.g4 != GUARD || T.g5 != GUARD || T.gi1 != 0x5a5a5a5a || T.gi2 != 0x5a5a5a5a) FAIL("spifopt_parse", "invariant:guard-word-overwritten", shape, "a guard word next to an option variable changed");
    /* argv: still NULL-terminated within its block and a sub-sequence of the original pointers */
    { int j = 1, i; for (i = 1; i <= ac && argv[i]; i++) { while (j < ac && orig[j] != argv[i]) j++; if (j >= ac) { FAIL("spifopt_parse", "model:argv-not-a-subsequence", shape, "argv[%d] is not one of the original arguments in order", i); break; } j++; }
      if (i > ac) FAIL("spifopt_parse", "model:argv-not-terminated", shape, "argv lost its NULL terminator");
      /* with argument removal the words are moved to the front: whatever still sits behind the terminator is a stale copy of a word in front of it */
      else if (set & 2) for (int t = i + 1; t < ac; t++) if (argv[t]) { int found = 0; for (int f = 1; f < i; f++) if (argv[f] == argv[t]) found = 1;
          if (!found) { FAIL("spifopt_parse", "model:argv-not-compacted", shape, "argv[%d] (\"%s\") sits behind the terminator at argv[%d] and was not moved in front of it", t, argv[t], i); break; } } }
    free_targets();
    for (int i = 0; i < ac; i++) free(orig[i]);
    free(argv);
    if (SPIFOPT_BADOPTS_GET()) mc_nontrivial();
    mc_outcome((uint64_t) T.flags * 131 + (uint64_t) bad_before);
}


/* ------------------------------------------------------------------ part C: bundles with an unknown letter (pinned convention:
 * the unknown letter is one bad option, the known letters around it still act) */
static const struct { const char *tok; unsigned long flags; const char *file; int num; } BUN[] = {
    { "-zab", 0x03, NULL, 0 }, { "-azb", 0x03, NULL, 0 }, { "-abz", 0x03, NULL, 0 }, { "-zfX", 0, "X", 0 }, { "-zn5", 0, NULL, 5 }, { "-za", 0x01, NULL, 0 }, { "-zbqa", 0x03, NULL, 0 }, { "-z", 0, NULL, 0 },
};
#define NBUN ((int) (sizeof BUN / sizeof BUN[0]))
static void c_desc(uint64_t idx, void *ctx, char *b, size_t n) { (void) ctx; snprintf(b, n, "prog [%s]%s  {pre-parse=%d remove-args=%d}: unknown letter z/q inside a bundle", BUN[idx / 8].tok, (idx / 4) % 2 ? " [word]" : "", (int) (idx & 1), (int) ((idx >> 1) & 1)); }
static void c_case(uint64_t idx, void *ctx)
{
    int bi = (int) (idx / 8), word = (int) ((idx / 4) % 2), set = (int) (idx & 3); (void) ctx;
    const char *shape = "bundle with an unknown letter";
    mc_set_shape(shape);
    g_exec_pp = 0; table(); reset_targets();
    char *orig[4]; int ac = 0; orig[ac++] = mc_heapstr("prog"); orig[ac++] = mc_heapstr(BUN[bi].tok); if (word) orig[ac++] = mc_heapstr("word");
    char **argv = malloc(sizeof(char *) * (size_t) (ac + 1)); memcpy(argv, orig, sizeof(char *) * (size_t) ac); argv[ac] = NULL;
    SPIFOPT_OPTLIST_SET(OPTS); SPIFOPT_NUMOPTS_SET(NOPT); SPIFOPT_ALLOWBAD_SET(9); SPIFOPT_BADOPTS_SET(0); SPIFOPT_HELPHANDLER_SET(help_stub);
    spifopt_settings.flags = 0;
    if (set & 2) SPIFOPT_FLAGS_SET(SPIFOPT_SETTING_REMOVE_ARGS);
    if (set & 1) { SPIFOPT_FLAGS_SET(SPIFOPT_SETTING_PREPARSE); spifopt_parse(ac, argv); }
    spifopt_parse(ac, argv);
    int unknown = 0; for (const char *c = BUN[bi].tok + 1; *c && *c != 'f' && *c != 'n'; c++) if (*c == 'z' || *c == 'q') unknown++;
    if (T.flags != (NOBODY | BUN[bi].flags)) FAIL("spifopt_parse", "model:boolean-bits", shape, "flags 0x%lx after [%s], expected 0x%lx: the known letters of the bundle must still act", T.flags, BUN[bi].tok, NOBODY | BUN[bi].flags);
    if (!streq(T.file, BUN[bi].file)) FAIL("spifopt_parse", "model:string", shape, "file is %s after [%s]", T.file ? T.file : "unset", BUN[bi].tok);
    if (T.num != BUN[bi].num) FAIL("spifopt_parse", "model:integer", shape, "num=%d after [%s]", T.num, BUN[bi].tok);
    if ((int) SPIFOPT_BADOPTS_GET() != unknown * ((set & 1) ? 2 : 1)) FAIL("spifopt_parse", "model:bad-count", shape, "%d bad options counted for [%s], expected %d per pass", (int) SPIFOPT_BADOPTS_GET(), BUN[bi].tok, unknown);
    free_targets();
    for (int i = 0; i < ac; i++) free(orig[i]);
    free(argv);
    mc_nontrivial();
}

/* ------------------------------------------------------------------ part D: the twenty table-entry constructors
 * {BOOL, INT, STR, ARGS, ABST} x {plain, _PP, _LONG, _LONG_PP}: each builds a one-entry table; the entry's fields are compared with what
 * the macro's name promises, and a pre-parse pass and a normal pass over "--opt=value" must assign in exactly the pass the entry belongs to */
static unsigned long d_flags; static int d_int; static const char *d_str; static char **d_args; static int d_calls;
static void d_handler(spif_charptr_t v) { (void) v; d_calls++; }
static const char *DM[20] = { "SPIFOPT_BOOL", "SPIFOPT_BOOL_PP", "SPIFOPT_BOOL_LONG", "SPIFOPT_BOOL_LONG_PP", "SPIFOPT_INT", "SPIFOPT_INT_PP", "SPIFOPT_INT_LONG", "SPIFOPT_INT_LONG_PP",
                              "SPIFOPT_STR", "SPIFOPT_STR_PP", "SPIFOPT_STR_LONG", "SPIFOPT_STR_LONG_PP", "SPIFOPT_ARGS", "SPIFOPT_ARGS_PP", "SPIFOPT_ARGS_LONG", "SPIFOPT_ARGS_LONG_PP",
                              "SPIFOPT_ABST", "SPIFOPT_ABST_PP", "SPIFOPT_ABST_LONG", "SPIFOPT_ABST_LONG_PP" };
static void d_entry(int i, spifopt_t *e)
{
    spifopt_t t[20] = {
        SPIFOPT_BOOL('o', "opt", "d", d_flags, 0x4), SPIFOPT_BOOL_PP('o', "opt", "d", d_flags, 0x4), SPIFOPT_BOOL_LONG("opt", "d", d_flags, 0x4), SPIFOPT_BOOL_LONG_PP("opt", "d", d_flags, 0x4),
        SPIFOPT_INT('o', "opt", "d", d_int), SPIFOPT_INT_PP('o', "opt", "d", d_int), SPIFOPT_INT_LONG("opt", "d", d_int), SPIFOPT_INT_LONG_PP("opt", "d", d_int),
        SPIFOPT_STR('o', "opt", "d", d_str), SPIFOPT_STR_PP('o', "opt", "d", d_str), SPIFOPT_STR_LONG("opt", "d", d_str), SPIFOPT_STR_LONG_PP("opt", "d", d_str),
        SPIFOPT_ARGS('o', "opt", "d", d_args), SPIFOPT_ARGS_PP('o', "opt", "d", d_args), SPIFOPT_ARGS_LONG("opt", "d", d_args), SPIFOPT_ARGS_LONG_PP("opt", "d", d_args),
        SPIFOPT_ABST('o', "opt", "d", d_handler), SPIFOPT_ABST_PP('o', "opt", "d", d_handler), SPIFOPT_ABST_LONG("opt", "d", d_handler), SPIFOPT_ABST_LONG_PP("opt", "d", d_handler),
    };
    *e = t[i];
}
static void d_desc(uint64_t idx, void *ctx, char *b, size_t n) { (void) ctx; if (idx >= 96) { snprintf(b, n, "tables A {BOOL a, INT q, BOOL b} and B {STR x \"first\", STR x \"second\", BOOL a} used in turn: B [-x one], A [-q 5], B [-x two], A [-b], B [-a]"); return; } if (idx >= 80) { if (idx >= 94) { snprintf(b, n, "table {STR('o', \"opt\")}: prog [%s] [first], then in the same process prog [%s] [second]; the first value is kept by the program", idx == 94 ? "-o" : "--opt", idx == 94 ? "-o" : "--opt"); return; } if (idx >= 86) { uint64_t k = idx - 86; snprintf(b, n, "table {SPIFOPT_OPTION('o', \"old\", %s | DEPRECATED%s)}: prog [-o] [7] [word] in a %s pass", k >> 2 ? "STRING" : "INTEGER", k & 1 ? " | PREPARSE" : "", (k >> 1) & 1 ? "pre-parse" : "normal"); return; } if (idx >= 84) { snprintf(b, n, "table {BOOL('\\xe9', mask 0x80000004) on an unsigned long whose upper half holds 0x5a5a5a5a}: prog [--eacute=%s]", idx == 84 ? "no" : "yes"); return; } snprintf(b, n, "table {BOOL('\\xe9'), INT('\\x80')}: prog [-%s]%s", (idx - 80) % 2 ? "\\x80] [7" : "\\xe9", (idx - 80) / 2 ? " with remove-args" : ""); return; } snprintf(b, n, "one-entry table built with %s: fields, then prog [%s] in a %s pass", DM[idx / 4], (idx / 2) % 2 ? "-o 1" : "--opt=1", idx % 2 ? "pre-parse" : "normal"); }
/* short letters above 0x7f (a table is free to use any byte as a letter) */
static void d_highbit(uint64_t k)
{
    static spifopt_t one[2]; static const unsigned char L[2] = { 0xE9, 0x80 };
    const char *shape = "short letter with the high bit set"; mc_set_shape(shape);
    spifopt_t t[2] = { SPIFOPT_BOOL((char) 0xE9, "eacute", "d", d_flags, 0x80000004UL), SPIFOPT_INT((char) 0x80, "euro", "d", d_int) };       /* the mask uses bit 31 of its 32-bit field */
    one[0] = t[0]; one[1] = t[1];
    const unsigned long HI = 0x5A5A5A5A00000000UL;       /* the upper half of the flag word belongs to nobody: the mask field is 32 bits wide */
    d_flags = HI | 0xf0 | (k == 4 ? 0x80000004UL : 0); d_int = 0;
    char sw[3] = { '-', (char) L[k % 2], 0 };
    char *orig[3]; int ac = 0; orig[ac++] = mc_heapstr("prog"); orig[ac++] = mc_heapstr(k == 4 ? "--eacute=no" : (k == 5 ? "--eacute=yes" : sw)); if (k < 4 && k % 2) orig[ac++] = mc_heapstr("7");
    char **argv = malloc(sizeof(char *) * (size_t) (ac + 1)); memcpy(argv, orig, sizeof(char *) * (size_t) ac); argv[ac] = NULL;
    SPIFOPT_OPTLIST_SET(one); SPIFOPT_NUMOPTS_SET(2); SPIFOPT_ALLOWBAD_SET(9); SPIFOPT_BADOPTS_SET(0); SPIFOPT_HELPHANDLER_SET(help_stub);
    spifopt_settings.flags = (k / 2) ? SPIFOPT_SETTING_REMOVE_ARGS : 0;
    spifopt_parse(ac, argv);
    if (k >= 4) {
        unsigned long want = HI | 0xf0 | (k == 5 ? 0x80000004UL : 0);
        if (d_flags != want) FAIL("spifopt_parse", "model:boolean-bits", shape, "--eacute=%s with mask 0x80000004: flags 0x%lx, expected 0x%lx (booleans touch only their own mask bits)", k == 4 ? "no" : "yes", d_flags, want);
    } else
    if (k % 2 ? d_int != 7 : d_flags != (HI | 0x800000f4UL)) FAIL("spifopt_parse", "model:high-bit-letter", shape, "-\\x%02x %s: flags=0x%lx int=%d, %u bad options", L[k % 2], k % 2 ? "7" : "", d_flags, d_int, (unsigned) SPIFOPT_BADOPTS_GET());
    if (SPIFOPT_BADOPTS_GET()) FAIL("spifopt_parse", "model:bad-option-on-wellformed-line", shape, "%u bad options for a letter that is in the table", (unsigned) SPIFOPT_BADOPTS_GET());
    if ((k / 2) && argv[1] != NULL) FAIL("spifopt_parse", "model:argv-after-removal", shape, "the option was not removed from argv");
    for (int i = 0; i < ac; i++) free(orig[i]);
    free(argv);
    mc_nontrivial();
}
/* entries written with SPIFOPT_OPTION(): the deprecated attribute adds a warning and nothing else - the option is assigned in its pass, left alone in the other */
static void d_deprecated(uint64_t k)
{
    static spifopt_t one[1]; int is_pp = (int) (k & 1), pp_pass = (int) ((k >> 1) & 1), kind = (int) (k >> 2);        /* kind 0 integer, 1 string */
    const char *shape = "deprecated option"; mc_set_shape(shape);
    spifopt_t t[1] = { SPIFOPT_OPTION('o', "old", "d", (kind ? SPIFOPT_FLAG_STRING : SPIFOPT_FLAG_INTEGER) | SPIFOPT_FLAG_DEPRECATED | (is_pp ? SPIFOPT_FLAG_PREPARSE : 0), (kind ? (void *) &d_str : (void *) &d_int), 0) };
    one[0] = t[0];
    d_flags = 0xf0; d_int = 0; d_str = NULL;
    char *orig[4]; int ac = 0; orig[ac++] = mc_heapstr("prog"); orig[ac++] = mc_heapstr("-o"); orig[ac++] = mc_heapstr("7"); orig[ac++] = mc_heapstr("word");
    char **argv = malloc(sizeof(char *) * (size_t) (ac + 1)); memcpy(argv, orig, sizeof(char *) * (size_t) ac); argv[ac] = NULL;
    SPIFOPT_OPTLIST_SET(one); SPIFOPT_NUMOPTS_SET(1); SPIFOPT_ALLOWBAD_SET(9); SPIFOPT_BADOPTS_SET(0); SPIFOPT_HELPHANDLER_SET(help_stub);
    spifopt_settings.flags = 0;
    if (pp_pass) SPIFOPT_FLAGS_SET(SPIFOPT_SETTING_PREPARSE);
    spifopt_parse(ac, argv);
    int assigned = kind ? (d_str && !strcmp(d_str, "7")) : d_int == 7, untouched = kind ? d_str == NULL : d_int == 0;
    if (pp_pass == is_pp ? !assigned : !untouched) FAIL("spifopt_parse", pp_pass == is_pp ? "model:not-assigned-in-its-pass" : "model:assigned-in-the-other-pass", shape, "a deprecated %s %s option in a %s pass: int=%d str=%s",
                                                        is_pp ? "pre-parse" : "normal", kind ? "string" : "integer", pp_pass ? "pre-parse" : "normal", d_int, d_str ? d_str : "unset");
    if (SPIFOPT_BADOPTS_GET()) FAIL("spifopt_parse", "model:bad-option-on-wellformed-line", shape, "%u bad options for [-o 7 word]", (unsigned) SPIFOPT_BADOPTS_GET());
    if (d_str) { FREE(d_str); d_str = NULL; }
    for (int i = 0; i < ac; i++) free(orig[i]);
    free(argv);
    mc_nontrivial();
}
/* a second parse in the same process: what the first one handed over (a string the program keeps) is the program's, the parser allocates afresh */
static void d_second_parse(uint64_t k)
{
    static spifopt_t one[2]; const char *shape = "second parse in one process"; mc_set_shape(shape);
    spifopt_t t[2] = { SPIFOPT_STR('o', "opt", "d", d_str), SPIFOPT_INT('n', "num", "d", d_int) };
    one[0] = t[0]; one[1] = t[1];
    d_str = NULL; d_int = 0;
    char *kept = NULL;
    for (int round = 0; round < 2; round++) {
        char *orig[4]; int ac = 0; orig[ac++] = mc_heapstr("prog"); orig[ac++] = mc_heapstr(k ? "--opt" : "-o"); orig[ac++] = mc_heapstr(round ? "second" : "first");
        char **argv = malloc(sizeof(char *) * (size_t) (ac + 1)); memcpy(argv, orig, sizeof(char *) * (size_t) ac); argv[ac] = NULL;
        SPIFOPT_OPTLIST_SET(one); SPIFOPT_NUMOPTS_SET(2); SPIFOPT_ALLOWBAD_SET(9); SPIFOPT_BADOPTS_SET(0); SPIFOPT_HELPHANDLER_SET(help_stub);
        spifopt_settings.flags = 0;
        spifopt_parse(ac, argv);
        if (!d_str || strcmp(d_str, round ? "second" : "first")) FAIL("spifopt_parse", "model:string", shape, "after parse %d the string option holds %s", round + 1, d_str ? d_str : "NULL");
        if (!round) kept = (char *) d_str;            /* the program keeps the first value (and does not reset its variable) */
        for (int i = 0; i < ac; i++) free(orig[i]);
        free(argv);
    }
    if (kept) { if (strcmp(kept, "first")) FAIL("spifopt_parse", "model:earlier-value-changed", shape, "the string handed over by the first parse reads \"%.20s\" after the second", kept); if (kept != (char *) d_str) FREE(kept); }
    if (d_str) { FREE(d_str); d_str = NULL; }
    mc_nontrivial();
}
/* two tables used in turn by one process; the second declares a letter twice (the first entry with a letter owns it, whatever was looked up before and in which table) */
static void d_two_tables(void)
{
    static spifopt_t A[3], B[3]; static const char *va, *vb; static int qa; const char *shape = "two option tables used in turn"; mc_set_shape(shape);
    spifopt_t ta[3] = { SPIFOPT_BOOL('a', "alpha", "d", d_flags, 0x01), SPIFOPT_INT('q', "quantity", "d", qa), SPIFOPT_BOOL('b', "beta", "d", d_flags, 0x02) };
    spifopt_t tb[3] = { SPIFOPT_STR('x', "first", "d", va), SPIFOPT_STR('x', "second", "d", vb), SPIFOPT_BOOL('a', "again", "d", d_flags, 0x08) };
    memcpy(A, ta, sizeof A); memcpy(B, tb, sizeof B); va = vb = NULL; qa = 0; d_flags = 0xf0;
    static const char *LINES[5][3] = { { "-x", "one", "B" }, { "-q", "5", "A" }, { "-x", "two", "B" }, { "-b", NULL, "A" }, { "-a", NULL, "B" } };
    for (int r = 0; r < 5; r++) {
        char *orig[3]; int ac = 0; orig[ac++] = mc_heapstr("prog"); orig[ac++] = mc_heapstr(LINES[r][0]); if (LINES[r][1]) orig[ac++] = mc_heapstr(LINES[r][1]);
        char *argv[4] = { orig[0], orig[1], ac > 2 ? orig[2] : NULL, NULL };
        if (LINES[r][2][0] == 'A') { SPIFOPT_OPTLIST_SET(A); } else { SPIFOPT_OPTLIST_SET(B); }
        SPIFOPT_NUMOPTS_SET(3); SPIFOPT_ALLOWBAD_SET(9); SPIFOPT_BADOPTS_SET(0); SPIFOPT_HELPHANDLER_SET(help_stub); spifopt_settings.flags = 0; g_diag = 0;
        spifopt_parse(ac, argv);
        const char *wa = r >= 2 ? "two" : "one"; unsigned long wf = 0xf0 | (r >= 3 ? 0x02 : 0) | (r >= 4 ? 0x08 : 0);
        if (!va || strcmp(va, wa) || vb) FAIL("spifopt_parse", "model:first-entry-owns-the-letter", shape, "after line %d (table %s: %s %s) the first 'x' entry holds %s and the second %s; expected \"%s\" and nothing", r + 1, LINES[r][2], LINES[r][0], LINES[r][1] ? LINES[r][1] : "", va ? va : "nothing", vb ? vb : "nothing", wa);
        if (r >= 1 && qa != 5) FAIL("spifopt_parse", "model:integer", shape, "-q 5 in table A left %d", qa);
        if (d_flags != wf) FAIL("spifopt_parse", "model:boolean-bits", shape, "after line %d flags are 0x%lx, expected 0x%lx", r + 1, d_flags, wf);
        if (SPIFOPT_BADOPTS_GET()) FAIL("spifopt_parse", "model:bad-option-on-wellformed-line", shape, "%u bad options on line %d", (unsigned) SPIFOPT_BADOPTS_GET(), r + 1);
        for (int i = 0; i < ac; i++) free(orig[i]);
    }
    if (va) FREE(va); if (vb) FREE(vb);
    SPIFOPT_OPTLIST_SET(OPTS); SPIFOPT_NUMOPTS_SET(NOPT);
    mc_nontrivial();
}
static void d_case(uint64_t idx, void *ctx)
{
    if (idx >= 96) { (void) ctx; d_two_tables(); return; }
    if (idx >= 94) { (void) ctx; d_second_parse(idx - 94); return; }
    if (idx >= 86) { (void) ctx; d_deprecated(idx - 86); return; }
    if (idx >= 80) { (void) ctx; d_highbit(idx - 80); return; }
    int mi = (int) (idx / 4), shortform = (int) ((idx / 2) % 2), pp_pass = (int) (idx % 2), kind = mi / 4, variant = mi % 4; (void) ctx;
    int is_pp = variant & 1, is_long = variant >= 2;
    const char *shape = DM[mi]; mc_set_shape(shape);
    static spifopt_t one[1]; d_entry(mi, &one[0]);
    static const unsigned long TYPE[5] = { SPIFOPT_FLAG_BOOLEAN, SPIFOPT_FLAG_INTEGER, SPIFOPT_FLAG_STRING, SPIFOPT_FLAG_ARGLIST, SPIFOPT_FLAG_ABSTRACT };
    unsigned long want = TYPE[kind] | (is_pp ? SPIFOPT_FLAG_PREPARSE : 0);
    void *wantp = kind == 0 ? (void *) &d_flags : (kind == 1 ? (void *) &d_int : (kind == 2 ? (void *) &d_str : (kind == 3 ? (void *) &d_args : (void *) d_handler)));
    if (one[0].flags != want) FAIL(shape, "model:entry-flags", shape, "the entry has flags 0x%lx, the name of the macro promises 0x%lx", (unsigned long) one[0].flags, want);
    if (one[0].short_opt != (is_long ? 0 : 'o') || !one[0].long_opt || strcmp((char *) one[0].long_opt, "opt")) FAIL(shape, "model:entry-names", shape, "short form %d, long form %s", (int) one[0].short_opt, one[0].long_opt ? (char *) one[0].long_opt : "NULL");
    if ((void *) one[0].value != wantp || one[0].mask != (kind == 0 ? 0x4UL : 0UL)) FAIL(shape, "model:entry-target", shape, "value pointer or mask differ from the macro's arguments");
    if (shortform && is_long) { mc_nontrivial(); return; }
    d_flags = 0xf0; d_int = 0; d_str = NULL; d_args = NULL; d_calls = 0;
    char *orig[3]; int ac = 0; orig[ac++] = mc_heapstr("prog"); if (shortform) { orig[ac++] = mc_heapstr("-o"); orig[ac++] = mc_heapstr("1"); } else orig[ac++] = mc_heapstr("--opt=1");
    char **argv = malloc(sizeof(char *) * (size_t) (ac + 1)); memcpy(argv, orig, sizeof(char *) * (size_t) ac); argv[ac] = NULL;
    SPIFOPT_OPTLIST_SET(one); SPIFOPT_NUMOPTS_SET(1); SPIFOPT_ALLOWBAD_SET(9); SPIFOPT_BADOPTS_SET(0); SPIFOPT_HELPHANDLER_SET(help_stub);
    spifopt_settings.flags = 0;
    if (pp_pass) SPIFOPT_FLAGS_SET(SPIFOPT_SETTING_PREPARSE);
    spifopt_parse(ac, argv);
    int assigned = kind == 0 ? (d_flags == 0xf4) : (kind == 1 ? d_int == 1 : (kind == 2 ? (d_str && !strcmp(d_str, "1")) : (kind == 3 ? (d_args && d_args[0] && !strcmp(d_args[0], "1")) : d_calls == 1)));
    int untouched = d_flags == 0xf0 && d_int == 0 && d_str == NULL && d_args == NULL && d_calls == 0;
    if (pp_pass == is_pp ? !assigned : !untouched) FAIL("spifopt_parse", pp_pass == is_pp ? "model:not-assigned-in-its-pass" : "model:assigned-in-the-other-pass", shape, "%s option in a %s pass: flags=0x%lx int=%d str=%s list=%s handler calls=%d",
                                                        is_pp ? "a pre-parse" : "a normal", pp_pass ? "pre-parse" : "normal", d_flags, d_int, d_str ? d_str : "unset", d_args ? "set" : "unset", d_calls);
    if (d_str) FREE(d_str); if (d_args) { for (int i = 0; d_args[i]; i++) FREE(d_args[i]); FREE(d_args); }
    for (int i = 0; i < ac; i++) free(orig[i]);
    free(argv);
    mc_nontrivial();
    mc_outcome(idx * 3 + (uint64_t) assigned);
}

/* ---- argument lists of very many words (counts around 255/256 and 65535/65536): the list is the rest of the line, every word of it */
static const long LONGL[] = { 255, 256, 257, 65535, 65536, 65537, 70000 };
#define NLONGL ((int) (sizeof LONGL / sizeof LONGL[0]))
static void e_desc(uint64_t idx, void *ctx, char *b, size_t n) { (void) ctx; snprintf(b, n, "prog [-a] [-e] followed by %ld words%s", LONGL[idx / 3], idx % 3 == 1 ? ", with remove-args" : (idx % 3 == 2 ? ", with remove-args, the list option belonging to the pre-parse pass" : "")); }
static void e_case(uint64_t idx, void *ctx)
{
    long n = LONGL[idx / 3]; int rm = (int) (idx % 3) >= 1, other = (int) (idx % 3) == 2; (void) ctx;
    const char *shape = n < 65536 ? "list of fewer than 65536 words" : "list of 65536 or more words"; mc_set_shape(shape);
    g_rot = 0; g_exec_pp = other; table();
    T.g0 = T.g1 = T.g2 = T.g3 = T.g4 = T.g5 = GUARD; T.gi1 = T.gi2 = 0x5a5a5a5a; T.flags = NOBODY; T.num = 0; T.count = 0; T.file = NULL; T.display = NULL; T.exec = NULL;
    int ac = (int) n + 3; char **argv = malloc(sizeof(char *) * (size_t) (ac + 1)); char *w = mc_heapstr("w"), *last = mc_heapstr("last");
    argv[0] = "prog"; argv[1] = "-a"; argv[2] = "-e"; for (long i = 0; i < n; i++) argv[3 + i] = i == n - 1 ? last : w; argv[ac] = NULL;
    SPIFOPT_OPTLIST_SET(OPTS); SPIFOPT_NUMOPTS_SET(NOPT); SPIFOPT_ALLOWBAD_SET(9); SPIFOPT_BADOPTS_SET(0); SPIFOPT_HELPHANDLER_SET(help_stub);
    spifopt_settings.flags = rm ? SPIFOPT_SETTING_REMOVE_ARGS : 0;
    g_diag = 0;
    spifopt_parse(ac, argv);
    long got = 0; if (T.exec) while (T.exec[got] && got <= n + 2) got++;
    if (other) { if (T.exec) FAIL("spifopt_parse", "model:assigned-in-the-other-pass", shape, "a pre-parse list option was assigned in the normal pass"); }
    else if (got != n) FAIL("spifopt_parse", "model:arglist", shape, "-e followed by %ld words: the list holds %ld", n, got);
    else if (strcmp(T.exec[0], "w") || strcmp(T.exec[n - 1], "last")) FAIL("spifopt_parse", "model:arglist", shape, "first or last word of the list is wrong");
    if (T.flags != (NOBODY | 0x01)) FAIL("spifopt_parse", "model:boolean-bits", shape, "flags 0x%lx after [-a]", T.flags);
    if (rm && (argv[1] != NULL)) FAIL("spifopt_parse", "model:argv-after-removal", shape, "argv[1] is \"%s\" after a line that consists of options only", argv[1]);
    if (SPIFOPT_BADOPTS_GET()) FAIL("spifopt_parse", "model:bad-option-on-wellformed-line", shape, "%u bad options", (unsigned) SPIFOPT_BADOPTS_GET());
    if (T.g0 != GUARD || T.g1 != GUARD || T.g2 != GUARD || T.g3 != GUARD || T.g4 != GUARD || T.g5 != GUARD) FAIL("spifopt_parse", "invariant:guard-word-overwritten", shape, "a guard word next to an option variable changed");
    if (T.exec) { for (long i = 0; i < got; i++) FREE(T.exec[i]); FREE(T.exec); T.exec = NULL; }
    free(argv); free(w); free(last);
    mc_nontrivial();
    mc_outcome((uint64_t) got);
}
/* ---- tables of very many entries (around 255/256): an option far down the table is found by its letter and by its name; an unknown letter is one bad option */
static const int BIGT[] = { 255, 256, 257, 300, 1000 };
#define NBIGT ((int) (sizeof BIGT / sizeof BIGT[0]))
static void g_desc(uint64_t idx, void *ctx, char *b, size_t n) { static const char *w[4] = { "[-q]", "[--last]", "[-Z] (no such letter)", "[--nosuch]" }; (void) ctx; snprintf(b, n, "table of %d entries (long-only booleans --o0000.., the last entry BOOL('q', \"last\", mask 0x04)): prog %s", BIGT[idx / 4], w[idx % 4]); }
static void g_case(uint64_t idx, void *ctx)
{
    int n = BIGT[idx / 4], k = (int) (idx % 4); (void) ctx;
    const char *shape = n < 256 ? "table of fewer than 256 entries" : "table of 256 or more entries"; mc_set_shape(shape);
    spifopt_t *t = calloc((size_t) n, sizeof *t); char (*names)[8] = calloc((size_t) n, 8); static unsigned long other;
    for (int i = 0; i < n - 1; i++) { snprintf(names[i], 8, "o%04d", i); spifopt_t e = SPIFOPT_BOOL_LONG(names[i], "d", other, 0x01); e.long_opt = (spif_charptr_t) names[i]; t[i] = e; }
    { spifopt_t e = SPIFOPT_BOOL('q', "last", "d", d_flags, 0x04); t[n - 1] = e; }
    d_flags = 0xf0; other = 0;
    char *orig[2]; orig[0] = mc_heapstr("prog"); orig[1] = mc_heapstr(k == 0 ? "-q" : (k == 1 ? "--last" : (k == 2 ? "-Z" : "--nosuch")));
    char *argv[3] = { orig[0], orig[1], NULL };
    SPIFOPT_OPTLIST_SET(t); SPIFOPT_NUMOPTS_SET(n); SPIFOPT_ALLOWBAD_SET(9); SPIFOPT_BADOPTS_SET(0); SPIFOPT_HELPHANDLER_SET(help_stub);
    spifopt_settings.flags = 0; g_diag = 0;
    spifopt_parse(2, argv);
    unsigned bad = (unsigned) SPIFOPT_BADOPTS_GET();
    if (k < 2) { if (d_flags != 0xf4 || bad) FAIL("spifopt_parse", "model:option-far-down-the-table", shape, "entry %d of %d given as %s: flags 0x%lx (expected 0xf4), %u bad options", n, n, orig[1], d_flags, bad); }
    else if (d_flags != 0xf0 || bad != 1 || other) FAIL("spifopt_parse", "model:bad-option-count", shape, "%s with a table of %d entries: flags 0x%lx, %u bad options (expected 1)", orig[1], n, d_flags, bad);
    SPIFOPT_OPTLIST_SET(OPTS); SPIFOPT_NUMOPTS_SET(NOPT);
    free(orig[0]); free(orig[1]); free(t); free(names);
    mc_nontrivial();
    mc_outcome(idx * 3 + bad);
}
int main(int argc, char **argv)
{
    mc_init("C08", argc, argv);
    libast_debug_level = (unsigned) mc_dlevel();        /* --dlevel=N: the whole run at runtime debug level N (default 0) */
    K = (int) mc_arg_int("K", mc_thorough() ? 3 : 2);
    int N = (int) mc_arg_int("N", mc_thorough() ? 4 : 3);
    mc_info("alphabet", "part A: %d item spellings (booleans -x/--long/--long=WORD/--long WORD, bundles -ab/-abf X/-afX, integers, strings incl. empty and spaced values, abstract with/without value, "
            "arglists swallowing the rest or split at '='), sequences of <= %d items x {pre-parse} x {remove-args} x {exec/theme normal or pre-parse}; part B: %d hostile tokens, vectors of <= %d x 4 settings",
            NITEMS, K, NTOK, N);
    for (g_k = 0; g_k <= K; g_k++) if (!mc_e2_level("wellformed", g_k, lines_of(g_k), a_case, a_desc, NULL)) break;
    for (g_k = 0; g_k <= N; g_k++) if (!mc_e2_level("hostile", g_k, mc_words_of_len(NTOK, g_k) * 4, b_case, b_desc, NULL)) break;
    mc_e2_level("bundles", 1, (uint64_t) NBUN * 8, c_case, c_desc, NULL);
    mc_e2_level("constructors", 1, 20 * 4 + 6 + 8 + 2 + 1, d_case, d_desc, NULL);
    mc_e2_level("large_option_table", 1000, (uint64_t) NBIGT * 4, g_case, g_desc, NULL);
    mc_e2_level("long_argument_lists", 70000, (uint64_t) NLONGL * 3, e_case, e_desc, NULL);
    return mc_finish();
}
