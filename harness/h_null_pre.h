/* h_null_pre.h — prelude of the generated C16 NULL-argument matrix.  The three container
 * sources are compiled into this translation unit so that their static class-table methods
 * can be called by name. */
#ifndef VERIF_H_NULL_PRE_H
#define VERIF_H_NULL_PRE_H
#include <config.h>
#include "array.c"
#include "linked_list.c"
#include "dlinked_list.c"
#include "mc.h"
#include <math.h>
#include <regex.h>
#define FAIL(site, kind, shape, ...) mc_fail(site, kind, shape, __VA_ARGS__)

typedef struct { int returned, ret_ok, arg_changed; long alloc_delta; int aftermath; } res_t;
typedef struct { void (*fn)(res_t *); const char *func; int pos; const char *param; const char *kind; const char *val; int pinned; } null_case_t;
extern const null_case_t NULL_CASES[]; extern const int N_NULL_CASES; extern const char *NULL_UNSUPPORTED;

enum { SNAP_STR, SNAP_MBUFF, SNAP_CSTR, SNAP_LIST };
typedef struct { int kind; long len, size; unsigned char bytes[64]; void *buf; } snap_t;
static void snap_take(snap_t *s, void *o, int kind)
{
    memset(s, 0, sizeof *s); s->kind = kind;
    switch (kind) {
    case SNAP_STR: { spif_str_t x = (spif_str_t) o; s->len = x->len; s->size = x->size; s->buf = x->s; if (x->s) memcpy(s->bytes, x->s, (size_t) (x->len < 63 ? x->len : 63)); break; }
    case SNAP_MBUFF: { spif_mbuff_t x = (spif_mbuff_t) o; s->len = x->len; s->size = x->size; s->buf = x->buff; if (x->buff) memcpy(s->bytes, x->buff, (size_t) (x->len < 63 ? x->len : 63)); break; }
    case SNAP_CSTR: s->len = (long) strlen((char *) o); memcpy(s->bytes, o, (size_t) (s->len < 63 ? s->len : 63)); break;
    case SNAP_LIST: s->len = (long) SPIF_LIST_COUNT((spif_list_t) o); break;
    }
}
static int snap_same(snap_t *s, void *o) { snap_t n; snap_take(&n, o, s->kind); return n.len == s->len && n.size == s->size && n.buf == s->buf && !memcmp(n.bytes, s->bytes, sizeof n.bytes); }

static spif_list_t g_lists[3];
static regex_t *g_rexp;
static spif_objpair_t mk_pair(void) { spif_obj_t k = SPIF_OBJ(spif_str_new_from_ptr((spif_charptr_t) "k")), v = SPIF_OBJ(spif_str_new_from_ptr((spif_charptr_t) "v")); spif_objpair_t p = spif_objpair_new_from_both(k, v); SPIF_OBJ_DEL(k); SPIF_OBJ_DEL(v); return p; }
static spif_list_t mk_list(int fam)
{
    spif_list_t l = fam == 0 ? SPIF_LIST_NEW(array) : (fam == 1 ? SPIF_LIST_NEW(linked_list) : SPIF_LIST_NEW(dlinked_list));
    SPIF_LIST_APPEND(l, SPIF_OBJ(spif_str_new_from_ptr((spif_charptr_t) "a"))); SPIF_LIST_APPEND(l, SPIF_OBJ(spif_str_new_from_ptr((spif_charptr_t) "b")));
    return l;
}
static spif_list_t mk_elist(int fam) { return fam == 0 ? SPIF_LIST_NEW(array) : (fam == 1 ? SPIF_LIST_NEW(linked_list) : SPIF_LIST_NEW(dlinked_list)); }
static spif_linked_list_item_t mk_ll_item(void) { spif_linked_list_item_t i = calloc(1, sizeof(*i)); return i; }
static spif_dlinked_list_item_t mk_dl_item(void) { spif_dlinked_list_item_t i = calloc(1, sizeof(*i)); return i; }
static spif_charptr_t *mk_strarray(void) { spif_charptr_t *a = calloc(3, sizeof *a); a[0] = (spif_charptr_t) mc_heapstr("x"); a[1] = (spif_charptr_t) mc_heapstr("y"); return a; }
static void free_strarray(spif_charptr_t *a) { free(a[0]); free(a[1]); free(a); }
static void *stub_ctx(spif_charptr_t b, void *s) { (void) b; return s; }
static spif_charptr_t stub_builtin(spif_charptr_t p) { (void) p; return NULL; }
#endif
