/* h_sock.c — C19: local sockets carry bytes intact under short I/O and never leak descriptors.
 * (1) transfer: E2 over payload lengths x E3 fault schedules over the first k read()/write() calls
 *     ({complete, 1 byte, half, EINTR} / {complete, 1 byte, half, EINTR, EAGAIN}), deviation-bounded;
 * (2) lifecycle: E1 over {new, open (with injected socket/bind/listen/connect failures), accept
 *     (with injected failure), set_nbio, send, recv, close, dup, del} on listener, client, accepted
 *     and duplicate objects with a descriptor-ownership model and a descriptor census.
 * One thread drives both ends: a UNIX-domain connect completes against the listen backlog. */
#include "hcommon.h"
#include <unistd.h>
#include <fcntl.h>
#include <errno.h>
#include <sys/socket.h>
#include <sys/select.h>
#include <sys/un.h>

static char g_path[200], g_urltext[220];
static int g_rd_fd = -1, g_wr_fd = -1;
static int g_fail_socket, g_fail_bind, g_fail_listen, g_fail_connect, g_fail_accept;

ssize_t __real_read(int, void *, size_t); ssize_t __real_write(int, const void *, size_t);
int __real_select(int, fd_set *, fd_set *, fd_set *, struct timeval *);
int __real_socket(int, int, int); int __real_bind(int, const struct sockaddr *, socklen_t); int __real_listen(int, int);
int __real_connect(int, const struct sockaddr *, socklen_t); int __real_accept(int, struct sockaddr *, socklen_t *);

/* storms: every real call on the descriptor under test is preceded by g_storm transient failures and moves at most 1500 bytes */
static int g_storm_r, g_storm_w, g_storm_cr, g_storm_cw;
ssize_t __wrap_read(int fd, void *buf, size_t n)
{
    if (fd == g_rd_fd && g_storm_r && n > 0) { if (g_storm_cr < g_storm_r) { g_storm_cr++; errno = EINTR; return -1; } g_storm_cr = 0; if (n > 1500) n = 1500; }
    if (fd == g_rd_fd && mc_e3_active() && n > 0) {
        int c = mc_choose(4);
        if (c == 1) n = 1; else if (c == 2) n = n > 1 ? n / 2 : 1; else if (c == 3) { errno = EINTR; return -1; }
    }
    return __real_read(fd, buf, n);
}
ssize_t __wrap_write(int fd, const void *buf, size_t n)
{
    if (fd == g_wr_fd && g_storm_w && n > 0) { if (g_storm_cw < 2 * g_storm_w) { errno = g_storm_cw < g_storm_w ? EINTR : EAGAIN; g_storm_cw++; return -1; } g_storm_cw = 0; if (n > 1500) n = 1500; }
    if (fd == g_wr_fd && mc_e3_active() && n > 0) {
        int c = mc_choose(5);
        if (c == 1) n = 1; else if (c == 2) n = n > 1 ? n / 2 : 1; else if (c == 3) { errno = EINTR; return -1; } else if (c == 4) { errno = EAGAIN; return -1; }
    }
    return __real_write(fd, buf, n);
}
int __wrap_select(int nfds, fd_set *r, fd_set *w, fd_set *e, struct timeval *tv)
{
    if (nfds == 0) return 0;                     /* the back-off sleep: the harness owns time */
    return __real_select(nfds, r, w, e, tv);
}
int __wrap_socket(int d, int t, int p) { if (g_fail_socket) { g_fail_socket = 0; errno = EMFILE; return -1; } return __real_socket(d, t, p); }
int __wrap_bind(int fd, const struct sockaddr *a, socklen_t l) { if (g_fail_bind) { g_fail_bind = 0; errno = EADDRINUSE; return -1; } return __real_bind(fd, a, l); }
int __wrap_listen(int fd, int n) { if (g_fail_listen) { g_fail_listen = 0; errno = EOPNOTSUPP; return -1; } return __real_listen(fd, n); }
int __wrap_connect(int fd, const struct sockaddr *a, socklen_t l) { if (g_fail_connect) { g_fail_connect = 0; errno = ECONNREFUSED; return -1; } return __real_connect(fd, a, l); }
int __real_dup(int); static int g_fail_dup;
int __wrap_dup(int fd) { if (g_fail_dup) { g_fail_dup = 0; errno = EMFILE; return -1; } return __real_dup(fd); }
int __wrap_accept(int fd, struct sockaddr *a, socklen_t *l) { if (g_fail_accept) { g_fail_accept = 0; errno = ECONNABORTED; return -1; } return __real_accept(fd, a, l); }

static void setpath(void)
{
    const char *td = getenv("VERIF_SCRATCH");
    snprintf(g_path, sizeof g_path, "%s/sk%d", td ? td : "/tmp", (int) getpid());      /* one socket path per worker process */
    snprintf(g_urltext, sizeof g_urltext, "unix:%s", g_path);
}
static int lowest_free_fd(void) { int d = open("/dev/null", O_RDONLY); if (d >= 0) close(d); return d; }
static int fd_open(int fd) { return fd >= 0 && fcntl(fd, F_GETFD) != -1; }
static spif_socket_t mk_listener(void) { spif_url_t u = spif_url_new_from_ptr((spif_charptr_t) g_urltext); spif_socket_t s = spif_socket_new_from_urls(u, (spif_url_t) NULL); spif_url_del(u); return s; }
static spif_socket_t mk_client(void) { spif_url_t u = spif_url_new_from_ptr((spif_charptr_t) g_urltext); spif_socket_t s = spif_socket_new_from_urls((spif_url_t) NULL, u); spif_url_del(u); return s; }

/* ------------------------------------------------------------------ (1) transfer under fault schedules */
static const int LENS[] = { 1, 2, 4095, 4096, 4097, 8192, 16385, 20000 };
#define NLENS ((int) (sizeof LENS / sizeof *LENS))
static int g_len, g_close_first, g_k, g_dev, g_free0;
static void tr_decode(uint64_t i) { g_len = LENS[i % NLENS]; g_close_first = (int) ((i / NLENS) % 2); }
static void tr_desc(uint64_t i, void *ctx, char *b, size_t n)
{
    (void) ctx; tr_decode(i);
    snprintf(b, n, "listener(nbio) / client open / accept / send %d bytes (values 1..255) / %s / recv; first %d read+write calls answer from {complete, 1 byte, half, EINTR[, EAGAIN on write]}, <= %d deviations",
             g_len, g_close_first ? "client closes" : "client stays open", g_k, g_dev);
}
static void tr_run(void *ctx)
{
    (void) ctx;
    char shape[64]; snprintf(shape, sizeof shape, "%s", g_len <= 4096 ? "payload within one read chunk" : "payload beyond one read chunk");
    mc_set_shape(shape);
    setpath();
    int fd0 = lowest_free_fd(), saved0 = -1;
    unlink(g_path);
    spif_socket_t L = mk_listener(), C = mk_client(), A = NULL;
    char *payload = malloc((size_t) g_len + 1);
    for (int i = 0; i < g_len; i++) payload[i] = (char) (1 + (i * 7 + i / 251) % 255);
    payload[g_len] = 0;
    spif_str_t data = spif_str_new_from_ptr((spif_charptr_t) payload), got = NULL;
    if (!L || !C || !spif_socket_open(L)) { FAIL("spif_socket_open", "model:return", shape, "listener could not be opened on %s", g_path); goto out; }
    spif_socket_set_nbio(L);
    if (!spif_socket_open(C)) { FAIL("spif_socket_open", "model:return", shape, "client could not connect to %s", g_path); goto out; }
    if (g_free0) { saved0 = dup(0); close(0); }             /* a daemon that closed its standard descriptors after binding: accept() returns 0 */
    A = spif_socket_accept(L);
    if (!A) { FAIL("spif_socket_accept", "model:return", shape, "accept returned NULL with a connection pending%s", g_free0 ? " (descriptor 0 was free)" : ""); goto out; }
    g_wr_fd = C->fd; g_rd_fd = A->fd;
    spif_bool_t sent = spif_socket_send(C, data);
    g_wr_fd = -1;
    if (g_close_first) spif_socket_close(C);
    got = spif_socket_recv(A);
    g_rd_fd = -1;
    char ch[80]; mc_e3_choices(ch, sizeof ch);
    if (!sent) FAIL("spif_socket_send", "model:return", shape, "send of %d bytes reported failure although every fault was transient (answers %s)", g_len, ch);
    else if (!got) FAIL("spif_socket_recv", "model:return", shape, "recv returned NULL (answers %s)", ch);
    else {
        const char *gs = got->s ? (char *) got->s : "";
        if (got->len != (spif_stridx_t) strlen(gs)) FAIL("spif_socket_recv", "invariant:len-differs-from-strlen", shape, "len=%ld strlen=%zu", (long) got->len, strlen(gs));
        else if (got->len != g_len) FAIL(got->len < g_len ? "spif_socket_send" : "spif_socket_recv", "model:bytes-lost-or-added", shape, "sent %d bytes (send reported success), received %ld (answers %s)", g_len, (long) got->len, ch);
        else if (memcmp(gs, payload, (size_t) g_len)) { int d = 0; while (d < g_len && gs[d] == payload[d]) d++; FAIL("spif_socket_recv", "model:bytes-differ", shape, "received bytes differ from the payload at offset %d of %d (answers %s)", d, g_len, ch); }
    }
out:
    if (got) spif_str_del(got);
    if (A) spif_socket_del(A);
    if (C) spif_socket_del(C);
    if (L) spif_socket_del(L);
    spif_str_del(data); free(payload);
    unlink(g_path);
    if (saved0 >= 0) {
        if (fcntl(0, F_GETFD) != -1) { FAIL("spif_socket", "fd-leak", shape, "descriptor 0, handed out by accept(), is still open after every socket object was deleted"); close(0); }
        dup2(saved0, 0); close(saved0);
    }
    int fd1 = lowest_free_fd();
    if (fd1 != fd0) FAIL("spif_socket", "fd-leak", shape, "lowest free descriptor moved from %d to %d: a descriptor outlived its socket object", fd0, fd1);
}
static void tr_case(uint64_t i, void *ctx)
{
    (void) ctx; tr_decode(i);
    mc_e3_stats st; mc_e3_explore(tr_run, NULL, g_k, g_dev, &st);
    mc_stat_add("e3_executions", (long) st.executions);
    mc_nontrivial();
    mc_outcome((uint64_t) st.executions * 31 + (uint64_t) g_len);
}

/* ------------------------------------------------------------------ (1b) interrupt storms and a free descriptor 0 */
static const int STORM[] = { 30, 101, 300 };
static void st_desc(uint64_t i, void *ctx, char *b, size_t n)
{
    (void) ctx;
    if (i < 6) snprintf(b, n, "transfer of 10000 bytes where every %s call is preceded by %d %s and moves at most 1500 bytes", i % 2 ? "write()" : "read()", STORM[i / 2], i % 2 ? "EINTR and as many EAGAIN failures" : "EINTR failures");
    else snprintf(b, n, "transfer of %d bytes where descriptor 0 is closed after listener and client are open (accept() returns 0)", i == 6 ? 1 : 10000);
}
static void st_case(uint64_t i, void *ctx)
{
    (void) ctx;
    g_len = (i == 6) ? 1 : 10000; g_close_first = 0; g_k = 0; g_dev = 0;
    if (i < 6) { if (i % 2) g_storm_w = STORM[i / 2]; else g_storm_r = STORM[i / 2]; g_storm_cr = g_storm_cw = 0; }
    else g_free0 = 1;
    tr_run(NULL);
    g_storm_r = g_storm_w = 0; g_free0 = 0;
    mc_nontrivial();
    mc_outcome(i);
}

/* ------------------------------------------------------------------ (1d) a re-opened listener, and reading at end of file */
static void ro_desc(uint64_t i, void *ctx, char *b, size_t n) { (void) ctx;
    if (i == 2) { snprintf(b, n, "set_nbio on the listener before it is opened (refused) / listener open / client open / accept / the client sends \"hello\" 100 ms later from another process / recv on the accepted socket"); return; }
    if (i == 3) { snprintf(b, n, "listener and client built from URL objects whose path was replaced with set_path() after parsing (no unparse): the listener binds the path the URL's components name, the client reaches it, \"hello\" arrives"); return; }
    snprintf(b, n, i ? "listener / client open / accept / send \"hello\" / close(client) / recv = \"hello\" / recv again at end of file / the accepted object still owns its descriptor"
                                                                                       : "listener open / set_nbio / close / open again (a new, blocking descriptor) / client open / accept / the client sends \"hello\" 100 ms later from another process / recv on the accepted socket"); }
static void ro_case(uint64_t i, void *ctx)
{
    (void) ctx; const char *shape = i == 3 ? "sockets from URL objects edited after parsing" : (i == 2 ? "set_nbio refused before open" : (i ? "reading again at end of file" : "listener closed and opened again")); mc_set_shape(shape);
    setpath(); int fd0 = lowest_free_fd(); unlink(g_path);
    spif_socket_t L = NULL, C = NULL, A = NULL; spif_str_t data = spif_str_new_from_ptr((spif_charptr_t) "hello"), got = NULL; pid_t kid = 0; char other[300] = "";
    if (i == 3) {        /* the text says <path>-text, the components say <path> */
        snprintf(other, sizeof other, "%s-text", g_path); unlink(other);
        char t[320]; snprintf(t, sizeof t, "unix:%s", other);
        spif_url_t u1 = spif_url_new_from_ptr((spif_charptr_t) t), u2 = spif_url_new_from_ptr((spif_charptr_t) t);
        spif_url_set_path(u1, spif_str_new_from_ptr((spif_charptr_t) g_path)); spif_url_set_path(u2, spif_str_new_from_ptr((spif_charptr_t) g_path));
        L = spif_socket_new_from_urls(u1, (spif_url_t) NULL); C = spif_socket_new_from_urls((spif_url_t) NULL, u2); spif_url_del(u1); spif_url_del(u2);
    } else { L = mk_listener(); C = mk_client(); }
    if (i == 2 && L && spif_socket_set_nbio(L)) FAIL("spif_socket_set_nbio", "model:return", shape, "set_nbio on a socket without a descriptor returned TRUE");
    if (!L || !C || !spif_socket_open(L)) { FAIL("spif_socket_open", "model:return", shape, "listener could not be opened"); goto out; }
    if (i == 3) { struct stat sb; if (stat(g_path, &sb) || !S_ISSOCK(sb.st_mode)) FAIL("spif_socket_open", "model:bound-address", shape, "no socket at the path the URL's components name"); if (!stat(other, &sb)) FAIL("spif_socket_open", "model:bound-address", shape, "the listener was bound to the path of the URL's stale text"); }
    if (!i) { spif_socket_set_nbio(L); if (!spif_socket_close(L)) FAIL("spif_socket_close", "model:return", shape, "close failed"); unlink(g_path); if (!spif_socket_open(L)) { FAIL("spif_socket_open", "model:return", shape, "the closed listener could not be opened again"); goto out; } }
    if (!spif_socket_open(C)) { FAIL("spif_socket_open", "model:return", shape, "client could not connect"); goto out; }
    A = spif_socket_accept(L);
    if (!A) { FAIL("spif_socket_accept", "model:return", shape, "accept returned NULL"); goto out; }
    if (i == 3) {
        if (!spif_socket_send(C, data)) FAIL("spif_socket_send", "model:return", shape, "send failed");
        spif_socket_close(C);
        got = spif_socket_recv(A);
        if (!got || !got->s || strcmp((char *) got->s, "hello")) FAIL("spif_socket_recv", "model:bytes-differ", shape, "received \"%.20s\" instead of \"hello\"", got && got->s ? (char *) got->s : "(nothing)");
    } else if (!i || i == 2) {
        fflush(NULL); kid = fork();
        if (kid == 0) { usleep(100000); _exit(spif_socket_send(C, data) ? 0 : 3); }
        spif_socket_close(C);          /* the sender's copy is the only one left: its exit is the end of file */
        got = spif_socket_recv(A);
        if (!got || !got->s || strcmp((char *) got->s, "hello")) FAIL("spif_socket_recv", "model:bytes-differ", shape, "the accepted socket of a blocking listener received \"%.20s\" instead of \"hello\" (the listener's earlier descriptor was non-blocking)", got && got->s ? (char *) got->s : "(nothing)");
        int st = 0; waitpid(kid, &st, 0);
    } else {
        if (!spif_socket_send(C, data)) FAIL("spif_socket_send", "model:return", shape, "send failed");
        spif_socket_close(C);
        got = spif_socket_recv(A);
        if (!got || !got->s || strcmp((char *) got->s, "hello")) FAIL("spif_socket_recv", "model:bytes-differ", shape, "received \"%.20s\" instead of \"hello\"", got && got->s ? (char *) got->s : "(nothing)");
        if (got) spif_str_del(got);
        got = spif_socket_recv(A);
        if (got && got->s && got->len) FAIL("spif_socket_recv", "model:bytes-differ", shape, "a second recv at end of file returned %ld bytes", (long) got->len);
        if (A->fd < 0) FAIL("spif_socket_recv", "model:descriptor-dropped", shape, "the accepted object lost its descriptor by reading at end of file");
        else if (!fd_open(A->fd)) FAIL("spif_socket_recv", "invariant:refers-to-closed-descriptor", shape, "after reading at end of file the accepted object refers to descriptor %d, which is closed", A->fd);
        { spif_socket_t C2 = mk_client(); if (C2) { spif_socket_open(C2); if (C2->fd >= 0 && C2->fd == A->fd) FAIL("spif_socket_recv", "model:shared-descriptor", shape, "a new client got descriptor %d, which the accepted object still calls its own", A->fd); spif_socket_del(C2); } }
    }
out:
    if (got) spif_str_del(got);
    if (A) spif_socket_del(A);
    if (C) spif_socket_del(C);
    if (L) spif_socket_del(L);
    spif_str_del(data); unlink(g_path); if (other[0]) unlink(other);
    int fd1 = lowest_free_fd();
    if (fd1 != fd0) FAIL("spif_socket", "fd-leak", shape, "lowest free descriptor moved from %d to %d", fd0, fd1);
    mc_nontrivial();
    mc_outcome(i);
}

/* ------------------------------------------------------------------ (1c) a duplicate and its original share the connection, not their fate */
static void di_desc(uint64_t i, void *ctx, char *b, size_t n) { (void) ctx; snprintf(b, n, "listener / client open / accept / D = dup(client) / %s / send \"hello\" over the other one / recv on the accepted socket", i ? "del(D)" : "del(client)"); }
static void di_case(uint64_t i, void *ctx)
{
    (void) ctx; const char *shape = "duplicate of a connected socket"; mc_set_shape(shape);
    setpath(); int fd0 = lowest_free_fd(); unlink(g_path);
    spif_socket_t L = mk_listener(), C = mk_client(), A = NULL, D = NULL; spif_str_t data = spif_str_new_from_ptr((spif_charptr_t) "hello"), got = NULL;
    if (!L || !C || !spif_socket_open(L)) { FAIL("spif_socket_open", "model:return", shape, "listener could not be opened"); goto out; }
    spif_socket_set_nbio(L);
    if (!spif_socket_open(C)) { FAIL("spif_socket_open", "model:return", shape, "client could not connect"); goto out; }
    A = spif_socket_accept(L);
    if (!A) { FAIL("spif_socket_accept", "model:return", shape, "accept returned NULL"); goto out; }
    D = spif_socket_dup(C);
    if (!D) { FAIL("spif_socket_dup", "model:return", shape, "dup returned NULL"); goto out; }
    spif_socket_t keep = i ? C : D;
    if (i) { spif_socket_del(D); D = NULL; } else { spif_socket_del(C); C = NULL; }
    if (!spif_socket_send(keep, data)) FAIL("spif_socket_send", "model:return", shape, "send over the %s failed after the %s was deleted", i ? "original" : "duplicate", i ? "duplicate" : "original");
    else { got = spif_socket_recv(A);
        if (!got || !got->s || strcmp((char *) got->s, "hello")) FAIL("spif_socket_recv", "model:bytes-differ", shape, "the accepted socket received \"%.20s\" instead of \"hello\"", got && got->s ? (char *) got->s : "(nothing)"); }
out:
    if (got) spif_str_del(got);
    if (A) spif_socket_del(A);
    if (D) spif_socket_del(D);
    if (C) spif_socket_del(C);
    if (L) spif_socket_del(L);
    spif_str_del(data); unlink(g_path);
    int fd1 = lowest_free_fd();
    if (fd1 != fd0) FAIL("spif_socket", "fd-leak", shape, "lowest free descriptor moved from %d to %d", fd0, fd1);
    mc_nontrivial();
    mc_outcome(i);
}

/* ------------------------------------------------------------------ (2) lifecycle */
enum { O_L, O_C, O_A, O_D, NOBJ };
static const char *ON[NOBJ] = { "listener", "client", "accepted", "duplicate" };
typedef struct { spif_socket_t o[NOBJ]; int owns[NOBJ]; int opened[NOBJ]; int listening, connected, pending, peer_open; int fd0; int dup_of; int lgen, pending_gen; } st_t;    /* lgen: which listening description the listener object holds; a queued connection stays with the description it reached */
enum { K_NEW, K_OPEN, K_OPEN_FAIL_SOCKET, K_OPEN_FAIL_BIND, K_OPEN_FAIL_LISTEN, K_OPEN_FAIL_CONNECT, K_ACCEPT, K_ACCEPT_FAIL, K_NBIO, K_SEND, K_RECV, K_CLOSE, K_DUP, K_DEL, K_ACCEPT_NODUP, K_DUP_FAIL, K_CHECK_IO };
typedef struct { int k, obj; } op_t;
static op_t OPS[64]; static int NOPS;
static void build_ops(void)
{
    NOPS = 0;
    OPS[NOPS++] = (op_t) { K_NEW, O_L }; OPS[NOPS++] = (op_t) { K_NEW, O_C };
    OPS[NOPS++] = (op_t) { K_OPEN, O_L }; OPS[NOPS++] = (op_t) { K_OPEN, O_C };
    OPS[NOPS++] = (op_t) { K_OPEN_FAIL_SOCKET, O_L }; OPS[NOPS++] = (op_t) { K_OPEN_FAIL_SOCKET, O_C };
    OPS[NOPS++] = (op_t) { K_OPEN_FAIL_BIND, O_L }; OPS[NOPS++] = (op_t) { K_OPEN_FAIL_LISTEN, O_L }; OPS[NOPS++] = (op_t) { K_OPEN_FAIL_CONNECT, O_C };
    OPS[NOPS++] = (op_t) { K_ACCEPT, O_L }; OPS[NOPS++] = (op_t) { K_ACCEPT_FAIL, O_L }; OPS[NOPS++] = (op_t) { K_ACCEPT_NODUP, O_L };
    OPS[NOPS++] = (op_t) { K_NBIO, O_C };
    OPS[NOPS++] = (op_t) { K_SEND, O_C }; OPS[NOPS++] = (op_t) { K_SEND, O_A };
    OPS[NOPS++] = (op_t) { K_RECV, O_A }; OPS[NOPS++] = (op_t) { K_RECV, O_D };
    for (int o = 0; o < NOBJ; o++) OPS[NOPS++] = (op_t) { K_CLOSE, o };
    for (int o = 0; o < 3; o++) OPS[NOPS++] = (op_t) { K_DUP, o };
    for (int o = 0; o < 3; o++) OPS[NOPS++] = (op_t) { K_DUP_FAIL, o };
    OPS[NOPS++] = (op_t) { K_CHECK_IO, O_A }; OPS[NOPS++] = (op_t) { K_CHECK_IO, O_C };        /* check_io(): asks select() what the descriptor is ready for; it owns nothing */
    for (int o = 0; o < NOBJ; o++) OPS[NOPS++] = (op_t) { K_DEL, o };
}
static void op_name(int i, char *b, size_t n)
{
    static const char *kn[] = { "new", "open", "open[socket() fails]", "open[bind() fails]", "open[listen() fails]", "open[connect() fails]", "accept", "accept[accept() fails]", "set_nbio", "send(\"hi\")", "recv", "close", "dup", "del", "accept[no descriptor to spare: dup() fails]", "dup[dup() fails]", "check_io" };
    snprintf(b, n, "%s(%s)", kn[OPS[i].k], ON[OPS[i].obj]);
}
static void *fresh(void) { setpath(); st_t *s = calloc(1, sizeof *s); s->fd0 = lowest_free_fd(); s->dup_of = -1; unlink(g_path); return s; }
static int enabled(void *vs, int op)
{
    st_t *s = vs; op_t *o = &OPS[op]; spif_socket_t x = s->o[o->obj];
    switch (o->k) {
    case K_NEW: return x == NULL;
    case K_OPEN_FAIL_SOCKET: return x != NULL && !s->owns[o->obj];                          /* socket() is only called while the object has no descriptor */
    case K_OPEN: case K_OPEN_FAIL_BIND: case K_OPEN_FAIL_LISTEN: case K_OPEN_FAIL_CONNECT:
        return x != NULL && !s->opened[o->obj];                                             /* not opened yet, closed again, or left half-open by a failed attempt (a retry) */
    case K_ACCEPT: case K_ACCEPT_FAIL: case K_ACCEPT_NODUP: return x != NULL && s->listening && s->owns[O_L] && s->pending && s->pending_gen == s->lgen && s->o[O_A] == NULL;
    case K_NBIO: case K_CHECK_IO: return x != NULL && s->owns[o->obj];
    case K_SEND: return x != NULL && s->owns[o->obj] && (o->obj == O_C ? 1 : 1);
    case K_RECV: return x != NULL && s->owns[o->obj] && (o->obj == O_A || s->dup_of == O_A);   /* only non-blocking descriptors are read */
    case K_CLOSE: return x != NULL && s->owns[o->obj];
    case K_DUP: return x != NULL && s->o[O_D] == NULL;
    case K_DUP_FAIL: return x != NULL && s->o[O_D] == NULL && s->owns[o->obj];         /* dup() is only called for an object with a descriptor */
    case K_DEL: return x != NULL;
    }
    return 0;
}
static void check_objects(st_t *s, const char *site, const char *shape)
{
    for (int o = 0; o < NOBJ; o++) {
        spif_socket_t x = s->o[o]; if (!x) continue;
        if (s->owns[o]) {
            if (x->fd < 0) FAIL(site, "model:descriptor-dropped", shape, "%s should own an open descriptor but fd=%d", ON[o], x->fd);
            else if (!fd_open(x->fd)) FAIL(site, "invariant:refers-to-closed-descriptor", shape, "%s refers to descriptor %d, which is closed", ON[o], x->fd);
        } else if (x->fd >= 0) {
            if (!fd_open(x->fd)) FAIL(site, "invariant:refers-to-closed-descriptor", shape, "%s still refers to descriptor %d after it was closed", ON[o], x->fd);
            else FAIL(site, "model:unexpected-descriptor", shape, "%s holds descriptor %d although the model says it owns none", ON[o], x->fd);
        }
    }
}
static void apply(void *vs, int op)
{
    st_t *s = vs; op_t *o = &OPS[op]; spif_socket_t x = s->o[o->obj]; char nm[80]; op_name(op, nm, sizeof nm);
    const char *shape = nm; char site[64]; snprintf(site, sizeof site, "spif_socket_%.*s", (int) strcspn(nm, "(["), nm);
    mc_set_shape(shape);
    switch (o->k) {
    case K_NEW: s->o[o->obj] = o->obj == O_L ? mk_listener() : mk_client(); if (!s->o[o->obj]) FAIL(site, "model:return", shape, "constructor returned NULL"); break;
    case K_OPEN: case K_OPEN_FAIL_SOCKET: case K_OPEN_FAIL_BIND: case K_OPEN_FAIL_LISTEN: case K_OPEN_FAIL_CONNECT: {
        if (o->obj == O_L) unlink(g_path);
        g_fail_socket = o->k == K_OPEN_FAIL_SOCKET; g_fail_bind = o->k == K_OPEN_FAIL_BIND; g_fail_listen = o->k == K_OPEN_FAIL_LISTEN; g_fail_connect = o->k == K_OPEN_FAIL_CONNECT;
        spif_bool_t r = spif_socket_open(x);
        int consumed = o->k != K_OPEN && !(g_fail_socket || g_fail_bind || g_fail_listen || g_fail_connect);      /* the armed call was made (and failed) */
        g_fail_socket = g_fail_bind = g_fail_listen = g_fail_connect = 0;
        /* the listener's open succeeds unless a failure is injected; whether the client's connect() finds a listening
         * description depends on duplicates of the listener too, so only "an injected failure makes it fail" is demanded there */
        int retry = s->owns[o->obj];              /* a descriptor from an earlier, failed attempt is still held: what the repeated bind()/listen() answer is the kernel's business */
        if (consumed && r) FAIL(site, "model:return", shape, "open returned TRUE although a system call failed");
        if (o->k == K_OPEN && o->obj == O_L && !r && !retry) FAIL(site, "model:return", shape, "open of the listener failed without an injected fault");
        /* whatever happened, a descriptor that socket() produced belongs to the object until it is closed or deleted */
        s->owns[o->obj] = retry || (o->k != K_OPEN_FAIL_SOCKET);
        s->opened[o->obj] = r ? 1 : 0;
        if (r && o->obj == O_L) { s->listening = 1; if (!retry) s->lgen++; spif_socket_set_nbio(x); }      /* a fresh descriptor was bound to the (unlinked and re-created) path */
        if (r && o->obj == O_C) { s->connected = 1; s->pending = 1; s->pending_gen = s->lgen; s->peer_open = 1; }
        break; }
    case K_ACCEPT: case K_ACCEPT_FAIL: case K_ACCEPT_NODUP: {
        g_fail_accept = o->k == K_ACCEPT_FAIL; g_fail_dup = o->k == K_ACCEPT_NODUP;       /* whether accept duplicates anything is its own business; if it does, that call fails */
        spif_socket_t a = spif_socket_accept(x);
        g_fail_accept = 0; g_fail_dup = 0;
        if (o->k == K_ACCEPT_FAIL) { if (a) { FAIL(site, "model:return", shape, "accept returned an object although accept() failed"); spif_socket_del(a); } }
        else if (!a) FAIL(site, "model:return", shape, "accept returned NULL with a connection pending");
        else { s->o[O_A] = a; s->owns[O_A] = 1; s->opened[O_A] = 1; s->pending = 0; }
        break; }
    case K_NBIO: if (!spif_socket_set_nbio(x)) FAIL(site, "model:return", shape, "set_nbio failed on an open descriptor"); break;
    case K_CHECK_IO: (void) spif_socket_check_io(x); break;              /* whatever it reports, the object still owns its descriptor (checked below) */
    case K_SEND: { spif_str_t d = spif_str_new_from_ptr((spif_charptr_t) "hi");
        spif_bool_t r = spif_socket_send(x, d); spif_str_del(d);
        /* a failed send may close the descriptor; it must then also forget it (checked below through fd_open) */
        if (!r && x->fd < 0) { s->owns[o->obj] = 0; s->opened[o->obj] = 0; }
        break; }
    case K_RECV: { spif_str_t g = spif_socket_recv(x); if (g) { if (g->s && g->len != (spif_stridx_t) strlen((char *) g->s)) FAIL(site, "invariant:len-differs-from-strlen", shape, "recv result len=%ld", (long) g->len); spif_str_del(g); } break; }
    case K_CLOSE: if (!spif_socket_close(x)) FAIL(site, "model:return", shape, "close of an open descriptor failed"); s->owns[o->obj] = 0; s->opened[o->obj] = 0;
        if (o->obj == O_L) { s->listening = 0; s->pending = 0; }      /* a queued connection belongs to the listening description, not to a later one */
        break;
    case K_DUP: { spif_socket_t d = spif_socket_dup(x); if (!d) FAIL(site, "model:return", shape, "dup returned NULL"); else { s->o[O_D] = d; s->owns[O_D] = s->owns[o->obj]; s->opened[O_D] = s->opened[o->obj]; s->dup_of = o->obj;
            if (s->owns[o->obj] && d->fd == x->fd) FAIL(site, "model:shared-descriptor", shape, "the duplicate uses the same descriptor number as the original"); } break; }
    case K_DUP_FAIL: { g_fail_dup = 1; spif_socket_t d = spif_socket_dup(x); int consumed = !g_fail_dup; g_fail_dup = 0;
        /* the copy could not get a descriptor of its own: it exists (or not) without one; the original keeps its own */
        if (d) { s->o[O_D] = d; s->owns[O_D] = consumed ? 0 : s->owns[o->obj]; s->opened[O_D] = consumed ? 0 : s->opened[o->obj]; s->dup_of = consumed ? -1 : o->obj;
            if (d->fd >= 0 && d->fd == x->fd) FAIL(site, "model:shared-descriptor", shape, "the duplicate uses the same descriptor number as the original"); }
        break; }
    case K_DEL: if (!spif_socket_del(x)) FAIL(site, "model:return", shape, "del returned FALSE"); s->o[o->obj] = NULL; s->owns[o->obj] = 0; s->opened[o->obj] = 0;
        if (o->obj == O_L) { s->listening = 0; s->pending = 0; }      /* a queued connection belongs to the listening description, not to a later one */
        if (o->obj == O_D) s->dup_of = -1;
        break;
    }
    check_objects(s, site, shape);
}
static void canon(void *vs, char *b, size_t n)
{
    st_t *s = vs; size_t k = 0;
    for (int o = 0; o < NOBJ; o++) k += (size_t) snprintf(b + k, n - k, "%s:%s%s%s ", ON[o], s->o[o] ? "obj" : "-", s->o[o] ? (s->o[o]->fd >= 0 ? "+fd" : "") : "", s->opened[o] ? "+open" : "");
    snprintf(b + k, n - k, "listening=%d pending=%d%s dup_of=%d flagsC=%x", s->listening, s->pending, s->pending && s->pending_gen != s->lgen ? "(on an earlier description)" : "", s->dup_of, s->o[O_C] ? (unsigned) (s->o[O_C]->flags & 0x2000) : 0);
}
static void teardown(void *vs)
{
    st_t *s = vs;
    mc_set_shape("teardown");
    for (int o = NOBJ - 1; o >= 0; o--) if (s->o[o]) spif_socket_del(s->o[o]);
    unlink(g_path);
    int fd1 = lowest_free_fd();
    if (fd1 != s->fd0) FAIL("spif_socket", "fd-leak", "after deleting every socket object", "lowest free descriptor moved from %d to %d: a descriptor the library opened was never closed", s->fd0, fd1);
    free(s);
}

int main(int argc, char **argv)
{
    mc_init("C19", argc, argv);
    libast_debug_level = (unsigned) mc_dlevel();        /* --dlevel=N: the whole run at runtime debug level N (default 0) */
    const char *td = getenv("VERIF_SCRATCH");
    g_k = (int) mc_arg_int("k", mc_thorough() ? 6 : 4);
    g_dev = (int) mc_arg_int("dev", mc_thorough() ? 3 : 2);
    int depth = (int) mc_arg_int("depth", mc_thorough() ? 7 : 5);
    build_ops();
    mc_info("alphabet", "transfer: payload lengths {1,2,4095,4096,4097,8192,16385,20000} x {client closes, stays open} x E3 schedules over the first %d read/write calls, <= %d deviations; "
            "storms: 30/101/300 EINTR (and EAGAIN on write) failures before every call, 1500-byte moves; transfers with descriptor 0 closed; lifecycle: %d opcodes on listener/client/accepted/duplicate incl. injected socket/bind/listen/connect/accept/dup failures, depth <= %d; descriptor census by lowest-free-descriptor", g_k, g_dev, NOPS, depth);
    /* every worker gets its own socket path (the path is fixed up after fork through the pid) */
    (void) td; setpath();
    if (!mc_arg("only", NULL) || !strcmp(mc_arg("only", ""), "transfer")) {
        /* E2 workers are forked inside mc_e2_level; make the path unique per case instead of per process */
        mc_e2_level("transfer", g_k * 10 + g_dev, (uint64_t) NLENS * 2, tr_case, tr_desc, NULL);
        { int k = g_k, d = g_dev; mc_e2_level("storm", 300, 8, st_case, st_desc, NULL); g_k = k; g_dev = d; }
        mc_e2_level("dup_independence", 1, 2, di_case, di_desc, NULL);
        mc_e2_level("reopen_and_eof", 1, 4, ro_case, ro_desc, NULL);
    }
    if (!mc_arg("only", NULL) || !strcmp(mc_arg("only", ""), "lifecycle")) {
        mc_sys sys = { "lifecycle", NOPS, op_name, fresh, enabled, apply, NULL, canon, teardown, (int) mc_arg_int("lookahead", 1) };
        mc_e1_run(&sys, depth);
    }
    return mc_finish();
}
