/* h_gate.c — C20: debug output and assertions are gated exactly by compile-time and runtime levels.
 * Compiled once per DEBUG build (undefined, 0, 1, 2, 3, 4, 5, 9999) together with the library in
 * the same build.  Every (probe x runtime level 0..6 x silent) cell runs in a forked child with
 * stderr on a pipe; a 40-line gate table gives the expected (output?, arguments evaluated?,
 * return value, exit) for the build's DEBUG value. */
#include "hcommon.h"
#include <sys/wait.h>
#include <unistd.h>
#include <signal.h>
#include <fcntl.h>

#ifndef DEBUG
# error "libast.h defines DEBUG when the build does not"
#endif
#define BUILD DEBUG

static int g_bump;
static int bump(void) { return ++g_bump; }
typedef struct { int bumps; int ret; int continued; int elses; } res_t;
static res_t *R;

#define D_PROBE(name, MAC) static void name(void) { MAC(("probe %d\n", bump())); R->continued = 1; }
D_PROBE(p_d_options, D_OPTIONS) D_PROBE(p_d_obj, D_OBJ) D_PROBE(p_d_conf, D_CONF) D_PROBE(p_d_mem, D_MEM) D_PROBE(p_d_strings, D_STRINGS) D_PROBE(p_d_parse, D_PARSE) D_PROBE(p_d_never, D_NEVER)
D_PROBE(p_dprintf, DPRINTF) D_PROBE(p_dprintf1, DPRINTF1) D_PROBE(p_dprintf2, DPRINTF2) D_PROBE(p_dprintf3, DPRINTF3) D_PROBE(p_dprintf4, DPRINTF4) D_PROBE(p_dprintf5, DPRINTF5)
D_PROBE(p_dprintf6, DPRINTF6) D_PROBE(p_dprintf7, DPRINTF7) D_PROBE(p_dprintf8, DPRINTF8) D_PROBE(p_dprintf9, DPRINTF9)
/* a D_* statement is one statement: as the un-braced arm of an if it leaves the else to that if */
static volatile int g_cond;
/* a statement macro as the unbraced body of an if that has an else: the else belongs to the caller's if, whatever the macro expands to in this build */
static void f_if_require(int outer) { g_cond = outer; if (g_cond) REQUIRE(g_cond == outer); else R->elses++; R->continued = 1; }
static int f_if_require_rval(int outer) { g_cond = outer; if (g_cond) REQUIRE_RVAL(g_cond == outer, 43); else R->elses++; R->continued = 1; return 7; }
static void f_if_assert(int outer) { g_cond = outer; if (g_cond) ASSERT(g_cond == outer); else R->elses++; R->continued = 1; }
static int f_if_assert_rval(int outer) { g_cond = outer; if (g_cond) ASSERT_RVAL(g_cond == outer, 41); else R->elses++; R->continued = 1; return 7; }
static void p_if_require_t(void) { f_if_require(1); } static void p_if_require_f(void) { f_if_require(0); }
static void p_if_require_rval_t(void) { R->ret = f_if_require_rval(1); } static void p_if_require_rval_f(void) { R->ret = f_if_require_rval(0); }
static void p_if_assert_t(void) { f_if_assert(1); } static void p_if_assert_f(void) { f_if_assert(0); }
static void p_if_assert_rval_t(void) { R->ret = f_if_assert_rval(1); } static void p_if_assert_rval_f(void) { R->ret = f_if_assert_rval(0); }
static void p_d_if_true(void) { g_cond = 1; if (g_cond) D_CONF(("probe %d\n", bump())); else R->elses++; R->continued = 1; }
static void p_d_if_false(void) { g_cond = 0; if (g_cond) D_CONF(("probe %d\n", bump())); else R->elses++; R->continued = 1; }
static void f_assert(int c) { ASSERT(c ? 1 : (bump(), 0)); R->continued = 1; }
static int f_assert_rval(int c) { ASSERT_RVAL(c ? 1 : (bump(), 0), 41); R->continued = 1; return 7; }
static int f_notreached_rval(void) { ASSERT_NOTREACHED_RVAL(42); R->continued = 1; return 7; }
static void f_require(int c) { REQUIRE(c ? 1 : (bump(), 0)); R->continued = 1; }
static int f_require_rval(int c) { REQUIRE_RVAL(c ? 1 : (bump(), 0), 43); R->continued = 1; return 7; }
/* a condition whose text holds conversion characters: the diagnostic shows it as text ("100%%" stays two percent signs), it is not a format */
static int f_assert_pct(int c) { ASSERT_RVAL(c ? 1 : (bump(), strcmp("100%%", "x") == 0), 41); R->continued = 1; return 7; }
static int f_require_pct(int c) { REQUIRE_RVAL(c ? 1 : (bump(), strcmp("100%%", "x") == 0), 43); R->continued = 1; return 7; }
static void p_assert_pct(void) { R->ret = f_assert_pct(0); } static void p_require_pct(void) { R->ret = f_require_pct(0); }
static void f_assert_pct_v(int c) { ASSERT(c ? 1 : (bump(), strcmp("100%%", "x") == 0)); R->continued = 1; }
static void f_require_pct_v(int c) { REQUIRE(c ? 1 : (bump(), strcmp("100%%", "x") == 0)); R->continued = 1; }
static void p_assert_pct_v(void) { f_assert_pct_v(0); } static void p_require_pct_v(void) { f_require_pct_v(0); }
static void p_assert_t(void) { f_assert(1); } static void p_assert_f(void) { f_assert(0); }
static void p_assert_rval_t(void) { R->ret = f_assert_rval(1); } static void p_assert_rval_f(void) { R->ret = f_assert_rval(0); }
static void p_notreached_rval(void) { R->ret = f_notreached_rval(); }
static void p_require_t(void) { f_require(1); } static void p_require_f(void) { f_require(0); }
static void p_require_rval_t(void) { R->ret = f_require_rval(1); } static void p_require_rval_f(void) { R->ret = f_require_rval(0); }
static void p_prim_dprintf(void) { R->ret = libast_dprintf("message %d\n", bump()); R->continued = 1; }
static void p_prim_warning(void) { libast_print_warning("warning %d\n", bump()); R->continued = 1; }
static void p_prim_error(void) { libast_print_error("error %d\n", bump()); R->continued = 1; }
/* real in-library statements, one per family */
static void p_lib_conf(void) { spiftool_version_compare((spif_charptr_t) "1.0", (spif_charptr_t) "1.1"); R->continued = 1; }
static void p_lib_options(void) { static spifopt_t o[1]; char *av[3] = { "p", "x", NULL }; SPIFOPT_OPTLIST_SET(o); SPIFOPT_NUMOPTS_SET(0); spifopt_parse(2, av); R->continued = 1; }
static void p_lib_obj(void) { int fd[2]; if (pipe(fd)) return; if (write(fd[1], "abc", 3) != 3) return; close(fd[1]); FILE *f = fdopen(fd[0], "r"); spif_mbuff_t m = spif_mbuff_new_from_fp(f); if (m) spif_mbuff_del(m); fclose(f); R->continued = 1; }
static void p_lib_mem(void) { void *p = spifmem_malloc("probe.c", 1, 8); spifmem_free("p", "probe.c", 2, p); R->continued = 1; }

enum { G_DLEVEL, G_DPRINTF, G_DPRINTFN, G_NEVER, G_ASSERT_T, G_ASSERT_F, G_ASSERT_RVAL_F, G_NOTREACHED_RVAL, G_REQUIRE_T, G_REQUIRE_F, G_REQUIRE_RVAL_F, G_PRIM, G_LIB };
typedef struct { const char *name; void (*fn)(void); int gate; int level; int thorough_only; } probe_t;
static const probe_t PROBES[] = {
    { "D_OPTIONS", p_d_options, G_DLEVEL, 1, 0 }, { "D_OBJ", p_d_obj, G_DLEVEL, 2, 0 }, { "D_CONF", p_d_conf, G_DLEVEL, 3, 0 }, { "D_MEM", p_d_mem, G_DLEVEL, 5, 0 },
    { "D_STRINGS", p_d_strings, G_DLEVEL, 9999, 0 }, { "D_PARSE", p_d_parse, G_DLEVEL, 9999, 0 }, { "D_NEVER", p_d_never, G_NEVER, 0, 0 },
    { "DPRINTF", p_dprintf, G_DPRINTF, 0, 0 }, { "DPRINTF1", p_dprintf1, G_DPRINTFN, 1, 0 }, { "DPRINTF2", p_dprintf2, G_DPRINTFN, 2, 0 }, { "DPRINTF3", p_dprintf3, G_DPRINTFN, 3, 0 },
    { "DPRINTF4", p_dprintf4, G_DPRINTFN, 4, 0 }, { "DPRINTF5", p_dprintf5, G_DPRINTFN, 5, 0 }, { "DPRINTF6", p_dprintf6, G_DPRINTFN, 6, 0 }, { "DPRINTF7", p_dprintf7, G_DPRINTFN, 7, 0 },
    { "DPRINTF8", p_dprintf8, G_DPRINTFN, 8, 0 }, { "DPRINTF9", p_dprintf9, G_DPRINTFN, 9, 0 },
    { "ASSERT(true)", p_assert_t, G_ASSERT_T, 0, 0 }, { "ASSERT(false)", p_assert_f, G_ASSERT_F, 0, 0 }, { "ASSERT_RVAL(true)", p_assert_rval_t, G_ASSERT_T, 0, 0 }, { "ASSERT_RVAL(false,41)", p_assert_rval_f, G_ASSERT_RVAL_F, 41, 0 },
    { "ASSERT_NOTREACHED_RVAL(42)", p_notreached_rval, G_NOTREACHED_RVAL, 42, 0 },
    { "REQUIRE(true)", p_require_t, G_REQUIRE_T, 0, 0 }, { "REQUIRE(false)", p_require_f, G_REQUIRE_F, 0, 0 }, { "REQUIRE_RVAL(true)", p_require_rval_t, G_REQUIRE_T, 0, 0 }, { "REQUIRE_RVAL(false,43)", p_require_rval_f, G_REQUIRE_RVAL_F, 43, 0 },
    { "ASSERT_RVAL(false,41) on a condition containing \"100%%\"", p_assert_pct, G_ASSERT_RVAL_F, 41, 0 }, { "REQUIRE_RVAL(false,43) on a condition containing \"100%%\"", p_require_pct, G_REQUIRE_RVAL_F, 43, 0 },
    { "ASSERT(false) on a condition containing \"100%%\"", p_assert_pct_v, G_ASSERT_F, 0, 0 }, { "REQUIRE(false) on a condition containing \"100%%\"", p_require_pct_v, G_REQUIRE_F, 0, 0 },
    { "if (true) D_CONF(...); else counter++;", p_d_if_true, G_DLEVEL, 3, 0 }, { "if (false) D_CONF(...); else counter++;", p_d_if_false, G_NEVER, 0, 0 },
    { "if (true) REQUIRE(true); else counter++;", p_if_require_t, G_REQUIRE_T, 0, 0 }, { "if (false) REQUIRE(true); else counter++;", p_if_require_f, G_REQUIRE_T, 0, 0 },
    { "if (true) REQUIRE_RVAL(true, 43); else counter++;", p_if_require_rval_t, G_REQUIRE_T, 0, 0 }, { "if (false) REQUIRE_RVAL(true, 43); else counter++;", p_if_require_rval_f, G_REQUIRE_T, 0, 0 },
    { "if (true) ASSERT(true); else counter++;", p_if_assert_t, G_ASSERT_T, 0, 0 }, { "if (false) ASSERT(true); else counter++;", p_if_assert_f, G_ASSERT_T, 0, 0 },
    { "if (true) ASSERT_RVAL(true, 41); else counter++;", p_if_assert_rval_t, G_ASSERT_T, 0, 0 }, { "if (false) ASSERT_RVAL(true, 41); else counter++;", p_if_assert_rval_f, G_ASSERT_T, 0, 0 },
    { "libast_dprintf", p_prim_dprintf, G_PRIM, 0, 0 }, { "libast_print_warning", p_prim_warning, G_PRIM, 0, 0 }, { "libast_print_error", p_prim_error, G_PRIM, 0, 0 },
    { "D_CONF in spiftool_version_compare", p_lib_conf, G_LIB, 3, 1 }, { "D_OPTIONS in spifopt_parse", p_lib_options, G_LIB, 1, 1 }, { "D_OBJ in spif_mbuff_init_from_fp", p_lib_obj, G_LIB, 2, 1 }, { "D_MEM in spifmem_malloc", p_lib_mem, G_LIB, 5, 1 },
};
#define NPROBES ((int) (sizeof PROBES / sizeof PROBES[0]))
static int NP;
static const unsigned LEVELS[10] = { 0, 1, 2, 3, 4, 5, 6, 9999, 0x80000000u, 0xffffffffu };       /* the level is an unsigned int: the last two are the highest levels there are, not negative ones */
#define PER 60       /* cells per probe: 10 levels x 3 silence values x 2 histories */

static void g_desc(uint64_t idx, void *ctx, char *b, size_t n)
{
    const probe_t *p = &PROBES[idx / PER]; (void) ctx; static const char *sv[3] = { "off", "on (TRUE)", "on (0x100: a true value whose low byte is zero)" };
    snprintf(b, n, "build DEBUG=%d: %s at runtime level %u, silent %s%s", BUILD, p->name, LEVELS[(idx % PER) / 6], sv[(idx / 2) % 3], idx % 2 ? ", after refused output calls in the same process" : "");
}
static void g_case(uint64_t idx, void *ctx)
{
    const probe_t *p = &PROBES[idx / PER]; unsigned level = LEVELS[(idx % PER) / 6], silent = (int) ((idx / 2) % 3), hist = (int) (idx % 2); (void) ctx;
    char shape[120]; snprintf(shape, sizeof shape, "%s, runtime %s its level, silent %s", p->gate == G_DLEVEL || p->gate == G_DPRINTFN || p->gate == G_LIB ? (BUILD >= p->level ? "build at or above its level" : "build below its level") : (BUILD >= 1 ? "debugging compiled in" : "debugging compiled out"),
                          level >= p->level ? "at or above" : "below", silent ? "on" : "off");
    mc_set_shape(shape);
    /* silence is only specified for the three output primitives: under silence the macro families are checked for argument
     * evaluation, control flow, return value and fatality (all independent of silence), not for what reaches stderr */
    int check_out = !silent || p->gate == G_PRIM;
    int rp[2], ep[2]; if (pipe(rp) || pipe(ep)) return;
    fflush(NULL);
    pid_t pid = fork();
    if (pid == 0) {
        res_t r; memset(&r, 0, sizeof r); R = &r;
        close(rp[0]); close(ep[0]); dup2(ep[1], 2); close(ep[1]);
        mc_child_reset();
        if (hist) {         /* history: output calls that were refused (NULL format at level 0: a soft ASSERT failure) must not change what later statements print */
            int nul = open("/dev/null", O_WRONLY), keep = dup(2);
            dup2(nul, 2);
            libast_debug_level = 0; libast_set_silent(FALSE);
            libast_dprintf(NULL); libast_print_warning(NULL); libast_print_error(NULL);
            { spif_charptr_t keep_name = libast_program_name; libast_program_name = NULL; libast_dprintf("refused %d\n", 1); libast_program_name = keep_name; }     /* and one refused for want of a program name */
            libast_set_program_name("a-client-name"); libast_dprintf("named %d\n", 1); libast_set_program_name("libast");      /* and the name set to a client's and back to the built-in one */
            fflush(NULL);
            dup2(keep, 2); close(keep); close(nul);
        }
        libast_debug_level = (unsigned) level; libast_set_silent(silent == 0 ? FALSE : (silent == 1 ? TRUE : (spif_bool_t) 0x100)); g_bump = 0;
        p->fn();
        r.bumps = g_bump;
        fflush(NULL);
        if (write(rp[1], &r, sizeof r) != sizeof r) _exit(9);
        _exit(0);
    }
    close(rp[1]); close(ep[1]);
    /* drain stderr first (the result record is small and never blocks the child); a runaway writer is killed */
    char err[2048]; size_t en = 0; ssize_t k; long total = 0; char sink[8192];
    while ((k = read(ep[0], en < sizeof err - 1 ? err + en : sink, en < sizeof err - 1 ? sizeof err - 1 - en : sizeof sink)) > 0) { total += k; if (en < sizeof err - 1) en += (size_t) k; if (total > (32L << 20)) { kill(pid, SIGKILL); break; } }
    err[en < sizeof err ? en : sizeof err - 1] = 0;
    res_t r; memset(&r, 0, sizeof r); ssize_t got = read(rp[0], &r, sizeof r);
    close(rp[0]); close(ep[0]);
    int st = 0; waitpid(pid, &st, 0);
    int exited0 = WIFEXITED(st) && WEXITSTATUS(st) == 0 && got == (ssize_t) sizeof r, fatal = WIFEXITED(st) && WEXITSTATUS(st) == 255;
    /* ---- the gate table */
    int want_out = 0, want_eval = 0, want_fatal = 0, want_ret = -1, want_cont = 1;
    switch (p->gate) {
    case G_DLEVEL: case G_LIB: want_out = (BUILD >= p->level && level >= p->level); want_eval = want_out; break;
    case G_NEVER: break;
    case G_DPRINTF: want_out = want_eval = (BUILD >= 1); break;
    case G_DPRINTFN: want_out = want_eval = (BUILD >= 1 && level >= p->level); break;
    case G_ASSERT_T: case G_REQUIRE_T: break;
    case G_ASSERT_F: case G_ASSERT_RVAL_F:
        if (BUILD >= 1) { want_eval = 1; if (level >= 1) want_fatal = 1; else { want_out = 1; want_cont = 0; want_ret = p->gate == G_ASSERT_RVAL_F ? p->level : -1; } }
        else { want_eval = 0; want_cont = 1; want_ret = p->gate == G_ASSERT_RVAL_F ? 7 : -1; }          /* compiled out: vanishes, condition not evaluated */
        break;
    case G_NOTREACHED_RVAL: if (BUILD >= 1 && level >= 1) want_fatal = 1; else { want_out = (BUILD >= 1); want_cont = 0; want_ret = 42; } break;
    case G_REQUIRE_F: case G_REQUIRE_RVAL_F: want_eval = 1; want_cont = 0; want_out = (BUILD >= 1 && level >= 1); want_ret = p->gate == G_REQUIRE_RVAL_F ? p->level : -1; break;
    case G_PRIM: want_eval = 1; want_out = !silent; break;
    }
    const char *site = p->name;
    if (WIFSIGNALED(st)) { FAIL(site, "crash:signal", shape, "the probe ended with signal %d", WTERMSIG(st)); return; }
    if (want_fatal) { if (!fatal) FAIL(site, "model:not-fatal", shape, "expected the fatal-error exit (255), got status 0x%x", st); else if (check_out && !strstr(err, "ASSERT failed")) FAIL(site, "model:fatal-without-diagnostic", shape, "fatal exit without the ASSERT diagnostic"); }
    else if (!exited0) FAIL(site, "model:unexpected-exit", shape, "the probe ended the process (status 0x%x) where it should return", st);
    else {
        if (p->gate != G_LIB && (r.bumps != 0) != want_eval) FAIL(site, "model:argument-evaluation", shape, "arguments/condition were %sevaluated (%d side effects), expected %s", r.bumps ? "" : "not ", r.bumps, want_eval ? "evaluation" : "none");
        if (check_out && (total > 0) != want_out) FAIL(site, want_out ? "model:no-output" : "model:unexpected-output", shape, "%ld bytes written to stderr, expected %s: %.120s", total, want_out ? "output" : "silence", err);
        if (check_out && total > 0 && (p->fn == p_prim_warning || p->fn == p_prim_error) && strncmp(err, "libast:", 7)) FAIL(site, "model:program-name", shape, "the message does not start with the program name \"libast:\": %.80s", err);
        if (check_out && strstr(p->name, "100%") && strstr(err, "100%") && !strstr(err, "100%%")) FAIL(site, "model:diagnostic-garbled", shape, "the condition's text was used as a format: %.160s", err);
        if (!strncmp(p->name, "if (", 4) && r.elses != (!strncmp(p->name, "if (false)", 10) ? 1 : 0)) FAIL(site, "model:control-flow", shape, "the else arm of the caller's if ran %d times with its condition %s", r.elses, !strncmp(p->name, "if (false)", 10) ? "false" : "true");
        if (p->gate >= G_ASSERT_T && p->gate <= G_REQUIRE_RVAL_F) {
            if (r.continued != want_cont) FAIL(site, "model:control-flow", shape, "the function %s after the statement, expected it to %s", r.continued ? "continued" : "returned", want_cont ? "continue" : "return");
            if (want_ret >= 0 && r.ret != want_ret) FAIL(site, "model:return-value", shape, "returned %d, expected %d", r.ret, want_ret);
        }
    }
    mc_nontrivial();
    mc_outcome((uint64_t) (check_out && total > 0) * 8 + (uint64_t) (r.bumps != 0) * 4 + (uint64_t) fatal * 2 + (uint64_t) r.continued + (uint64_t) (p->gate * 16));
}
int main(int argc, char **argv)
{
    mc_init("C20", argc, argv);
    NP = 0; for (int i = 0; i < NPROBES; i++) if (!PROBES[i].thorough_only || mc_thorough()) NP = i + 1;
    mc_info("alphabet", "build DEBUG=%d (%s): %d probes (D_OPTIONS/OBJ/CONF/MEM/STRINGS/PARSE/NEVER, DPRINTF, DPRINTF1..9, ASSERT/ASSERT_RVAL/ASSERT_NOTREACHED_RVAL/REQUIRE/REQUIRE_RVAL true and false and on a condition whose text holds %%, the three output primitives%s) "
            "x runtime levels {0..6, 9999} x silent {off, TRUE, 0x100} x {fresh process, after four refused output calls and the program name set to a client's and back}", BUILD, mc_arg("build", "?"), NP, mc_thorough() ? ", four in-library statements" : "");
    mc_e2_level("gate", BUILD, (uint64_t) NP * PER, g_case, g_desc, NULL);
    return mc_finish();
}
