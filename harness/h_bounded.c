/* h_bounded.c — C13: bounded and in-place string helpers are exact and stay inside.
 * E2: exhaustive enumeration of (size, src, dest-prefix), (string, idx, cnt) and all strings
 * of length <= L over a 7-symbol alphabet; reference transformations written here. */
#include "hcommon.h"
#include <locale.h>
#include <ctype.h>

static int L;                                   /* length bound */
static const unsigned char SYM[7] = { 'a', 'Z', ' ', '\t', '\n', 0x01, 0xE9 };
#define NSYM 7


static void esc(const char *s, char *out, size_t n) { mc_esc(s, s ? strlen(s) : 0, out, n); }

/* ------------------------------------------------------------------ safe_strncpy */
typedef struct { int size, srclen; } cpy_case;
static const int BIGS[] = { 127, 128, 129, 255, 256, 257, 4095, 4096, 4097, 32767, 32768, 32769, 65535, 65536, 65537 };     /* sizes where a narrow counter or a chunked copy would turn over */
#define NBIGS ((int) (sizeof BIGS / sizeof BIGS[0]))
static int g_big;
static void cpy_decode(uint64_t idx, cpy_case *c)
{
    if (g_big) { c->size = BIGS[idx / 4]; c->srclen = c->size - 2 + (int) (idx % 4); return; }
    int nsz = L + 4;                            /* sizes -1 .. L+2 */
    c->size = (int) (idx % (uint64_t) nsz) - 1;
    c->srclen = (int) (idx / (uint64_t) nsz);   /* 0 .. L+1 */
}
static void cpy_desc(uint64_t idx, void *ctx, char *buf, size_t n)
{
    cpy_case c; (void) ctx; cpy_decode(idx, &c);
    snprintf(buf, n, "spiftool_safe_strncpy(dest[%d bytes of '#'], src=%d letters, size=%d)", c.size > 0 ? c.size : 1, c.srclen, c.size);
}
static int g_src_utf8;             /* --src=utf8: the source is made of 2-, 3- and 4-byte UTF-8 sequences and a lone 0xA0 instead of letters (a copy is cut at the byte that does not fit, wherever that is) */
static void mk_src(char *src, int len) { static const char U[] = "\xc3\xa9\xe2\x82\xac\xf0\x9f\x98\x80\xa0"; for (int i = 0; i < len; i++) src[i] = g_src_utf8 ? U[i % 10] : (char) ('a' + i % 26); src[len] = 0; }

static void cpy_case_fn(uint64_t idx, void *ctx)
{
    mc_strings_prelude();
    cpy_case c; (void) ctx; cpy_decode(idx, &c);
    int alloc = c.size > 0 ? c.size : 1;
    char *src = malloc((size_t) c.srclen + 1); mk_src(src, c.srclen);
    char *dest = malloc((size_t) alloc); memset(dest, '#', (size_t) alloc);
    const char *shape = c.size <= 0 ? "size<=0" : (c.srclen <= c.size - 1 ? "src fits" : "src cut");
    mc_set_shape(shape);
    spif_bool_t r = spiftool_safe_strncpy((spif_charptr_t) dest, (spif_charptr_t) src, c.size);
    if (c.size <= 0) {
        if (r) FAIL("spiftool_safe_strncpy", "model:return", shape, "size %d must be refused, returned TRUE", c.size);
        if (dest[0] != '#') FAIL("spiftool_safe_strncpy", "model:refusal-changed-dest", shape, "dest written although size=%d", c.size);
    } else {
        int keep = c.srclen <= c.size - 1 ? c.srclen : c.size - 1;
        if (memcmp(dest, src, (size_t) keep) || dest[keep] != 0)
            FAIL("spiftool_safe_strncpy", "model:content", shape, "dest is not the longest fitting prefix (%d chars) + NUL", keep);
        for (int i = keep + 1; i < c.size; i++) if (dest[i] != '#') { FAIL("spiftool_safe_strncpy", "model:extra-write", shape, "byte %d beyond the terminator was written", i); break; }
        if ((r ? 1 : 0) != (c.srclen <= c.size - 1)) FAIL("spiftool_safe_strncpy", "model:return", shape, "returned %d, expected %d", (int) r, c.srclen <= c.size - 1);
        if (keep > 0 || !r) mc_nontrivial();
    }
    mc_outcome(mc_hash(dest, (size_t) alloc) * 3 + (uint64_t) r);
    free(src); free(dest);
}

/* ------------------------------------------------------------------ safe_strncat */
typedef struct { int size, destlen, srclen; } cat_case;
static uint64_t cat_count(void)
{
    uint64_t n = 0;
    for (int size = -1; size <= L + 2; size++) n += (uint64_t) ((size > 0 ? size : 1) + 2) * (uint64_t) (L + 2);
    return n;
}
static void cat_decode(uint64_t idx, cat_case *c)
{
    if (g_big) { int sz = BIGS[idx / 20], d = (int) ((idx / 5) % 4), r = (int) (idx % 5);
        c->size = sz; c->destlen = d == 0 ? 0 : (d == 1 ? sz / 2 : (d == 2 ? sz - 2 : sz - 1));
        int room = sz - c->destlen - 1; c->srclen = r == 0 ? 0 : (r == 1 ? 1 : (r == 2 ? (room > 0 ? room - 1 : 0) : (r == 3 ? room : room + 1))); return; }
    for (int size = -1; size <= L + 2; size++) {
        uint64_t per = (uint64_t) ((size > 0 ? size : 1) + 2) * (uint64_t) (L + 2);
        if (idx < per) { c->size = size; c->destlen = (int) (idx / (uint64_t) (L + 2)); c->srclen = (int) (idx % (uint64_t) (L + 2)); return; }
        idx -= per;
    }
    c->size = 1; c->destlen = 0; c->srclen = 0;
}
static void cat_desc(uint64_t idx, void *ctx, char *buf, size_t n)
{
    cat_case c; (void) ctx; cat_decode(idx, &c);
    snprintf(buf, n, "spiftool_safe_strncat(dest=buffer of %d bytes holding %d 'd' %s, src=%d letters, size=%d)", c.size > 0 ? c.size : 1,
             c.destlen, c.destlen >= (c.size > 0 ? c.size : 1) ? "(unterminated)" : "+NUL", c.srclen, c.size);
}
static void cat_case_fn(uint64_t idx, void *ctx)
{
    mc_strings_prelude();
    cat_case c; (void) ctx; cat_decode(idx, &c);
    int alloc = c.size > 0 ? c.size : 1;
    char *src = malloc((size_t) c.srclen + 1); mk_src(src, c.srclen);
    char *dest = malloc((size_t) alloc), *before = malloc((size_t) alloc);
    int dl = c.destlen > alloc ? alloc : c.destlen;
    memset(dest, '#', (size_t) alloc); memset(dest, 'd', (size_t) dl); if (dl < alloc) dest[dl] = 0;
    memcpy(before, dest, (size_t) alloc);
    const char *shape = c.size <= 0 ? "size<=0" : (dl >= alloc ? "dest unterminated" : (c.srclen <= c.size - dl - 1 ? "src fits" : "src cut"));
    mc_set_shape(shape);
    spif_bool_t r = spiftool_safe_strncat((spif_charptr_t) dest, (spif_charptr_t) src, c.size);
    if (c.size <= 0 || dl >= alloc) {
        if (r) FAIL("spiftool_safe_strncat", "model:return", shape, "must be refused, returned TRUE");
        if (memcmp(dest, before, (size_t) alloc)) FAIL("spiftool_safe_strncat", "model:refusal-changed-dest", shape, "dest changed by a refused call");
    } else {
        int room = c.size - dl - 1, keep = c.srclen <= room ? c.srclen : room;
        if (memcmp(dest, before, (size_t) dl) || memcmp(dest + dl, src, (size_t) keep) || dest[dl + keep] != 0)
            FAIL("spiftool_safe_strncat", "model:content", shape, "dest is not prefix + longest fitting part (%d chars) + NUL", keep);
        for (int i = dl + keep + 1; i < c.size; i++) if (dest[i] != '#') { FAIL("spiftool_safe_strncat", "model:extra-write", shape, "byte %d beyond the terminator was written", i); break; }
        if ((r ? 1 : 0) != (c.srclen <= room)) FAIL("spiftool_safe_strncat", "model:return", shape, "returned %d, expected %d", (int) r, c.srclen <= room);
        mc_nontrivial();
    }
    mc_outcome(mc_hash(dest, (size_t) alloc) * 3 + (uint64_t) r);
    free(src); free(dest); free(before);
}

/* ------------------------------------------------------------------ spiftool_substr */
/* convention table (DESIGN G3, Appendix A.1 applied to the C helper):
 *   idx < 0 counts from the end; start outside [0,len) is refused (NULL)           [fixed by statement]
 *   cnt <= 0 means "remaining + cnt"; a negative result is out of range -> refused [fixed: not an in-range slice]
 *   cnt > remaining is clamped to remaining                                         [pinned]                  */
typedef struct { int len, idx, cnt; } sub_case;
static void sub_decode(uint64_t i, sub_case *c)
{
    int w = 2 * (L + 2) + 1;
    c->cnt = (int) (i % (uint64_t) w) - (L + 2); i /= (uint64_t) w;
    c->idx = (int) (i % (uint64_t) w) - (L + 2); i /= (uint64_t) w;
    c->len = (int) i;
}
static void sub_desc(uint64_t i, void *ctx, char *buf, size_t n)
{
    sub_case c; char s[64]; (void) ctx; sub_decode(i, &c); mk_src(s, c.len);
    snprintf(buf, n, "spiftool_substr(\"%s\", idx=%d, cnt=%d)", s, c.idx, c.cnt);
}
static void sub_case_fn(uint64_t i, void *ctx)
{
    mc_strings_prelude();
    sub_case c; (void) ctx; sub_decode(i, &c);
    char *s = malloc((size_t) c.len + 1); mk_src(s, c.len);
    char *orig = strdup(s);
    int start = c.idx < 0 ? c.len + c.idx : c.idx;
    int refuse = (start < 0 || start >= c.len);
    int cnt = 0;
    const char *shape = "in range";
    if (refuse) shape = "start out of range";
    else {
        int rem = c.len - start;
        cnt = c.cnt <= 0 ? rem + c.cnt : c.cnt;
        if (cnt < 0) { refuse = 1; shape = "count below -remaining"; }
        else if (cnt > rem) { cnt = rem; shape = "count clamped"; }
    }
    mc_set_shape(shape);
    long live0 = mc_live_bytes();
    char *r = (char *) spiftool_substr((spif_charptr_t) s, c.idx, c.cnt);
    if (strcmp(s, orig)) FAIL("spiftool_substr", "model:source-changed", shape, "source string modified");
    if (refuse) {
        if (r) { char e[80]; esc(r, e, sizeof e); FAIL("spiftool_substr", "model:not-refused", shape, "expected NULL, got \"%s\"", e); }
        else if (mc_live_bytes() != live0) FAIL("spiftool_substr", "leak", shape, "refused call left %ld bytes allocated", mc_live_bytes() - live0);
    } else {
        if (!r) FAIL("spiftool_substr", "model:refused", shape, "expected a %d-char slice, got NULL", cnt);
        else if (strlen(r) != (size_t) cnt || memcmp(r, s + start, (size_t) cnt)) { char e[80]; esc(r, e, sizeof e); FAIL("spiftool_substr", "model:content", shape, "expected %d chars from %d, got \"%s\"", cnt, start, e); }
        mc_nontrivial();
    }
    mc_outcome(r ? mc_hash_str(r) : 5);
    free(r); free(s); free(orig);
}

/* ------------------------------------------------------------------ in-place helpers over all strings */
enum { F_CHOMP, F_CONDENSE, F_DOWN, F_UP, F_SAFE, F_REV, NFUNC };
static const char *FN[NFUNC] = { "spiftool_chomp", "spiftool_condense_whitespace", "spiftool_downcase_str", "spiftool_upcase_str", "spiftool_safe_str", "strrev" };

static void word(uint64_t idx, int len, char *out)
{
    int d[16]; mc_word_decode(idx, NSYM, len, d);
    for (int i = 0; i < len; i++) out[i] = (char) SYM[d[i]];
    out[len] = 0;
}
static void ref_apply(int f, const char *in, int k, char *out)
{
    size_t n = strlen(in);
    switch (f) {
    case F_CHOMP: {
        size_t a = 0, b = n;
        while (a < n && isspace((unsigned char) in[a])) a++;
        while (b > a && isspace((unsigned char) in[b - 1])) b--;
        memcpy(out, in + a, b - a); out[b - a] = 0; break;
    }
    case F_CONDENSE: {          /* each whitespace run -> one space; no trailing space (a leading run stays one space: pinned) */
        size_t o = 0; int sp = 0;
        for (size_t i = 0; i < n; i++) {
            if (isspace((unsigned char) in[i])) { if (!sp) out[o++] = ' '; sp = 1; }
            else { out[o++] = in[i]; sp = 0; }
        }
        if (o && out[o - 1] == ' ') o--;
        out[o] = 0; break;
    }
    case F_DOWN: for (size_t i = 0; i <= n; i++) out[i] = (char) tolower((unsigned char) in[i]); break;
    case F_UP:   for (size_t i = 0; i <= n; i++) out[i] = (char) toupper((unsigned char) in[i]); break;
    case F_SAFE: for (size_t i = 0; i <= n; i++) out[i] = (i < (size_t) k && iscntrl((unsigned char) in[i])) ? '.' : in[i]; break;
    case F_REV:  for (size_t i = 0; i < n; i++) out[i] = in[n - 1 - i]; out[n] = 0; break;
    }
}
static char *call(int f, char *s, int k)
{
    switch (f) {
    case F_CHOMP: return (char *) spiftool_chomp((spif_charptr_t) s);
    case F_CONDENSE: return (char *) spiftool_condense_whitespace((spif_charptr_t) s);
    case F_DOWN: return (char *) spiftool_downcase_str((spif_charptr_t) s);
    case F_UP: return (char *) spiftool_upcase_str((spif_charptr_t) s);
    case F_SAFE: return (char *) spiftool_safe_str((spif_charptr_t) s, (unsigned short) k);
    case F_REV: return strrev(s);
    }
    return NULL;
}
static const char *shape_of(const char *in)
{
    size_t n = strlen(in), ws = 0;
    for (size_t i = 0; i < n; i++) if (isspace((unsigned char) in[i])) ws++;
    if (!n) return "empty";
    if (ws == n) return "all whitespace";
    if (isspace((unsigned char) in[0]) && isspace((unsigned char) in[n - 1])) return "whitespace both ends";
    if (isspace((unsigned char) in[0])) return "leading whitespace";
    if (isspace((unsigned char) in[n - 1])) return "trailing whitespace";
    return ws ? "interior whitespace" : "no whitespace";
}
static int g_len;   /* level = string length */
static void inpl_desc(uint64_t idx, void *ctx, char *buf, size_t n)
{
    char s[32], e[128]; (void) ctx; word(idx, g_len, s); esc(s, e, sizeof e);
    snprintf(buf, n, "all in-place helpers on \"%s\" (heap-exact and guarded-interior buffers; safe_str for every k<=len)", e);
}
static void inpl_one(int f, const char *in, int k)
{
    char exp[32], e1[128], e2[128];
    size_t n = strlen(in);
    const char *shape = shape_of(in);
    ref_apply(f, in, k, exp);
    mc_set_shape(shape);
    /* variant 1: exact-size heap block — ASan sees s[-1] and s[n+1] */
    {
        char *s = mc_heapstr(in);
        char *r = call(f, s, k);
        if (!r) FAIL(FN[f], "model:return", shape, "returned NULL");
        else {
            if (f != F_CONDENSE && r != s) FAIL(FN[f], "model:return", shape, "did not return its argument");
            if (strcmp(r, exp)) { esc(r, e1, sizeof e1); esc(exp, e2, sizeof e2); FAIL(FN[f], "model:content", shape, "got \"%s\", reference \"%s\"", e1, e2); }
            if (strlen(r) > n) FAIL(FN[f], "model:lengthened", shape, "result longer than input");
            if (strcmp(r, in)) mc_nontrivial();
            mc_outcome(mc_hash_str(r) + (uint64_t) f);
            free(r);
        }
    }
    /* variant 2: the string sits inside a larger block between 0xC3 guard bytes */
    if (f != F_CONDENSE) {
        unsigned char blk[16 + 32 + 16];
        memset(blk, 0xC3, sizeof blk);
        char *s = (char *) blk + 16;
        memcpy(s, in, n + 1);
        char *r = call(f, s, k);
        if (r && strcmp(r, exp)) { esc(r, e1, sizeof e1); esc(exp, e2, sizeof e2); FAIL(FN[f], "model:content", shape, "interior buffer: got \"%s\", reference \"%s\"", e1, e2); }
        for (int i = 0; i < 16; i++) if (blk[i] != 0xC3) { FAIL(FN[f], "invariant:byte-before-start-touched", shape, "guard byte at offset %d before the string changed", i - 16); break; }
        for (size_t i = 16 + n + 1; i < sizeof blk; i++) if (blk[i] != 0xC3) { FAIL(FN[f], "invariant:byte-after-terminator-touched", shape, "guard byte %zu after the terminator changed", i - 16 - n); break; }
    }
    /* variant 3: the string starts at every offset of an 8-aligned block, between neighbours that every one of the maps would change ('Q', 'q', 0x01) */
    if (f != F_CONDENSE) {
        for (int off = 0; off < 8; off++) {
            unsigned char blk[16 + 8 + 32 + 16] __attribute__((aligned(8))), pat[sizeof blk];
            for (size_t i = 0; i < sizeof blk; i++) pat[i] = i % 3 == 0 ? 'Q' : (i % 3 == 1 ? 'q' : 0x01);
            memcpy(blk, pat, sizeof blk);
            char *s = (char *) blk + 16 + off;
            memcpy(s, in, n + 1);
            char *r = call(f, s, k);
            if (r && strcmp(r, exp)) { esc(r, e1, sizeof e1); esc(exp, e2, sizeof e2); FAIL(FN[f], "model:content", shape, "string at offset %d of an aligned block: got \"%s\", reference \"%s\"", off, e1, e2); }
            for (size_t i = 0; i < (size_t) (16 + off); i++) if (blk[i] != pat[i]) { FAIL(FN[f], "invariant:byte-before-start-touched", shape, "the byte %zu before a string at offset %d of an aligned block changed from 0x%02x to 0x%02x", 16 + off - i, off, pat[i], blk[i]); break; }
            for (size_t i = 16 + (size_t) off + n + 1; i < sizeof blk; i++) if (blk[i] != pat[i]) { FAIL(FN[f], "invariant:byte-after-terminator-touched", shape, "byte %zu after the terminator of a %zu-character string at offset %d of an aligned block changed from 0x%02x to 0x%02x", i - 16 - off - n, n, off, pat[i], blk[i]); break; }
        }
    }
}
static void inpl_case_fn(uint64_t idx, void *ctx)
{
    mc_strings_prelude();
    char in[32]; (void) ctx;
    word(idx, g_len, in);
    for (int f = 0; f < NFUNC; f++) {
        if (f == F_SAFE) { for (int k = 0; k <= g_len; k++) inpl_one(f, in, k); }
        else inpl_one(f, in, 0);
    }
}

/* ---- long runs: a run of n equal bytes (n around 127/255/256/4096/65536) at the start, in the middle, at the end of, or as the whole string */
static const int RUNS[] = { 127, 128, 255, 256, 257, 258, 511, 512, 513, 4095, 4096, 4097, 65535, 65536, 65537 };
#define NRUNS ((int) (sizeof RUNS / sizeof RUNS[0]))
static const unsigned char RUNC[6] = { ' ', '\t', 'a', 'Z', 0x01, 0xE9 };
static void run_decode(uint64_t idx, int *n, int *c, int *where) { *where = (int) (idx % 4); idx /= 4; *c = RUNC[idx % 6]; idx /= 6; *n = RUNS[idx % NRUNS]; }
static void run_desc(uint64_t idx, void *ctx, char *b, size_t n_)
{
    int n, c, w; (void) ctx; run_decode(idx, &n, &c, &w);
    static const char *wn[4] = { "\"ab\" + run + \"cd\"", "run + \"cd\"", "\"ab\" + run", "the run alone" };
    snprintf(b, n_, "all in-place helpers on %s with a run of %d bytes 0x%02x", wn[w], n, c);
}
static void run_case(uint64_t idx, void *ctx)
{
    mc_strings_prelude();
    int n, c, w; (void) ctx; run_decode(idx, &n, &c, &w);
    size_t len = (size_t) n + (w == 0 ? 4 : (w == 3 ? 0 : 2));
    char *in = malloc(len + 1), *exp = malloc(len + 1); size_t o = 0;
    if (w == 0 || w == 2) { in[o++] = 'a'; in[o++] = 'b'; }
    memset(in + o, c, (size_t) n); o += (size_t) n;
    if (w == 0 || w == 1) { in[o++] = 'c'; in[o++] = 'd'; }
    in[o] = 0;
    char shape[48]; snprintf(shape, sizeof shape, "run of %s bytes", n < 256 ? "fewer than 256" : (n < 4096 ? "256..4095" : (n < 65536 ? "4096..65535" : "65536 or more")));
    mc_set_shape(shape);
    for (int f = 0; f < NFUNC; f++) {
        int ks[3] = { 0, n / 2, len < 65535 ? (int) len : 65535 };        /* the count is the caller's: never beyond the string */
        for (int ki = 0; ki < (f == F_SAFE ? 3 : 1); ki++) {
            int k = ks[ki];
            ref_apply(f, in, k, exp);
            char *s = mc_heapstr(in);
            char *r = call(f, s, k);
            if (!r) FAIL(FN[f], "model:return", shape, "returned NULL");
            else {
                if (strcmp(r, exp)) { size_t d = 0; while (r[d] && r[d] == exp[d]) d++; FAIL(FN[f], "model:content", shape, "result (%zu bytes) differs from the reference (%zu bytes) at offset %zu", strlen(r), strlen(exp), d); }
                if (strlen(r) > len) FAIL(FN[f], "model:lengthened", shape, "result longer than input");
                free(r);
            }
        }
    }
    free(in); free(exp);
    mc_nontrivial();
    mc_outcome(idx);
}
/* ---- every byte value at every position of a 24-byte buffer, at every alignment of its start: safe_str, upcase_str and downcase_str are byte-by-byte maps */
static void bs_desc(uint64_t idx, void *ctx, char *b, size_t n) { (void) ctx; snprintf(b, n, "byte 0x%02x at position %d of \"ABCDefgh@[`{Zz09\\t\\n....\" (start at offset %d of an 8-aligned block), followed by 'Z': safe_str(24), upcase_str, downcase_str", (int) (idx % 256), (int) ((idx / 256) % 20), (int) (idx / 256 / 20)); }
static void bs_case(uint64_t idx, void *ctx)
{
    mc_strings_prelude();
    int c = (int) (idx % 256), pos = (int) ((idx / 256) % 20), off = (int) (idx / 256 / 20); (void) ctx;
    const char *shape = c >= 0x80 ? "byte above 0x7f" : (c < 0x20 || c == 0x7f ? "control byte" : "printable byte"); mc_set_shape(shape);
    static const unsigned char base[25] = "ABCDefgh@[`{Zz09\t\n\x7f\xc1\xe9\xdb@Z";
    unsigned char ref[25]; memcpy(ref, base, 25); ref[pos] = (unsigned char) c; if (pos + 1 < 24) ref[pos + 1] = 'Z';
    for (int fn = 0; fn < 3; fn++) {
        if (fn && memchr(ref, 0, 24)) continue;                         /* the case functions work on C strings */
        unsigned char *blk = malloc(8 + 25 + 8), *b = blk; while (((uintptr_t) b & 7) != 0) b++; b += off;
        memcpy(b, ref, 25); b[24] = fn ? 0 : '#';
        unsigned char exp[25]; memcpy(exp, b, 25);
        for (int i = 0; i < 24; i++) exp[i] = fn == 0 ? (iscntrl(exp[i]) ? '.' : exp[i]) : (unsigned char) (fn == 1 ? toupper(exp[i]) : tolower(exp[i]));
        spif_charptr_t r = fn == 0 ? spiftool_safe_str((spif_charptr_t) b, 24) : (fn == 1 ? spiftool_upcase_str((spif_charptr_t) b) : spiftool_downcase_str((spif_charptr_t) b));
        static const char *nm[3] = { "spiftool_safe_str", "spiftool_upcase_str", "spiftool_downcase_str" };
        if (r != (spif_charptr_t) b) FAIL(nm[fn], "model:return", shape, "did not return its argument");
        if (memcmp(b, exp, 25)) { int d = 0; while (b[d] == exp[d]) d++; FAIL(nm[fn], "model:content", shape, "byte %d is 0x%02x, the byte-by-byte map gives 0x%02x (input byte 0x%02x, start at offset %d)", d, b[d], exp[d], ref[d], off); }
        free(blk);
    }
    mc_nontrivial();
    mc_outcome((uint64_t) c);
}
/* ---- the in-place helpers on a string of 2^31 + 7 characters (plain optimised build: the whole string is checked afterwards, byte for byte) */
static const char *HG[4] = { "spiftool_upcase_str", "spiftool_downcase_str", "strrev", "spiftool_chomp" };
static void hg_desc(uint64_t idx, void *ctx, char *b, size_t n) { (void) ctx; snprintf(b, n, "%s on a string of 2^31 + 7 characters (aB. repeated%s)", HG[idx], idx == 3 ? ", blanks at both ends" : ""); }
static char hg_pat(size_t i) { return i % 3 == 0 ? 'a' : (i % 3 == 1 ? 'B' : '.'); }
static void hg_case(uint64_t idx, void *ctx)
{
    const size_t n = ((size_t) 1 << 31) + 7; (void) ctx; const char *shape = "string of 2^31 characters or more"; mc_set_shape(shape);
    char *s = malloc(n + 1); if (!s) return;
    for (size_t i = 0; i < n; i++) s[i] = hg_pat(i);
    s[n] = 0;
    if (idx == 3) { s[0] = ' '; s[1] = '\t'; s[n - 1] = '\n'; s[n - 2] = ' '; }
    char *r = idx == 0 ? (char *) spiftool_upcase_str((spif_charptr_t) s) : (idx == 1 ? (char *) spiftool_downcase_str((spif_charptr_t) s) : (idx == 2 ? strrev(s) : (char *) spiftool_chomp((spif_charptr_t) s)));
    if (!r) FAIL(HG[idx], "model:return", shape, "returned NULL");
    else if (idx == 3) {
        size_t rl = strlen(r);
        if (r != s || rl != n - 4 || r[0] != hg_pat(2) || r[rl - 1] != hg_pat(n - 3) || r[rl / 2] != hg_pat(rl / 2 + 2)) FAIL(HG[idx], "model:content", shape, "chomp leaves %zu characters starting with '%c', expected %zu characters starting with '%c' (two blanks stripped at each end, the text moved to the front)", rl, r[0], n - 4, hg_pat(2));
    } else {
        if (r != s) FAIL(HG[idx], "model:return", shape, "did not return its argument");
        size_t bad = n; for (size_t i = 0; i < n; i++) { char w = idx == 0 ? (char) toupper((unsigned char) hg_pat(i)) : (idx == 1 ? (char) tolower((unsigned char) hg_pat(i)) : hg_pat(n - 1 - i)); if (s[i] != w) { bad = i; break; } }
        if (bad != n) FAIL(HG[idx], "model:content", shape, "character %zu of %zu is '%c' after the call, the reference transformation gives another one", bad, n, s[bad]);
        if (s[n]) FAIL(HG[idx], "invariant:byte-after-terminator-touched", shape, "the terminator changed");
    }
    free(s);
    mc_nontrivial();
    mc_outcome(idx);
}
int main(int argc, char **argv)
{
    mc_init("C13", argc, argv);
    libast_debug_level = (unsigned) mc_dlevel();        /* --dlevel=N: the whole run at runtime debug level N (default 0) */
    if (mc_arg("only", NULL) && !strcmp(mc_arg("only", ""), "huge")) { mc_e2_level("huge_string", 1, 4, hg_case, hg_desc, NULL); return mc_finish(); }
    L = (int) mc_arg_int("L", mc_thorough() ? 7 : 4);
    if (L > 9) L = 9;
    g_src_utf8 = !strcmp(mc_arg("src", ""), "utf8");
    if (mc_arg("locale", NULL)) {           /* --locale=NAME: the whole run after setlocale(LC_ALL, NAME) - the helpers count bytes in every locale */
        if (!setlocale(LC_ALL, mc_arg("locale", ""))) { mc_info("locale", "locale %s is not installed: this run is skipped", mc_arg("locale", "")); return mc_finish(); }
        mc_info("locale", "setlocale(LC_ALL, \"%s\"): MB_CUR_MAX=%d", mc_arg("locale", ""), (int) MB_CUR_MAX);
    }
    mc_info("alphabet", "in-place: {a,Z,space,tab,newline,0x01,0xE9}^<=%d; strncpy/strncat: size -1..%d, src 0..%d, dest prefix 0..size+1; substr: len<=%d, idx,cnt in [-%d,%d]; in-place helpers on runs of 127..65537 equal bytes; strncpy/strncat with sizes 127..65537 and lengths at size-2..size+1",
            L, L + 2, L + 1, L, L + 2, L + 2);
    mc_e2_level("safe_strncpy", L, (uint64_t) (L + 4) * (uint64_t) (L + 2), cpy_case_fn, cpy_desc, NULL);
    mc_e2_level("safe_strncat", L, cat_count(), cat_case_fn, cat_desc, NULL);
    { uint64_t w = (uint64_t) (2 * (L + 2) + 1); mc_e2_level("substr", L, (uint64_t) (L + 1) * w * w, sub_case_fn, sub_desc, NULL); }
    for (g_len = 0; g_len <= L; g_len++)
        if (!mc_e2_level("inplace", g_len, mc_words_of_len(NSYM, g_len), inpl_case_fn, inpl_desc, NULL)) break;
    mc_e2_level("byte_sweep", 24, (uint64_t) 256 * 20 * 8, bs_case, bs_desc, NULL);
    mc_e2_level("inplace_runs", 65537, (uint64_t) NRUNS * 6 * 4, run_case, run_desc, NULL);
    g_big = 1;
    mc_e2_level("safe_strncpy_big", 65537, (uint64_t) NBIGS * 4, cpy_case_fn, cpy_desc, NULL);
    mc_e2_level("safe_strncat_big", 65537, (uint64_t) NBIGS * 20, cat_case_fn, cat_desc, NULL);
    g_big = 0;
    return mc_finish();
}
