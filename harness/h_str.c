/* h_str.c — C01: str / ustr objects are faithful character-sequence values under any history.
 * E1 (BFS over operation histories, canonical-key dedup, replay on a fresh object) plus an
 * E2/E3 system for the stream and descriptor constructors.  Compile with -DUSTR for ustr. */
#include "hcommon.h"
#include <ctype.h>
#include <limits.h>
#include <math.h>
#include <unistd.h>
#include <fcntl.h>
#include <sys/socket.h>
#include <errno.h>

#ifdef USTR
# define CLS "ustr"
# define F(n) spif_ustr_##n
typedef spif_ustr_t T;
typedef spif_ustridx_t IDX;
#else
# define CLS "str"
# define F(n) spif_str_##n
typedef spif_str_t T;
typedef spif_stridx_t IDX;
#endif

#define LMAX 96
static int L = 3;                       /* cap on text length for growing operations */
static char SIG[8]; static int NS;      /* alphabet */

/* ------------------------------------------------------------------ model */
typedef struct { T o; char m[LMAX + 1]; int n; long base; } st_t;

enum { K_NEW, K_NEW_PTR, K_NEW_BUFF, K_NEW_NUM,
       K_APP_OBJ, K_PRE_OBJ, K_APP_PTR, K_PRE_PTR, K_APP_CH, K_PRE_CH,
       K_SPLICE, K_SPLICE_PTR, K_TRIM, K_REV, K_UP, K_DOWN, K_CLEAR, K_SPRINTF, K_DONE, K_DONE_INIT, K_DONE_INIT_PTR, K_APP_SELF, K_PRE_SELF, K_SPLICE_SELF, K_SPLICE_OWN };
typedef struct { int k, a, b, c; const char *t; } op_t;
static op_t OPS[6000]; static int NOPS;
static const char *OTHERS[4] = { NULL /* new() */, "", "a", "B " };
static const char *PTRS[4] = { NULL, "", "a", " 7" };
static const char *INS[3] = { NULL, "", "aB" };
static char CT[64][4]; static int NCT;          /* constructor texts: all words of length <= 2 */
static const long NUMS[4] = { 0, -12, 1234567, LONG_MIN };

static void add(int k, int a, int b, int c, const char *t) { OPS[NOPS].k = k; OPS[NOPS].a = a; OPS[NOPS].b = b; OPS[NOPS].c = c; OPS[NOPS].t = t; NOPS++; }
static void build_ops(void)
{
    NCT = 0;
    strcpy(CT[NCT++], "");
    for (int i = 0; i < NS; i++) { CT[NCT][0] = SIG[i]; CT[NCT][1] = 0; NCT++; }
    for (int i = 0; i < NS; i++) for (int j = 0; j < NS; j++) { CT[NCT][0] = SIG[i]; CT[NCT][1] = SIG[j]; CT[NCT][2] = 0; NCT++; }
    add(K_NEW, 0, 0, 0, NULL);
    add(K_NEW_PTR, 0, 0, 0, NULL);
    for (int i = 0; i < NCT; i++) add(K_NEW_PTR, 0, 0, 0, CT[i]);
    { static const char *bt[4] = { "", "a", "aB", NULL };
      for (int i = 0; i < 4; i++) { int tl = bt[i] ? (int) strlen(bt[i]) : 0; int ks[4] = { 0, tl - 1, tl, tl + 3 };
        for (int j = 0; j < 4; j++) if (ks[j] >= 0 && !(j == 1 && ks[1] == ks[0]) && !(j == 2 && ks[2] == ks[0])) add(K_NEW_BUFF, ks[j], 0, 0, bt[i]); } }
    for (int i = 0; i < 4; i++) add(K_NEW_NUM, i, 0, 0, NULL);
    for (int i = 0; i < 4; i++) add(K_APP_OBJ, i, 0, 0, OTHERS[i]);
    for (int i = 0; i < 4; i++) add(K_PRE_OBJ, i, 0, 0, OTHERS[i]);
    for (int i = 0; i < 4; i++) add(K_APP_PTR, i, 0, 0, PTRS[i]);
    for (int i = 0; i < 4; i++) add(K_PRE_PTR, i, 0, 0, PTRS[i]);
    for (int i = 0; i < NS; i++) add(K_APP_CH, SIG[i], 0, 0, NULL);
    for (int i = 0; i < NS; i++) add(K_PRE_CH, SIG[i], 0, 0, NULL);
    for (int k = K_SPLICE; k <= K_SPLICE_PTR; k++)
        for (int i = -(L + 2); i <= L + 2; i++) for (int c = -(L + 2); c <= L + 2; c++) for (int t = 0; t < 3; t++) add(k, i, c, t, INS[t]);
    add(K_TRIM, 0, 0, 0, NULL); add(K_REV, 0, 0, 0, NULL); add(K_UP, 0, 0, 0, NULL); add(K_DOWN, 0, 0, 0, NULL);
    add(K_CLEAR, 'x', 0, 0, NULL);
    for (int i = 0; i < 5; i++) add(K_SPRINTF, i, 0, 0, NULL);
    add(K_DONE, 0, 0, 0, NULL); add(K_DONE_INIT, 0, 0, 0, NULL); add(K_DONE_INIT_PTR, 0, 0, 0, "B");
    add(K_APP_SELF, 0, 0, 0, NULL); add(K_PRE_SELF, 0, 0, 0, NULL); add(K_SPLICE_SELF, 0, 0, 0, NULL); add(K_SPLICE_SELF, 1, 1, 0, NULL);
    { static const int own[][3] = { { 0, 0, 0 }, { 0, 1, 1 }, { 1, 1, 0 }, { 0, 2, 1 }, { 1, 0, 1 }, { 0, 2, 2 } };
      for (int i = 0; i < 6; i++) add(K_SPLICE_OWN, own[i][0], own[i][1], own[i][2], NULL); }
}
static void op_name(int i, char *b, size_t n)
{
    op_t *o = &OPS[i]; char e[40];
    const char *t = o->t; if (t) mc_esc(t, strlen(t), e, sizeof e); else strcpy(e, "NULL");
    switch (o->k) {
    case K_NEW: snprintf(b, n, "new()"); break;
    case K_NEW_PTR: snprintf(b, n, t ? "new_from_ptr(\"%s\")" : "new_from_ptr(%s)", e); break;
    case K_NEW_BUFF: snprintf(b, n, t ? "new_from_buff(\"%s\",%d)" : "new_from_buff(%s,%d)", e, o->a); break;
    case K_NEW_NUM: snprintf(b, n, "new_from_num(%ld)", NUMS[o->a]); break;
    case K_APP_OBJ: snprintf(b, n, t ? "append(str \"%s\")" : "append(new())%s", t ? e : ""); break;
    case K_PRE_OBJ: snprintf(b, n, t ? "prepend(str \"%s\")" : "prepend(new())%s", t ? e : ""); break;
    case K_APP_PTR: snprintf(b, n, t ? "append_from_ptr(\"%s\")" : "append_from_ptr(%s)", e); break;
    case K_PRE_PTR: snprintf(b, n, t ? "prepend_from_ptr(\"%s\")" : "prepend_from_ptr(%s)", e); break;
    case K_APP_CH: snprintf(b, n, "append_char('%c')", o->a); break;
    case K_PRE_CH: snprintf(b, n, "prepend_char('%c')", o->a); break;
    case K_SPLICE: snprintf(b, n, t ? "splice(%d,%d,str \"%s\")" : "splice(%d,%d,%s)", o->a, o->b, e); break;
    case K_SPLICE_PTR: snprintf(b, n, t ? "splice_from_ptr(%d,%d,\"%s\")" : "splice_from_ptr(%d,%d,%s)", o->a, o->b, e); break;
    case K_TRIM: snprintf(b, n, "trim()"); break;
    case K_REV: snprintf(b, n, "reverse()"); break;
    case K_UP: snprintf(b, n, "upcase()"); break;
    case K_DOWN: snprintf(b, n, "downcase()"); break;
    case K_CLEAR: snprintf(b, n, "clear('x')"); break;
    case K_SPRINTF: { static const char *d[5] = { "sprintf(\"\")", "sprintf(\"%s\",\"a7\")", "sprintf(\"%d\",-5)", "sprintf(NULL)", "sprintf(\"%s\",\"\")" }; snprintf(b, n, "%s", d[o->a]); break; }
    case K_DONE: snprintf(b, n, "done()"); break;
    case K_DONE_INIT: snprintf(b, n, "done()+init()"); break;
    case K_DONE_INIT_PTR: snprintf(b, n, "done()+init_from_ptr(\"B\")"); break;
    case K_APP_SELF: snprintf(b, n, "append(self)"); break;
    case K_PRE_SELF: snprintf(b, n, "prepend(self)"); break;
    case K_SPLICE_SELF: snprintf(b, n, "splice(%d,%d,self)", o->a, o->b); break;
    case K_SPLICE_OWN: snprintf(b, n, "splice_from_ptr(%d,%d,own storage+%d)", o->a, o->b, o->c); break;
    }
}

static void *fresh(void) { st_t *s = calloc(1, sizeof *s); s->base = mc_live_bytes(); return s; }

static const char *shape_of(st_t *s)
{
    if (!s->o) return "unconstructed";
    if (!s->o->s) return "self=empty(NULL buffer)";
    if (s->n == 0) return "self=empty(allocated)";
    return "self=non-empty";
}

/* invariants I1/I2 + text equality with the model */
static void check_state(st_t *s, const char *site, const char *shape)
{
    T o = s->o;
    if (!o) return;
    if (!o->s) {
        if (o->len != 0 || o->size != 0) FAIL(site, "invariant:I1-null-buffer-nonzero-len-or-size", shape, "s==NULL but len=%ld size=%ld", (long) o->len, (long) o->size);
        if (s->n != 0) FAIL(site, "model:text", shape, "object is empty, model text has %d chars", s->n);
        return;
    }
    if (o->len != s->n) { FAIL(site, "model:len", shape, "len=%ld, model %d", (long) o->len, s->n); return; }
    if (o->size <= o->len) { FAIL(site, "invariant:I2-size-not-greater-than-len", shape, "size=%ld len=%ld", (long) o->size, (long) o->len); return; }
    size_t blk = mc_block_size(o->s);
    if (blk && (IDX) blk < o->size) { FAIL(site, "invariant:I2-size-exceeds-allocation", shape, "size=%ld but the block has %zu bytes", (long) o->size, blk); return; }
    if (blk && (IDX) blk <= o->len) { FAIL(site, "invariant:I2-len-exceeds-allocation", shape, "len=%ld but the block has %zu bytes", (long) o->len, blk); return; }
    if (o->s[o->len] != 0) { FAIL(site, "invariant:I2-not-terminated-at-len", shape, "s[len] = 0x%02x", (unsigned char) o->s[o->len]); return; }
    if ((int) strlen((char *) o->s) != s->n) { FAIL(site, "invariant:I2-strlen-differs-from-len", shape, "strlen=%zu len=%d", strlen((char *) o->s), s->n); return; }
    if (memcmp(o->s, s->m, (size_t) s->n)) {
        char e1[200], e2[200]; mc_esc(o->s, (size_t) s->n, e1, sizeof e1); mc_esc(s->m, (size_t) s->n, e2, sizeof e2);
        FAIL(site, "model:text", shape, "text \"%s\", model \"%s\"", e1, e2);
    }
}

static T mk_other(const char *t) { return t ? F(new_from_ptr)((spif_charptr_t) t) : F(new)(); }
static void model_set(st_t *s, const char *t, int n) { if (n > LMAX) n = LMAX; memmove(s->m, t, (size_t) n); s->m[n] = 0; s->n = n; }

/* model of splice normalisation (Appendix A.1): returns 1 if accepted */
static int splice_norm(int n, int *i, int *c)
{
    if (*i < 0) *i += n;
    if (*i < 0 || *i >= n) return 0;
    if (*c < 0) *c = *i + n + *c;
    if (*c < 0 || *c > n - *i) return 0;
    return 1;
}
static int would_len(st_t *s, op_t *o)
{
    switch (o->k) {
    case K_APP_OBJ: case K_PRE_OBJ: case K_APP_PTR: case K_PRE_PTR: return s->n + (o->t ? (int) strlen(o->t) : 0);
    case K_APP_CH: case K_PRE_CH: return s->n + 1;
    case K_APP_SELF: case K_PRE_SELF: return 2 * s->n;
    case K_SPLICE_SELF: { int i = o->a, c = o->b; if (!splice_norm(s->n, &i, &c)) return s->n; return 2 * s->n - c; }
    case K_SPLICE_OWN: { int i = o->a, c = o->b; if (!splice_norm(s->n, &i, &c)) return s->n; return 2 * s->n - c - o->c; }
    case K_SPLICE: case K_SPLICE_PTR: { int i = o->a, c = o->b; if (!splice_norm(s->n, &i, &c)) return s->n; return s->n - c + (o->t ? (int) strlen(o->t) : 0); }
    default: return s->n;
    }
}
static int enabled(void *vs, int op)
{
    st_t *s = vs; op_t *o = &OPS[op];
    if (o->k <= K_NEW_NUM) return s->o == NULL;
    if (!s->o) return 0;
    if (o->k == K_SPLICE || o->k == K_SPLICE_PTR) {
        if (s->n > L) return 0;                               /* over-long constructor results: no splice fan-out */
        if (abs(o->a) > s->n + 2 || abs(o->b) > s->n + 2) return 0;   /* window(n) */
    }
    if (o->k == K_SPLICE_OWN && (s->n <= o->c || s->n > L)) return 0;        /* the source is the tail of the object's own storage from offset c */
    if (would_len(s, o) > L && would_len(s, o) > s->n) return 0;
    return 1;
}

static void apply(void *vs, int op)
{
    st_t *s = vs; op_t *o = &OPS[op]; T self = s->o;
    char nm[120]; const char *shape = shape_of(s);
    spif_bool_t r = TRUE; int expect_r = 1, check_r = 1;
    mc_set_shape(shape);
    switch (o->k) {
    case K_NEW: s->o = F(new)(); model_set(s, "", 0); if (!s->o) FAIL(CLS "_new", "model:return", shape, "NULL"); check_r = 0; break;
    case K_NEW_PTR: { char *t = mc_heapstr(o->t); s->o = F(new_from_ptr)((spif_charptr_t) t); if (t) memset(t, '!', strlen(t)); free(t);
                      model_set(s, o->t ? o->t : "", o->t ? (int) strlen(o->t) : 0); if (!s->o) FAIL(CLS "_new_from_ptr", "model:return", shape, "NULL"); check_r = 0; break; }
    case K_NEW_BUFF: { char *t = mc_heapstr(o->t); s->o = F(new_from_buff)((spif_charptr_t) t, o->a); if (t) memset(t, '!', strlen(t)); free(t);
                       int tl = o->t ? (int) strlen(o->t) : 0; model_set(s, o->t ? o->t : "", o->a < tl ? o->a : tl);
                       if (!s->o) FAIL(CLS "_new_from_buff", "model:return", shape, "NULL");
                       else if (s->o->size < o->a) FAIL(CLS "_new_from_buff", "model:size", shape, "size %ld below the requested %d", (long) s->o->size, o->a);
                       check_r = 0; break; }
    case K_NEW_NUM: { char b[40]; snprintf(b, sizeof b, "%ld", NUMS[o->a]); s->o = F(new_from_num)(NUMS[o->a]); model_set(s, b, (int) strlen(b)); if (!s->o) FAIL(CLS "_new_from_num", "model:return", shape, "NULL"); check_r = 0; break; }
    case K_APP_OBJ: case K_PRE_OBJ: {
        T other = mk_other(o->t);
        /* the same call on a copy of the receiver with an argument that holds the same text in a buffer with spare capacity: the same result */
        T twin = F(dup)(self), other2 = NULL;
        if (o->t) { size_t tl2 = strlen(o->t); char *pad = calloc(1, tl2 + 9); memcpy(pad, o->t, tl2); other2 = F(new_from_buff)((spif_charptr_t) pad, (spif_stridx_t) (tl2 + 9)); free(pad); }
        if (twin && other2) { if (o->k == K_APP_OBJ) F(append)(twin, other2); else F(prepend)(twin, other2); }
        r = o->k == K_APP_OBJ ? F(append)(self, other) : F(prepend)(self, other);
        if (twin && other2) {
            const char *a1 = self->s ? (char *) self->s : "", *a2 = twin->s ? (char *) twin->s : "";
            if (twin->len != self->len || (twin->s && (size_t) twin->len != strlen(a2)) || strcmp(a1, a2)) FAIL(o->k == K_APP_OBJ ? CLS "_append" : CLS "_prepend", "model:argument-capacity", shape, "with an argument that has spare capacity the result has len=%ld (text length %zu), with an exactly sized argument len=%ld", (long) twin->len, strlen(a2), (long) self->len);
            if (twin->s && twin->size <= twin->len) FAIL(o->k == K_APP_OBJ ? CLS "_append" : CLS "_prepend", "invariant:size-not-above-len", shape, "size=%ld len=%ld after an argument with spare capacity", (long) twin->size, (long) twin->len);
        }
        if (twin) F(del)(twin); if (other2) F(del)(other2);
        if (other && other->s) memset(other->s, '!', (size_t) other->len);       /* the caller's object must not be aliased */
        F(del)(other);
        if (o->t) { char tmp[LMAX * 2 + 2]; int tl = (int) strlen(o->t);
            if (o->k == K_APP_OBJ) { memcpy(tmp, s->m, (size_t) s->n); memcpy(tmp + s->n, o->t, (size_t) tl); }
            else { memcpy(tmp, o->t, (size_t) tl); memcpy(tmp + tl, s->m, (size_t) s->n); }
            model_set(s, tmp, s->n + tl); }
        break; }
    case K_APP_PTR: case K_PRE_PTR: {
        char *t = mc_heapstr(o->t);
        r = o->k == K_APP_PTR ? F(append_from_ptr)(self, (spif_charptr_t) t) : F(prepend_from_ptr)(self, (spif_charptr_t) t);
        if (t) memset(t, '!', strlen(t)); free(t);
        if (!o->t) expect_r = 0;
        else { char tmp[LMAX * 2 + 2]; int tl = (int) strlen(o->t);
            if (o->k == K_APP_PTR) { memcpy(tmp, s->m, (size_t) s->n); memcpy(tmp + s->n, o->t, (size_t) tl); }
            else { memcpy(tmp, o->t, (size_t) tl); memcpy(tmp + tl, s->m, (size_t) s->n); }
            model_set(s, tmp, s->n + tl); }
        break; }
    case K_APP_CH: r = F(append_char)(self, (spif_char_t) o->a); s->m[s->n++] = (char) o->a; s->m[s->n] = 0; break;
    case K_PRE_CH: r = F(prepend_char)(self, (spif_char_t) o->a); memmove(s->m + 1, s->m, (size_t) s->n + 1); s->m[0] = (char) o->a; s->n++; break;
    case K_SPLICE: case K_SPLICE_PTR: {
        int i = o->a, c = o->b, ok = splice_norm(s->n, &i, &c);
        if (o->k == K_SPLICE) { T other = o->t ? F(new_from_ptr)((spif_charptr_t) o->t) : (T) NULL;
            r = F(splice)(self, o->a, o->b, other);
            if (other) { if (other->s) memset(other->s, '!', (size_t) other->len); F(del)(other); } }
        else { char *t = mc_heapstr(o->t); r = F(splice_from_ptr)(self, o->a, o->b, (spif_charptr_t) t); if (t) memset(t, '!', strlen(t)); free(t); }
        expect_r = ok;
        shape = ok ? "splice in range" : (s->n == 0 ? "splice on empty text" : "splice out of range");
        if (ok) { char tmp[LMAX * 2 + 2]; int tl = o->t ? (int) strlen(o->t) : 0;
            memcpy(tmp, s->m, (size_t) i); if (tl) memcpy(tmp + i, o->t, (size_t) tl); memcpy(tmp + i + tl, s->m + i + c, (size_t) (s->n - i - c));
            model_set(s, tmp, s->n - c + tl); }
        break; }
    case K_TRIM: { r = F(trim)(self); int a = 0, b = s->n; while (a < b && isspace((unsigned char) s->m[a])) a++; while (b > a && isspace((unsigned char) s->m[b - 1])) b--;
                   model_set(s, s->m + a, b - a); break; }
    case K_REV: r = F(reverse)(self); for (int i = 0, j = s->n - 1; i < j; i++, j--) { char t = s->m[i]; s->m[i] = s->m[j]; s->m[j] = t; } if (s->n == 0) check_r = 0; break;
    case K_UP: r = F(upcase)(self); for (int i = 0; i < s->n; i++) s->m[i] = (char) toupper((unsigned char) s->m[i]); break;
    case K_DOWN: r = F(downcase)(self); for (int i = 0; i < s->n; i++) s->m[i] = (char) tolower((unsigned char) s->m[i]); break;
    case K_CLEAR: r = F(clear)(self, (spif_char_t) o->a); memset(s->m, o->a, (size_t) s->n); break;
    case K_SPRINTF:
        switch (o->a) {
        case 0: r = F(sprintf)(self, (spif_charptr_t) ""); model_set(s, "", 0); break;
        case 1: r = F(sprintf)(self, (spif_charptr_t) "%s", "a7"); model_set(s, "a7", 2); break;
        case 2: r = F(sprintf)(self, (spif_charptr_t) "%d", -5); model_set(s, "-5", 2); break;
        case 3: r = F(sprintf)(self, (spif_charptr_t) NULL); model_set(s, "", 0); expect_r = 0; break;
        case 4: r = F(sprintf)(self, (spif_charptr_t) "%s", ""); model_set(s, "", 0); expect_r = 0; break;      /* a format that expands to nothing: refused, the object is left empty */
        }
        break;
    case K_APP_SELF: case K_PRE_SELF: { r = o->k == K_APP_SELF ? F(append)(self, self) : F(prepend)(self, self);        /* the object is its own argument */
        char tmp[LMAX * 2 + 2]; memcpy(tmp, s->m, (size_t) s->n); memcpy(tmp + s->n, s->m, (size_t) s->n); model_set(s, tmp, 2 * s->n); break; }
    case K_SPLICE_SELF: { int i = o->a, c = o->b, ok = splice_norm(s->n, &i, &c);
        r = F(splice)(self, o->a, o->b, self); expect_r = ok; shape = ok ? "splice with self" : "splice out of range";
        if (ok) { char tmp[LMAX * 3 + 2]; memcpy(tmp, s->m, (size_t) i); memcpy(tmp + i, s->m, (size_t) s->n); memcpy(tmp + i + s->n, s->m + i + c, (size_t) (s->n - i - c)); model_set(s, tmp, 2 * s->n - c); }
        break; }
    case K_SPLICE_OWN: { int i = o->a, c = o->b, ok = splice_norm(s->n, &i, &c), sl = s->n - o->c;      /* the caller's pointer stays valid until the call returns: splice builds the result in a new block */
        r = F(splice_from_ptr)(self, o->a, o->b, self->s + o->c); expect_r = ok; shape = ok ? "splice with a pointer into the object's own storage" : "splice out of range";
        if (ok) { char tmp[LMAX * 3 + 2]; memcpy(tmp, s->m, (size_t) i); memcpy(tmp + i, s->m + o->c, (size_t) sl); memcpy(tmp + i + sl, s->m + i + c, (size_t) (s->n - i - c)); model_set(s, tmp, s->n - c + sl); }
        break; }
    case K_DONE: r = F(done)(self); model_set(s, "", 0); if (self->s) FAIL(CLS "_done", "model:not-emptied", shape, "buffer still set after done()"); break;
    case K_DONE_INIT: F(done)(self); r = F(init)(self); model_set(s, "", 0); break;
    case K_DONE_INIT_PTR: F(done)(self); r = F(init_from_ptr)(self, (spif_charptr_t) "B"); model_set(s, "B", 1); break;
    }
    op_name(op, nm, sizeof nm);
    char site[96]; snprintf(site, sizeof site, CLS "_%.*s", (int) strcspn(nm, "("), nm);
    if (check_r && (r ? 1 : 0) != expect_r) FAIL(site, "model:return", shape, "returned %d, expected %d", (int) r, expect_r);
    check_state(s, site, shape);
}

/* ------------------------------------------------------------------ probe: every query in the reached state */
static int sgn(long v) { return v < 0 ? -1 : (v > 0 ? 1 : 0); }
static int cmpv(spif_cmp_t c) { return SPIF_CMP_IS_LESS(c) ? -1 : (SPIF_CMP_IS_GREATER(c) ? 1 : (SPIF_CMP_IS_EQUAL(c) ? 0 : 9)); }

static void probe(void *vs)
{
    st_t *s = vs; T o = s->o; const char *shape = shape_of(s); char e[200];
    if (!o) return;
    mc_set_shape(shape);
    int n = s->n, w = (n < L ? n : L) + 2;
    if ((int) F(get_len)(o) != n) FAIL(CLS "_get_len", "model:return", shape, "get_len=%ld model %d", (long) F(get_len)(o), n);
    if (F(get_size)(o) != o->size) FAIL(CLS "_get_size", "model:return", shape, "get_size differs from the field");
    /* index / rindex */
    for (int i = 0; i <= NS; i++) {
        char c = i < NS ? SIG[i] : 'z';
        const char *p = strchr(s->m, c), *q = strrchr(s->m, c);
        long ei = p ? p - s->m : n, er = q ? q - s->m : n;
        long gi = (long) F(index)(o, (spif_char_t) c), gr = (long) F(rindex)(o, (spif_char_t) c);
        if (gi != ei) FAIL(CLS "_index", "model:return", p ? "char present" : "char absent", "index('%c')=%ld expected %ld", c, gi, ei);
        if (gr != er) FAIL(CLS "_rindex", "model:return", q ? "char present" : "char absent", "rindex('%c')=%ld expected %ld", c, gr, er);
    }
    /* find / find_from_ptr */
    for (int i = 0; i <= NCT; i++) {
        const char *nd = i < NCT ? CT[i] : "zz";
        const char *p = strstr(s->m, nd); long ex = p ? p - s->m : n;
        char *hn = mc_heapstr(nd);
        long g1 = (long) F(find_from_ptr)(o, (spif_charptr_t) hn);
        T on = F(new_from_ptr)((spif_charptr_t) hn);
        long g2 = (long) F(find)(o, on);
        F(del)(on); free(hn);
        const char *sh = !*nd ? "empty needle" : (p ? "needle present" : "needle absent");
        if (g1 != ex) FAIL(CLS "_find_from_ptr", "model:return", sh, "find_from_ptr(\"%s\")=%ld expected %ld", nd, g1, ex);
        if (g2 != ex) FAIL(CLS "_find", "model:return", sh, "find(\"%s\")=%ld expected %ld", nd, g2, ex);
        { char *h2 = mc_heapstr(nd); T os = F(new_from_buff)((spif_charptr_t) h2, (IDX) (strlen(nd) + 40));        /* the same needle in an object with spare capacity */
          long g3 = (long) F(find)(o, os); F(del)(os); free(h2);
          if (g3 != ex) FAIL(CLS "_find", "model:return", sh, "find(\"%s\" held with spare capacity)=%ld expected %ld", nd, g3, ex); }
    }
    /* substr / substr_to_ptr over window(n)^2 */
    for (int i = -w; i <= w; i++) for (int c = -w; c <= w; c++) {
        int st = i < 0 ? i + n : i, ok = (st >= 0 && st < n), cnt = 0;
        if (ok) { cnt = c <= 0 ? n - st + c : c; if (cnt < 0) ok = 0; else if (cnt > n - st) cnt = n - st; }
        const char *sh = ok ? "slice in range" : (n == 0 ? "slice of empty text" : "slice out of range");
        T r = F(substr)(o, i, c);
        char *p = (char *) F(substr_to_ptr)(o, i, c);
        if (ok) {
            if (!r) FAIL(CLS "_substr", "model:refused", sh, "substr(%d,%d) refused, expected %d chars", i, c, cnt);
            else if (r->len != cnt || !r->s || memcmp(r->s, s->m + st, (size_t) cnt) || r->s[cnt] || r->size <= r->len)
                FAIL(CLS "_substr", "model:content", sh, "substr(%d,%d) wrong (len %ld size %ld)", i, c, (long) r->len, (long) r->size);
            if (!p) FAIL(CLS "_substr_to_ptr", "model:refused", sh, "substr_to_ptr(%d,%d) refused", i, c);
            else if ((int) strlen(p) != cnt || memcmp(p, s->m + st, (size_t) cnt)) FAIL(CLS "_substr_to_ptr", "model:content", sh, "substr_to_ptr(%d,%d) wrong", i, c);
        } else {
            if (r) FAIL(CLS "_substr", "model:not-refused", sh, "substr(%d,%d) on %d chars should be refused", i, c, n);
            if (p) FAIL(CLS "_substr_to_ptr", "model:not-refused", sh, "substr_to_ptr(%d,%d) on %d chars should be refused", i, c, n);
        }
        if (r) F(del)(r);
        free(p);
    }
    /* cmp family: every text of length <= 2, NULL, itself */
    for (int i = 0; i <= NCT + 1; i++) {
        const char *t = i < NCT ? CT[i] : (i == NCT ? NULL : s->m);
        char *ht = mc_heapstr(t);
        T ot = t ? F(new_from_ptr)((spif_charptr_t) ht) : (T) NULL;
        const char *sh = !t ? "other=NULL" : (i > NCT ? "other=same text" : "other=text");
        int e_cmp = t ? sgn(strcmp(s->m, t)) : 1, e_case = t ? sgn(strcasecmp(s->m, t)) : 1;
#define CK(fn, got, exp, ...) do { int g_ = cmpv(got); if (g_ != (exp)) { char d_[120]; snprintf(d_, sizeof d_, __VA_ARGS__); FAIL(CLS "_" #fn, "model:return", sh, "%s = %d expected %d", d_, g_, (exp)); } } while (0)
        CK(cmp, F(cmp)(o, ot), e_cmp, "cmp(\"%s\")", t ? t : "NULL");
        CK(comp, F(comp)(o, ot), e_cmp, "comp(\"%s\")", t ? t : "NULL");
        CK(casecmp, F(casecmp)(o, ot), e_case, "casecmp(\"%s\")", t ? t : "NULL");
        CK(cmp_with_ptr, F(cmp_with_ptr)(o, (spif_charptr_t) ht), e_cmp, "cmp_with_ptr(\"%s\")", t ? t : "NULL");
        CK(casecmp_with_ptr, F(casecmp_with_ptr)(o, (spif_charptr_t) ht), e_case, "casecmp_with_ptr(\"%s\")", t ? t : "NULL");
        for (int c = 0; c <= w; c++) {
            int e_n = t ? sgn(strncmp(s->m, t, (size_t) c)) : 1, e_nc = t ? sgn(strncasecmp(s->m, t, (size_t) c)) : 1;
            CK(ncmp, F(ncmp)(o, ot, c), e_n, "ncmp(\"%s\",%d)", t ? t : "NULL", c);
            CK(ncasecmp, F(ncasecmp)(o, ot, c), e_nc, "ncasecmp(\"%s\",%d)", t ? t : "NULL", c);
            CK(ncmp_with_ptr, F(ncmp_with_ptr)(o, (spif_charptr_t) ht, c), e_n, "ncmp_with_ptr(\"%s\",%d)", t ? t : "NULL", c);
            CK(ncasecmp_with_ptr, F(ncasecmp_with_ptr)(o, (spif_charptr_t) ht, c), e_nc, "ncasecmp_with_ptr(\"%s\",%d)", t ? t : "NULL", c);
        }
        if (ot) F(del)(ot);
        free(ht);
    }
    /* numeric conversion */
    { static const int bases[3] = { 0, 10, 16 };
      for (int b = 0; b < 3; b++) { size_t g = F(to_num)(o, bases[b]), ex = (size_t) strtoul(s->m, NULL, bases[b]);
        if (g != ex) FAIL(CLS "_to_num", "model:return", shape, "to_num(%d)=%zu expected %zu", bases[b], g, ex); }
      double g = F(to_float)(o), ex = strtod(s->m, NULL);
      if (!(g == ex || (isnan(g) && isnan(ex)))) FAIL(CLS "_to_float", "model:return", shape, "to_float=%g expected %g", g, ex); }
    /* dup: value equality and a well-formed copy (independence is C05) */
    { T d = F(dup)(o);
      if (!d) FAIL(CLS "_dup", "model:return", shape, "dup returned NULL");
      else { st_t tmp = *s; tmp.o = d; if (d == o) FAIL(CLS "_dup", "model:same-object", shape, "dup returned self"); else { check_state(&tmp, CLS "_dup", shape); F(del)(d); } } }
    /* show terminates and leaves the object alone */
    { spif_str_t b = (spif_str_t) F(show)(o, (spif_charptr_t) "probe", (void *) NULL, 2); if (!b) FAIL(CLS "_show", "model:return", shape, "show returned NULL"); else spif_str_del(b); }
    check_state(s, CLS "_queries", shape);
    mc_esc(s->m, (size_t) s->n, e, sizeof e);
}

static void canon(void *vs, char *b, size_t n)
{
    st_t *s = vs; T o = s->o; char e[400];
    if (!o) { snprintf(b, n, "<unconstructed>"); return; }
    if (!o->s) { snprintf(b, n, "E0(len=%ld,size=%ld)", (long) o->len, (long) o->size); return; }
    mc_esc(o->s, (size_t) (o->len < LMAX ? o->len : LMAX), e, sizeof e);
    long slack = o->size - o->len - 1; if (slack > 2) slack = 2;
    snprintf(b, n, "\"%s\" len=%ld slack=%ld", e, (long) o->len, slack);
}
static int g_warm;
static void teardown(void *vs)
{
    st_t *s = vs; if (s->o) F(del)(s->o);
#ifdef VERIF_LEAKRUN
    if (g_warm) { free(s); return; }
    /* the same histories as a C06 run: whatever the operations (refused ones included) allocated is gone once the object is deleted */
    long left = mc_live_bytes() - s->base;
    if (left) FAIL(CLS, "leak", "after the history", "%ld bytes still allocated after the object was deleted", left);
#endif
    free(s);
}

static void warm(void *ctx) { (void) ctx; g_warm = 1; st_t *w = fresh(); for (int op = 0; op < NOPS; op++) if (enabled(w, op)) { apply(w, op); break; } probe(w); teardown(w); g_warm = 0; }
static const mc_sys SYS = { CLS, 0, op_name, fresh, enabled, apply, probe, canon, teardown };

/* ------------------------------------------------------------------ stream / descriptor constructors (E2 x E3) */
/* The environment owns read(): each of the first k calls on the descriptor under test answers
 * {complete, 1 byte, half, EINTR}; deviations bounded (E3).  fgets() paths use fmemopen and pipes. */
static int g_hook_fd = -1;
ssize_t __real_read(int fd, void *buf, size_t n);
static int g_eio_at = -1, g_eio_seen, g_storm, g_storm_c;
ssize_t __wrap_read(int fd, void *buf, size_t n)
{
    if (fd == g_hook_fd && g_eio_at >= 0 && g_eio_seen++ >= g_eio_at) { errno = EIO; return -1; }          /* from this call on the descriptor fails hard */
    if (fd == g_hook_fd && g_storm && n > 0) { if (g_storm_c < g_storm) { g_storm_c++; errno = EINTR; return -1; } g_storm_c = 0; if (n > 1500) n = 1500; }      /* interrupt storm: g_storm EINTRs before every real read of <= 1500 bytes */
    if (fd == g_hook_fd && mc_e3_active() && n > 0) {
        int c = mc_choose(4);
        if (c == 1) n = 1;
        else if (c == 2) n = n > 1 ? n / 2 : 1;
        else if (c == 3) { errno = EINTR; return -1; }
    }
    return __real_read(fd, buf, n);
}
static const int LENS[] = { 0, 1, 2, 4094, 4095, 4096, 4097, 8191, 8192, 8193, 12300 };
#define NLENS ((int) (sizeof LENS / sizeof *LENS))
enum { SRC_FP_MEM, SRC_FP_PIPE, SRC_FD_PIPE, SRC_FD_SOCK, SRC_FD_FILE, NSRC };
static const char *SRCN[NSRC] = { "new_from_fp(fmemopen)", "new_from_fp(pipe)", "new_from_fd(pipe)", "new_from_fd(unix socket)", "new_from_fd(regular file)" };
typedef struct { int src, len, nlpos; } sc_t;      /* nlpos: -1 none, else position of an embedded newline */
static int sc_nlpos(int len, int k) { int p[5] = { 0, len / 2, 4095, 4096, len - 1 }; return (k == 0 || p[k - 1] >= len || p[k - 1] < 0) ? -1 : p[k - 1]; }
static void sc_decode(uint64_t idx, sc_t *c)
{
    c->src = (int) (idx % NSRC); idx /= NSRC;
    int k = (int) (idx % 6); idx /= 6;
    c->len = LENS[idx % NLENS];
    c->nlpos = sc_nlpos(c->len, k);
}
static void sc_desc(uint64_t idx, void *ctx, char *b, size_t n)
{
    sc_t c; (void) ctx; sc_decode(idx, &c);
    snprintf(b, n, CLS " %s on %d bytes, newline at %d, then append_char + trim", SRCN[c.src], c.len, c.nlpos);
}
static char *g_payload; static sc_t g_sc; static int g_k, g_dev;
static void fill_payload(char *p, int len, int nlpos)
{
    for (int i = 0; i < len; i++) p[i] = (char) ('A' + (i * 7 + i / 4096) % 26);
    if (len > 0) { p[0] = 'x'; p[len - 1] = 'y'; }      /* non-blank ends so trim is the identity on the full text */
    if (nlpos >= 0 && nlpos < len) p[nlpos] = '\n';
    if (nlpos >= 1 && nlpos < len) p[nlpos - 1] = '\r';      /* the character before the newline is a carriage return: a character of the line like any other */
    p[len] = 0;
}
static void sc_run(void *ctx)
{
    sc_t *c = &g_sc; int fds[2] = { -1, -1 }; FILE *fp = NULL; T o = NULL; char path[256] = "";
    (void) ctx;
    int is_fp = c->src <= SRC_FP_PIPE;
    const char *site = is_fp ? CLS "_new_from_fp" : CLS "_new_from_fd";
    const char *shape = c->len == 0 ? "empty input" : (c->len < 4096 ? "below one chunk" : (c->len == 4096 ? "exactly one chunk" : "more than one chunk"));
    mc_set_shape(shape);
    int explen = c->len;
    if (is_fp && c->nlpos >= 0) explen = c->nlpos;           /* pinned: one line, newline dropped */
    switch (c->src) {
    case SRC_FP_MEM: fp = c->len ? fmemopen(g_payload, (size_t) c->len, "r") : fopen("/dev/null", "r"); break;
    case SRC_FP_PIPE: case SRC_FD_PIPE:
        if (pipe(fds)) return;
        fcntl(fds[1], F_SETPIPE_SZ, 1 << 16);
        if (write(fds[1], g_payload, (size_t) c->len) != c->len) { close(fds[0]); close(fds[1]); return; }
        close(fds[1]); fds[1] = -1;
        if (c->src == SRC_FP_PIPE) fp = fdopen(fds[0], "r");
        break;
    case SRC_FD_SOCK:
        if (socketpair(AF_UNIX, SOCK_STREAM, 0, fds)) return;
        { int sz = 1 << 17; setsockopt(fds[1], SOL_SOCKET, SO_SNDBUF, &sz, sizeof sz); }
        if (write(fds[1], g_payload, (size_t) c->len) != c->len) { close(fds[0]); close(fds[1]); return; }
        close(fds[1]); fds[1] = -1;
        break;
    case SRC_FD_FILE: {
        const char *td = getenv("VERIF_SCRATCH"); snprintf(path, sizeof path, "%s/strfd-XXXXXX", td ? td : "/tmp");
        fds[0] = mkstemp(path); if (fds[0] < 0) return; unlink(path);
        if (write(fds[0], g_payload, (size_t) c->len) != c->len) { close(fds[0]); return; }
        lseek(fds[0], 0, SEEK_SET);
        break; }
    }
    if (is_fp) { if (!fp) return; o = F(new_from_fp)(fp); }
    else { g_hook_fd = fds[0]; o = F(new_from_fd)(fds[0]); g_hook_fd = -1; }
    st_t s; memset(&s, 0, sizeof s); s.o = o;
    if (!o) FAIL(site, "model:return", shape, "constructor returned NULL");
    else {
        /* long texts: compare directly instead of through the LMAX-sized model */
        if (!o->s) { if (explen != 0 || o->len || o->size) FAIL(site, "model:text", shape, "empty object for %d expected chars", explen); }
        else {
            if (o->len != explen) FAIL(site, "model:len", shape, "len=%ld expected %d", (long) o->len, explen);
            else if (o->size <= o->len) FAIL(site, "invariant:I2-size-not-greater-than-len", shape, "size=%ld len=%ld", (long) o->size, (long) o->len);
            else if (mc_block_size(o->s) && (IDX) mc_block_size(o->s) < o->size) FAIL(site, "invariant:I2-size-exceeds-allocation", shape, "size %ld block %zu", (long) o->size, mc_block_size(o->s));
            else if (o->s[o->len]) FAIL(site, "invariant:I2-not-terminated-at-len", shape, "no NUL at len");
            else if (memcmp(o->s, g_payload, (size_t) explen)) {
                int d = 0; while (d < explen && o->s[d] == g_payload[d]) d++;
                FAIL(site, "model:text", shape, "text differs from the input at offset %d of %d", d, explen);
            } else {
                /* two mutators: a wrong size left behind shows one step later */
                F(append_char)(o, 'q');
                if (o->len != explen + 1 || o->s[explen] != 'q' || o->s[explen + 1] || o->size <= o->len) FAIL(site, "model:followup-append", shape, "append_char after construction broke the value");
                F(trim)(o);
                int lead = 0; while (lead < explen && isspace((unsigned char) g_payload[lead])) lead++;     /* an embedded newline at position 0 is a blank start */
                if (o->len != explen + 1 - lead || memcmp(o->s, g_payload + lead, (size_t) (explen - lead)) || o->s[explen - lead] != 'q')
                    FAIL(site, "model:followup-trim", shape, "trim after construction: expected %d leading blanks stripped and nothing else", lead);
            }
        }
        F(del)(o);
    }
    if (fp) fclose(fp); else if (fds[0] >= 0) close(fds[0]);
    if (fds[1] >= 0) close(fds[1]);
    mc_outcome((uint64_t) explen * 31 + (uint64_t) c->src);
}
static void sc_case(uint64_t idx, void *ctx)
{
    (void) ctx; sc_decode(idx, &g_sc);
    g_payload = malloc((size_t) g_sc.len + 1);
    fill_payload(g_payload, g_sc.len, g_sc.nlpos);
    mc_e3_stats st;
    int is_fd = g_sc.src >= SRC_FD_PIPE;
    mc_e3_explore(sc_run, NULL, is_fd ? g_k : 0, is_fd ? g_dev : 0, &st);
    mc_stat_add("e3_executions", (long) st.executions);
    if (g_sc.len > 4095 || g_sc.nlpos >= 0) mc_nontrivial();
    free(g_payload); g_payload = NULL;
}


/* ------------------------------------------------------------------ descriptor constructors with a history, and with hard read errors */
/* (a) a big stream was read earlier in the same process (anything the reader keeps between calls has seen >= 32 kB), then an object is
 *     built from a second stream whose data is already queued; (b) init_from_fd on an object the caller keeps, with read() failing hard
 *     (EIO on the j-th call, a directory, a write-only descriptor): whatever it returns, the object must be consistent and usable. */
static int queue_stream(int kind, const char *data, int len, int fds[2])
{
    if (kind == 0) { if (pipe(fds)) return 0; fcntl(fds[1], F_SETPIPE_SZ, 1 << 20); }
    else { if (socketpair(AF_UNIX, SOCK_STREAM, 0, fds)) return 0; int sz = 1 << 20; setsockopt(fds[1], SOL_SOCKET, SO_SNDBUF, &sz, sizeof sz); setsockopt(fds[0], SOL_SOCKET, SO_RCVBUF, &sz, sizeof sz); }
    int off = 0; fcntl(fds[1], F_SETFL, O_NONBLOCK);
    while (off < len) { ssize_t w = write(fds[1], data + off, (size_t) (len - off)); if (w <= 0) break; off += (int) w; }
    close(fds[1]); fds[1] = -1;
    if (off != len) { close(fds[0]); return 0; }
    return 1;
}
static void check_text(T o, const char *pay, int explen, const char *site, const char *shape, const char *what)
{
    if (!o) { FAIL(site, "model:return", shape, "%s: constructor returned NULL", what); return; }
    if (!o->s) { if (explen) FAIL(site, "model:text", shape, "%s: empty object for %d expected characters", what, explen); return; }
    if (o->len != explen) FAIL(site, "model:len", shape, "%s: len=%ld expected %d", what, (long) o->len, explen);
    else if (o->size <= o->len || (mc_block_size(o->s) && (IDX) mc_block_size(o->s) < o->size) || o->s[o->len]) FAIL(site, "invariant:I2", shape, "%s: len=%ld size=%ld block=%zu", what, (long) o->len, (long) o->size, mc_block_size(o->s));
    else if (memcmp(o->s, pay, (size_t) explen)) { int d = 0; while (d < explen && o->s[d] == pay[d]) d++; FAIL(site, "model:text", shape, "%s: text differs from the input at offset %d of %d", what, d, explen); }
}
static const int H_FIRST[] = { 33000, 70000 }, H_SECOND[] = { 4097, 9000, 20000 };
static const int STORMS[] = { 30, 101, 300 };
static void sh_desc(uint64_t idx, void *ctx, char *b, size_t n)
{
    if (idx >= 24) { snprintf(b, n, CLS " new_from_fd(%s) on 10000 bytes where every read() is preceded by %d EINTR failures and moves at most 1500 bytes", (idx - 24) % 2 ? "unix socket" : "pipe", STORMS[(idx - 24) / 2]); return; }
    (void) ctx; int kind = (int) (idx % 2), f = H_FIRST[(idx / 2) % 2], sc = H_SECOND[(idx / 4) % 3], viafp = (int) (idx / 12);
    snprintf(b, n, CLS " %s(%s) on %d bytes, delete, then %s on %d bytes already queued", viafp ? "new_from_fp" : "new_from_fd", kind ? "unix socket" : "pipe", f, viafp ? "new_from_fp" : "new_from_fd", sc);
}
static void storm_case(uint64_t idx);
static void sh_case(uint64_t idx, void *ctx)
{
    if (idx >= 24) { storm_case(idx - 24); return; }
    (void) ctx; int kind = (int) (idx % 2), lens[2] = { H_FIRST[(idx / 2) % 2], H_SECOND[(idx / 4) % 3] }, viafp = (int) (idx / 12);
    const char *site = viafp ? CLS "_new_from_fp" : CLS "_new_from_fd";
    mc_set_shape("after a large stream");
    for (int step = 0; step < 2; step++) {
        char *pay = malloc((size_t) lens[step] + 1); fill_payload(pay, lens[step], -1);
        int fds[2] = { -1, -1 }; FILE *fp = NULL; T o;
        if (!queue_stream(kind, pay, lens[step], fds)) { free(pay); return; }
        if (viafp) { fp = fdopen(fds[0], "r"); o = F(new_from_fp)(fp); } else o = F(new_from_fd)(fds[0]);
        check_text(o, pay, lens[step], site, "after a large stream", step ? "second stream" : "first stream");
        if (o) { F(append_char)(o, 'q'); if (o->s && (o->len < 1 || o->s[o->len - 1] != 'q' || o->s[o->len] || o->size <= o->len)) FAIL(site, "model:followup-append", "after a large stream", "append_char after construction broke the value"); F(del)(o); }
        if (fp) fclose(fp); else close(fds[0]);
        free(pay);
    }
    mc_nontrivial();
    mc_outcome(idx);
}
static void storm_case(uint64_t i)
{
    int kind = (int) (i % 2); const char *site = CLS "_new_from_fd";
    mc_set_shape("interrupt storm");
    char *pay = malloc(10001); fill_payload(pay, 10000, -1);
    int fds[2] = { -1, -1 };
    if (!queue_stream(kind, pay, 10000, fds)) { free(pay); return; }
    g_hook_fd = fds[0]; g_storm = STORMS[i / 2]; g_storm_c = 0;
    T o = F(new_from_fd)(fds[0]);
    g_hook_fd = -1; g_storm = 0;
    check_text(o, pay, 10000, site, "interrupt storm", "stream under an interrupt storm");
    if (o) F(del)(o);
    close(fds[0]); free(pay);
    mc_nontrivial(); mc_outcome(100 + i);
}
/* (b) hard errors */
enum { HE_EIO0, HE_EIO1, HE_EIO2, HE_EIO3, HE_DIR, HE_WRONLY, NHE };
static void he_desc(uint64_t idx, void *ctx, char *b, size_t n)
{
    static const char *w[NHE] = { "read() fails with EIO at once", "EIO on the 2nd read()", "EIO on the 3rd read()", "EIO on the 4th read()", "the descriptor is a directory (EISDIR)", "the descriptor is write-only (EBADF)" };
    (void) ctx; snprintf(b, n, CLS " new_from_ptr(\"seed\"), done(), init_from_fd() on a 9000-byte pipe where %s; then append_char, then del", w[idx % NHE]);
}
static void he_case(uint64_t idx, void *ctx)
{
    (void) ctx; int he = (int) (idx % NHE); const char *site = CLS "_init_from_fd", *shape = "hard read error";
    mc_set_shape(shape);
    char *pay = malloc(9001); fill_payload(pay, 9000, -1);
    int fds[2] = { -1, -1 }, fd = -1;
    if (he <= HE_EIO3) { if (!queue_stream(0, pay, 9000, fds)) { free(pay); return; } fd = fds[0]; }
    else if (he == HE_DIR) fd = open("/", O_RDONLY);
    else { const char *td = getenv("VERIF_SCRATCH"); char path[256]; snprintf(path, sizeof path, "%s/wo-%d", td ? td : "/tmp", (int) getpid()); fd = open(path, O_WRONLY | O_CREAT, 0600); unlink(path); }
    T o = F(new_from_ptr)((void *) "seed");
    F(done)(o);
    g_hook_fd = fd; g_eio_at = he <= HE_EIO3 ? he : -1; g_eio_seen = 0;
    spif_bool_t r = F(init_from_fd)(o, fd);
    g_hook_fd = -1; g_eio_at = -1;
    (void) r;
    /* whatever was reported: (NULL,0,0) or a terminated text that is a prefix of what the descriptor delivered */
    if (!o->s) { if (o->len || o->size) FAIL(site, "invariant:empty-state", shape, "text pointer NULL with len=%ld size=%ld", (long) o->len, (long) o->size); }
    else if (o->len < 0 || o->size <= o->len || (mc_block_size(o->s) && (IDX) mc_block_size(o->s) < o->size) || o->s[o->len]) FAIL(site, "invariant:I2", shape, "len=%ld size=%ld block=%zu", (long) o->len, (long) o->size, mc_block_size(o->s));
    else if (he <= HE_EIO3 && (o->len > 9000 || memcmp(o->s, pay, (size_t) o->len))) FAIL(site, "model:text", shape, "the text is not a prefix of what was delivered");
    IDX before = o->len;
    F(append_char)(o, 'q');
    if (!o->s || o->len != before + 1 || o->s[before] != 'q' || o->s[o->len] || o->size <= o->len) FAIL(site, "model:followup-append", shape, "append_char after the failed read: len %ld -> %ld", (long) before, (long) o->len);
    F(del)(o);
    if (fd >= 0) close(fd);
    free(pay);
    mc_nontrivial();
    mc_outcome(idx);
}

/* ------------------------------------------------------------------ positions and counts at the far ends of the 64-bit index type */
static const long long EXT[] = { 0, 1, -1, 5, -5, 11, -11, 12, -12, 2147483647LL, 2147483648LL, 2147483649LL, -2147483647LL, -2147483648LL, -2147483649LL, 4294967291LL, 4294967296LL, 4294967301LL, -4294967291LL, -4294967296LL, -4294967301LL,
                                 3298534883339LL, -3298534883339LL, 9223372036854775807LL, -9223372036854775807LL - 1, -9223372036854775807LL, -9223372036854775803LL };
#define NEXT ((int) (sizeof EXT / sizeof EXT[0]))
static void ex_desc(uint64_t idx, void *ctx, char *b, size_t n) { (void) ctx; snprintf(b, n, CLS " \"hello world\": substr, substr_to_ptr, splice(\"XY\"), splice_from_ptr(\"XY\") with position %lld and count %lld", EXT[idx / NEXT], EXT[idx % NEXT]); }
static void ex_case(uint64_t idx, void *ctx)
{
    long long I = EXT[idx / NEXT], C = EXT[idx % NEXT]; (void) ctx;
    const char *text = "hello world"; const int n = 11;
    const char *shape = (I > 2147483647LL || I < -2147483648LL || C > 2147483647LL || C < -2147483648LL) ? "position or count beyond 32 bits" : "position and count within 32 bits";
    mc_set_shape(shape);
    /* the reference, in 128-bit arithmetic */
    __int128 st = I < 0 ? (__int128) I + n : I; int sub_ok = st >= 0 && st < n; __int128 sc = 0;
    if (sub_ok) { sc = C <= 0 ? (__int128) n - st + C : C; if (sc < 0) sub_ok = 0; else if (sc > n - st) sc = n - st; }
    __int128 si = st, spc = C; int spl_ok = si >= 0 && si < n;
    if (spl_ok) { if (spc < 0) spc = si + n + spc; if (spc < 0 || spc > n - si) spl_ok = 0; }
    { T o = F(new_from_ptr)((spif_charptr_t) text);
      T r = F(substr)(o, (IDX) I, (IDX) C); char *p = (char *) F(substr_to_ptr)(o, (IDX) I, (IDX) C);
      if (sub_ok) { if (!r || !r->s || r->len != (IDX) sc || memcmp(r->s, text + (int) st, (size_t) sc)) FAIL(CLS "_substr", "model:content", shape, "substr(%lld,%lld) is not the %d-character slice at %d", I, C, (int) sc, (int) st);
                    if (!p || strlen(p) != (size_t) sc || memcmp(p, text + (int) st, (size_t) sc)) FAIL(CLS "_substr_to_ptr", "model:content", shape, "substr_to_ptr(%lld,%lld) is not the %d-character slice at %d", I, C, (int) sc, (int) st); }
      else { if (r) FAIL(CLS "_substr", "model:not-refused", shape, "substr(%lld,%lld) on 11 characters must be refused", I, C); if (p) FAIL(CLS "_substr_to_ptr", "model:not-refused", shape, "substr_to_ptr(%lld,%lld) on 11 characters must be refused", I, C); }
      if (r) F(del)(r); free(p);
      if (strcmp((char *) o->s, text)) FAIL(CLS "_substr", "model:original-changed", shape, "the text changed");
      F(del)(o); }
    for (int via_ptr = 0; via_ptr < 2; via_ptr++) {
        T o = F(new_from_ptr)((spif_charptr_t) text), x = F(new_from_ptr)((spif_charptr_t) "XY");
        spif_bool_t r = via_ptr ? F(splice_from_ptr)(o, (IDX) I, (IDX) C, (spif_charptr_t) "XY") : F(splice)(o, (IDX) I, (IDX) C, x);
        const char *site = via_ptr ? CLS "_splice_from_ptr" : CLS "_splice";
        char exp[32];
        if (spl_ok) { memcpy(exp, text, (size_t) si); memcpy(exp + (int) si, "XY", 2); strcpy(exp + (int) si + 2, text + (int) (si + spc)); } else strcpy(exp, text);
        if ((r ? 1 : 0) != spl_ok) FAIL(site, spl_ok ? "model:refused" : "model:not-refused", shape, "splice(%lld,%lld) on 11 characters returned %d", I, C, (int) r);
        if (!o->s || strcmp((char *) o->s, exp) || o->len != (IDX) strlen(exp) || o->size <= o->len) FAIL(site, "model:content", shape, "after splice(%lld,%lld) the text is \"%.30s\" (len %ld), expected \"%s\"", I, C, o->s ? (char *) o->s : "(null)", (long) o->len, exp);
        F(del)(x); F(del)(o);
    }
    mc_nontrivial();
    mc_outcome((uint64_t) sub_ok * 2 + (uint64_t) spl_ok + idx * 4);
}

/* ------------------------------------------------------------------ the comparison family on characters from every band of the code table, and texts of numbers at the ends of the word */
static const char *CW[] = { "", "a", "A", "b", "Z", "z", "_", "[", "`", "@", "{", "^", "0", "a_", "aB", "A_", "ab", "AB", "a[", "foo_bar", "fooBar", "FOO`bar", "\xe9", "\xc9", "a\xe9" };
#define NCW ((int) (sizeof CW / sizeof CW[0]))
static void cw_desc(uint64_t idx, void *ctx, char *b, size_t n) { (void) ctx; snprintf(b, n, CLS " cmp, casecmp, ncmp, ncasecmp (and their _with_ptr twins, counts 0..8) of \"%s\" against \"%s\"", CW[idx / NCW], CW[idx % NCW]); }
static void cw_case(uint64_t idx, void *ctx)
{
    const char *x = CW[idx / NCW], *y = CW[idx % NCW]; (void) ctx;
    const char *shape = "comparison table"; mc_set_shape(shape);
    T o = F(new_from_ptr)((spif_charptr_t) x), ot = F(new_from_ptr)((spif_charptr_t) y); char *hy = mc_heapstr(y);
#define CW_CK(fn, got, exp, ...) do { int g_ = cmpv((got)), e_ = (exp); if (g_ != e_) { char w_[120]; snprintf(w_, sizeof w_, __VA_ARGS__); FAIL(CLS "_" #fn, "model:order", shape, "%s gives %d, the ideal comparison %d", w_, g_, e_); } } while (0)
    CW_CK(cmp, F(cmp)(o, ot), sgn(strcmp(x, y)), "cmp(\"%s\",\"%s\")", x, y);
    CW_CK(casecmp, F(casecmp)(o, ot), sgn(strcasecmp(x, y)), "casecmp(\"%s\",\"%s\")", x, y);
    CW_CK(cmp_with_ptr, F(cmp_with_ptr)(o, (spif_charptr_t) hy), sgn(strcmp(x, y)), "cmp_with_ptr(\"%s\",\"%s\")", x, y);
    CW_CK(casecmp_with_ptr, F(casecmp_with_ptr)(o, (spif_charptr_t) hy), sgn(strcasecmp(x, y)), "casecmp_with_ptr(\"%s\",\"%s\")", x, y);
    for (int c = 0; c <= 8; c++) {
        CW_CK(ncmp, F(ncmp)(o, ot, c), sgn(strncmp(x, y, (size_t) c)), "ncmp(\"%s\",\"%s\",%d)", x, y, c);
        CW_CK(ncasecmp, F(ncasecmp)(o, ot, c), sgn(strncasecmp(x, y, (size_t) c)), "ncasecmp(\"%s\",\"%s\",%d)", x, y, c);
        CW_CK(ncmp_with_ptr, F(ncmp_with_ptr)(o, (spif_charptr_t) hy, c), sgn(strncmp(x, y, (size_t) c)), "ncmp_with_ptr(\"%s\",\"%s\",%d)", x, y, c);
        CW_CK(ncasecmp_with_ptr, F(ncasecmp_with_ptr)(o, (spif_charptr_t) hy, c), sgn(strncasecmp(x, y, (size_t) c)), "ncasecmp_with_ptr(\"%s\",\"%s\",%d)", x, y, c);
    }
    free(hy); F(del)(ot); F(del)(o);
    if (idx / NCW != idx % NCW) mc_nontrivial();
    mc_outcome((uint64_t) (sgn(strcmp(x, y)) + 1) * 3 + (uint64_t) (sgn(strcasecmp(x, y)) + 1));
}
static const char *NT[] = { "0", "7", "-1", "+5", "  42", "077", "0x1F", "1e3", "zz", "", "2147483647", "2147483648", "4294967295", "4294967296", "-2147483649", "9223372036854775807", "9223372036854775808",
                            "18446744073709551615", "18446744073709551616", "-9223372036854775808", "-9223372036854775809", "0x7fffffffffffffff", "0x8000000000000000", "0xffffffffffffffff", "1777777777777777777777",
                            "3w5e11264sgsf", "3w5e11264sgsg", "1.5", "-0.0", "1e308", "1e309", "0x1p4", "nan", "inf", "12abc" };
#define NNT ((int) (sizeof NT / sizeof NT[0]))
static void nt_desc(uint64_t idx, void *ctx, char *b, size_t n) { (void) ctx; snprintf(b, n, CLS " \"%s\": to_num in bases 0, 8, 10, 16, 36 and to_float against strtoul/strtod; new_from_num/init_from_num of the parsed value", NT[idx]); }
static void nt_case(uint64_t idx, void *ctx)
{
    const char *x = NT[idx]; (void) ctx; static const int bases[5] = { 0, 8, 10, 16, 36 };
    const char *shape = strlen(x) >= 18 ? "number text at the ends of the 64-bit word" : "number text"; mc_set_shape(shape);
    T o = F(new_from_ptr)((spif_charptr_t) x);
    for (int b = 0; b < 5; b++) { size_t g = F(to_num)(o, bases[b]), ex = (size_t) strtoul(x, NULL, bases[b]);
        if (g != ex) FAIL(CLS "_to_num", "model:return", shape, "to_num(\"%s\", base %d)=%zu, strtoul gives %zu", x, bases[b], g, ex); }
    { double g = F(to_float)(o), ex = strtod(x, NULL);
      if (!(g == ex || (isnan(g) && isnan(ex)))) FAIL(CLS "_to_float", "model:return", shape, "to_float(\"%s\")=%g, strtod gives %g", x, g, ex); }
    if (strcmp((char *) o->s, x)) FAIL(CLS "_to_num", "model:original-changed", shape, "the text changed");
    { long v = strtol(x, NULL, 10); char ex[40]; snprintf(ex, sizeof ex, "%ld", v);
      T n = F(new_from_num)(v);
      if (!n || !n->s || strcmp((char *) n->s, ex) || n->len != (IDX) strlen(ex) || n->size <= n->len) FAIL(CLS "_new_from_num", "model:text", shape, "new_from_num(%ld) holds \"%.40s\"", v, n && n->s ? (char *) n->s : "(null)");
      if (n) F(del)(n); }
    F(del)(o);
    mc_nontrivial();
    mc_outcome(idx);
}

/* ------------------------------------------------------------------ long texts: every operation once on a text of n characters, n around 127/255/256/4096/65536 */
static const int LT[] = { 126, 127, 128, 254, 255, 256, 257, 4094, 4095, 4096, 4097, 32767, 32768, 65534, 65535, 65536, 65537 };
#define NLT ((int) (sizeof LT / sizeof LT[0]))
enum { LO_APP_CH, LO_PRE_CH, LO_APP_PTR, LO_PRE_PTR, LO_APP_OBJ, LO_SPLICE_MID, LO_SPLICE_PTR_END, LO_SPLICE_SHRINK, LO_REV, LO_UP, LO_DOWN, LO_TRIM, LO_SUBSTR, LO_INDEX, LO_FIND, LO_DUP_CMP, LO_CLEAR, LO_APP_SELF, NLO };
static const char *LON[NLO] = { "append_char('q')", "prepend_char('q')", "append_from_ptr(\"xy\")", "prepend_from_ptr(\"xy\")", "append(object \"xy\")", "splice(n/2,3,\"ZZZZ\")", "splice_from_ptr(n-2,2,\"wxyz\")", "splice(1,n-2,NULL)",
                                "reverse", "upcase", "downcase", "trim (text wrapped in blanks)", "substr(n-3,3) and substr(-n,n)", "index/rindex of the last character", "find of the 3-character suffix", "dup + cmp", "clear('c')", "append(self)" };
static void lt_desc(uint64_t idx, void *ctx, char *b, size_t n) { (void) ctx; snprintf(b, n, CLS " of %d characters: %s", LT[idx / NLO], LON[idx % NLO]); }
static void lt_check(T o, const char *exp, size_t el, const char *site, const char *shape, const char *what)
{
    if (!o->s) { FAIL(site, "model:text", shape, "%s: text pointer NULL for %zu expected characters", what, el); return; }
    if ((size_t) o->len != el) FAIL(site, "model:len", shape, "%s: len=%ld expected %zu", what, (long) o->len, el);
    else if (o->size <= o->len || (mc_block_size(o->s) && (IDX) mc_block_size(o->s) < o->size) || o->s[o->len]) FAIL(site, "invariant:I2", shape, "%s: len=%ld size=%ld block=%zu", what, (long) o->len, (long) o->size, mc_block_size(o->s));
    else if (memcmp(o->s, exp, el)) { size_t d = 0; while (d < el && o->s[d] == exp[d]) d++; FAIL(site, "model:text", shape, "%s: text differs from the ideal sequence at offset %zu of %zu", what, d, el); }
}
static void lt_case(uint64_t idx, void *ctx)
{
    int n = LT[idx / NLO], op = (int) (idx % NLO); (void) ctx;
    char shape[48]; snprintf(shape, sizeof shape, "text of %s characters", n < 256 ? "fewer than 256" : (n < 4096 ? "256..4095" : (n < 65536 ? "4096..65535" : "65536 or more")));
    mc_set_shape(shape);
    char site[64]; snprintf(site, sizeof site, CLS "_%.*s", (int) strcspn(LON[op], "( "), LON[op]);
    size_t cap = (size_t) 2 * (size_t) n + 64; char *m = malloc(cap), *e = malloc(cap);
    for (int i = 0; i < n; i++) m[i] = (char) ("abcdefghijklmnopqrstuvwxyzABCDEFGHIJKLMNOPQRSTUVWXYZ0123456789"[(i * 7 + i / 62) % 62]);
    m[n - 1] = '#';                       /* a last character that occurs nowhere else */
    m[n] = 0;
    if (op == LO_TRIM) { memmove(m + 2, m, (size_t) n - 4); m[0] = ' '; m[1] = '\t'; m[n - 2] = ' '; m[n - 1] = '\n'; }
    char *h = mc_heapstr(m);
    T o = F(new_from_ptr)((spif_charptr_t) h); free(h);
    if (!o) { FAIL(site, "model:return", shape, "new_from_ptr returned NULL"); free(m); free(e); return; }
    size_t el = (size_t) n; memcpy(e, m, (size_t) n + 1);
    switch (op) {
    case LO_APP_CH: F(append_char)(o, 'q'); e[el++] = 'q'; break;
    case LO_PRE_CH: F(prepend_char)(o, 'q'); memmove(e + 1, e, el); e[0] = 'q'; el++; break;
    case LO_APP_PTR: F(append_from_ptr)(o, (spif_charptr_t) "xy"); memcpy(e + el, "xy", 2); el += 2; break;
    case LO_PRE_PTR: F(prepend_from_ptr)(o, (spif_charptr_t) "xy"); memmove(e + 2, e, el); memcpy(e, "xy", 2); el += 2; break;
    case LO_APP_OBJ: { T x = F(new_from_ptr)((spif_charptr_t) "xy"); F(append)(o, x); F(del)(x); memcpy(e + el, "xy", 2); el += 2; break; }
    case LO_SPLICE_MID: { T x = F(new_from_ptr)((spif_charptr_t) "ZZZZ"); if (!F(splice)(o, (IDX) (n / 2), 3, x)) FAIL(site, "model:return", shape, "splice in range refused"); F(del)(x);
        memmove(e + n / 2 + 4, e + n / 2 + 3, el - (size_t) (n / 2 + 3)); memcpy(e + n / 2, "ZZZZ", 4); el += 1; break; }
    case LO_SPLICE_PTR_END: if (!F(splice_from_ptr)(o, (IDX) (n - 2), 2, (spif_charptr_t) "wxyz")) FAIL(site, "model:return", shape, "splice in range refused"); memcpy(e + n - 2, "wxyz", 4); el += 2; break;
    case LO_SPLICE_SHRINK: if (!F(splice)(o, 1, (IDX) (n - 2), (T) NULL)) FAIL(site, "model:return", shape, "splice in range refused"); e[1] = e[n - 1]; el = 2; break;
    case LO_REV: F(reverse)(o); for (size_t i = 0, j = el - 1; i < j; i++, j--) { char t = e[i]; e[i] = e[j]; e[j] = t; } break;
    case LO_UP: F(upcase)(o); for (size_t i = 0; i < el; i++) e[i] = (char) toupper((unsigned char) e[i]); break;
    case LO_DOWN: F(downcase)(o); for (size_t i = 0; i < el; i++) e[i] = (char) tolower((unsigned char) e[i]); break;
    case LO_TRIM: F(trim)(o); memmove(e, e + 2, el - 4); el -= 4; break;
    case LO_SUBSTR: { T a = F(substr)(o, (IDX) (n - 3), 3), b = F(substr)(o, (IDX) -n, (IDX) n);
        if (!a || !a->s || a->len != 3 || memcmp(a->s, m + n - 3, 3)) FAIL(site, "model:return", shape, "substr(n-3,3) is not the last three characters");
        if (!b || !b->s || (int) b->len != n || memcmp(b->s, m, (size_t) n)) FAIL(site, "model:return", shape, "substr(-n,n) is not the whole text");
        if (a) F(del)(a); if (b) F(del)(b); break; }
    case LO_INDEX: if ((long) F(index)(o, '#') != n - 1 || (long) F(rindex)(o, '#') != n - 1) FAIL(site, "model:return", shape, "index/rindex of the last character: %ld / %ld, expected %d", (long) F(index)(o, '#'), (long) F(rindex)(o, '#'), n - 1);
        if ((long) F(index)(o, '\x01') != n) FAIL(site, "model:return", shape, "index of an absent character is %ld, expected the length %d", (long) F(index)(o, '\x01'), n); break;
    case LO_FIND: { long g = (long) F(find_from_ptr)(o, (spif_charptr_t) (m + n - 3)); if (g != n - 3) FAIL(site, "model:return", shape, "find of the suffix is %ld, expected %d", g, n - 3);
        g = (long) F(find_from_ptr)(o, (spif_charptr_t) "#absent"); if (g != n) FAIL(site, "model:return", shape, "find of an absent text is %ld, expected the length %d", g, n); break; }
    case LO_DUP_CMP: { T d = F(dup)(o); if (!d || d == o) FAIL(site, "model:return", shape, "dup failed"); else { lt_check(d, e, el, site, shape, "copy"); if (!SPIF_CMP_IS_EQUAL(F(cmp)(o, d))) FAIL(site, "model:return", shape, "cmp(original, copy) is not EQUAL");
        F(append_char)(d, 'z'); if (!SPIF_CMP_IS_LESS(F(cmp)(o, d))) FAIL(site, "model:return", shape, "the text does not sort before itself + 'z'"); F(del)(d); } break; }
    case LO_CLEAR: F(clear)(o, 'c'); memset(e, 'c', el); break;
    case LO_APP_SELF: F(append)(o, o); memcpy(e + el, e, el); el *= 2; break;
    }
    e[el] = 0;
    lt_check(o, e, el, site, shape, "after the operation");
    F(append_char)(o, '!'); e[el++] = '!'; e[el] = 0;           /* a wrong capacity left behind shows one step later */
    lt_check(o, e, el, site, shape, "after a following append_char");
    F(del)(o);
    free(m); free(e);
    mc_nontrivial();
    mc_outcome(idx);
}

/* ------------------------------------------------------------------ sprintf: every formatted length up to a bound (internal probe/retry buffers have sizes of their own) */
static void sp_desc(uint64_t idx, void *ctx, char *b, size_t n) { (void) ctx; static const char *f[3] = { "\"%s\" with a string of n characters", "\"%*d\" with width n", "\"<%s>\" with a string of n characters" }; snprintf(b, n, CLS " sprintf(%s), n=%d, then the same on an object that already holds text", f[idx % 3], (int) (idx / 3)); }
static void sp_case(uint64_t idx, void *ctx)
{
    int n = (int) (idx / 3), form = (int) (idx % 3); (void) ctx;
    char *arg = malloc((size_t) n + 1), *exp = malloc((size_t) n + 16);
    for (int i = 0; i < n; i++) arg[i] = (char) ('A' + (i * 11 + i / 64) % 26);
    arg[n] = 0;
    const char *shape = n < 2 ? "formatted length below 2" : (n < 64 ? "formatted length below 64" : (n < 4096 ? "formatted length 64..4095" : "formatted length 4096 or more"));
    mc_set_shape(shape);
    for (int pre = 0; pre < 2; pre++) {
        T o = pre ? F(new_from_ptr)((void *) "previous text") : F(new)();
        spif_bool_t r; size_t el;
        if (form == 0) { r = F(sprintf)(o, (spif_charptr_t) "%s", arg); el = (size_t) sprintf(exp, "%s", arg); }
        else if (form == 1) { r = F(sprintf)(o, (spif_charptr_t) "%*d", n, 7); el = (size_t) sprintf(exp, "%*d", n, 7); }
        else { r = F(sprintf)(o, (spif_charptr_t) "<%s>", arg); el = (size_t) sprintf(exp, "<%s>", arg); }
        if (el == 0) { if (o->s && o->len) FAIL(CLS "_sprintf", "model:len", shape, "empty result but len=%ld", (long) o->len); }
        else if (!r) FAIL(CLS "_sprintf", "model:return", shape, "sprintf returned FALSE for a %zu-character result", el);
        else if (!o->s || (size_t) o->len != el || memcmp(o->s, exp, el) || o->s[o->len] != 0 || o->size <= o->len) {
            size_t d = 0; while (o->s && d < el && d < (size_t) o->len && ((unsigned char *) o->s)[d] == (unsigned char) exp[d]) d++;
            FAIL(CLS "_sprintf", "model:content", shape, "formatted result of %zu characters: len=%ld size=%ld, first difference at offset %zu", el, (long) o->len, (long) o->size, d);
        }
        F(del)(o);
    }
    free(arg); free(exp);
    if (n) mc_nontrivial();
}

/* ------------------------------------------------------------------ find: every text and needle over two letters, so that needles overlap themselves */
#define FO_HMAX 8
#define FO_NMAX 4
static void fo_decode(uint64_t idx, char *h, int *hl) { int l = 0; uint64_t base = 0; while (idx >= base + (1ull << l)) { base += 1ull << l; l++; } uint64_t v = idx - base; for (int i = 0; i < l; i++) h[i] = (v >> i & 1) ? 'B' : 'a'; h[l] = 0; *hl = l; }
static void fo_desc(uint64_t idx, void *ctx, char *b, size_t n) { char h[FO_HMAX + 1]; int hl; (void) ctx; fo_decode(idx, h, &hl); snprintf(b, n, CLS " find / find_from_ptr in \"%s\" of every needle of 1..%d letters over {a,B}", h, FO_NMAX); }
static void fo_case(uint64_t idx, void *ctx)
{
    char h[FO_HMAX + 1], nd[FO_NMAX + 1]; int hl, nl; (void) ctx; fo_decode(idx, h, &hl);
    char *hh = mc_heapstr(h); T o = F(new_from_ptr)((spif_charptr_t) hh); free(hh); if (!o) return;
    uint64_t oc = 0;
    for (uint64_t j = 1; j < (2ull << FO_NMAX) - 1; j++) {
        fo_decode(j, nd, &nl);
        const char *p = strstr(h, nd); long ex = p ? p - h : hl;
        const char *sh = nl > hl ? "needle longer than text" : (p ? "needle present" : "needle absent"); mc_set_shape(sh);
        char *hn = mc_heapstr(nd);
        long g1 = (long) F(find_from_ptr)(o, (spif_charptr_t) hn); T on = F(new_from_ptr)((spif_charptr_t) hn); long g2 = on ? (long) F(find)(o, on) : ex; if (on) F(del)(on); free(hn);
        if (g1 != ex) FAIL(CLS "_find_from_ptr", "model:return", sh, "find_from_ptr(\"%s\") in \"%s\" = %ld expected %ld", nd, h, g1, ex);
        if (g2 != ex) FAIL(CLS "_find", "model:return", sh, "find(\"%s\") in \"%s\" = %ld expected %ld", nd, h, g2, ex);
        oc = oc * 31 + (uint64_t) ex;
    }
    F(del)(o);
    mc_nontrivial();
    mc_outcome(oc);
}
/* ------------------------------------------------------------------ texts whose lengths are 2^31 and more apart */
static const long long HUGE_DIFF[] = { 2147483647LL, 2147483648LL, 2147483649LL, 4294967296LL, 4294967297LL };
static void hs_desc(uint64_t idx, void *ctx, char *b, size_t n) { (void) ctx; snprintf(b, n, CLS " cmp/comp/casecmp/cmp_with_ptr of \"a\" with a text of 1 + %lld letters a, both directions", HUGE_DIFF[idx]); }
static void hs_case(uint64_t idx, void *ctx)
{
    long long bigl = HUGE_DIFF[idx] + 1; (void) ctx; const char *shape = "equal prefix, lengths 2^31 or more apart"; mc_set_shape(shape);
    T a = F(new_from_ptr)((spif_charptr_t) "a"), b = F(new)();
    char *blk = malloc((size_t) bigl + 1);
    if (!blk) { F(del)(a); F(del)(b); return; }
    memset(blk, 'a', (size_t) bigl); blk[bigl] = 0;
    b->s = (spif_charptr_t) blk; b->len = (spif_stridx_t) bigl; b->size = (spif_stridx_t) bigl + 1;          /* the object takes the block over (del frees it) */
    int ab = cmpv(F(cmp)(a, b)), ba = cmpv(F(cmp)(b, a));
    if (ab != -1 || ba != 1) FAIL(CLS "_cmp", "model:return", shape, "cmp(short,long)=%d cmp(long,short)=%d", ab, ba);
    ab = cmpv(F(comp)(a, b)); ba = cmpv(F(comp)(b, a));
    if (ab != -1 || ba != 1) FAIL(CLS "_comp", "model:return", shape, "comp(short,long)=%d comp(long,short)=%d", ab, ba);
    ab = cmpv(F(casecmp)(a, b)); ba = cmpv(F(casecmp)(b, a));
    if (ab != -1 || ba != 1) FAIL(CLS "_casecmp", "model:return", shape, "casecmp(short,long)=%d casecmp(long,short)=%d", ab, ba);
    ab = cmpv(F(cmp_with_ptr)(a, (spif_charptr_t) blk)); ba = cmpv(F(cmp_with_ptr)(b, (spif_charptr_t) "a"));
    if (ab != -1 || ba != 1) FAIL(CLS "_cmp_with_ptr", "model:return", shape, "cmp_with_ptr(short,long)=%d cmp_with_ptr(long,short)=%d", ab, ba);
    F(del)(a); F(del)(b);
    mc_nontrivial();
    mc_outcome(idx);
}
int main(int argc, char **argv)
{
#ifdef VERIF_LEAKRUN
    mc_init("C06", argc, argv);
#else
    mc_init("C01", argc, argv);
#endif
    libast_debug_level = (unsigned) mc_dlevel();        /* --dlevel=N: the whole run at runtime debug level N (default 0) */
    if (mc_arg("only", NULL) && !strcmp(mc_arg("only", ""), "huge")) { mc_e2_level(CLS "_huge_length_difference", 1, 5, hs_case, hs_desc, NULL); return mc_finish(); }
    L = (int) mc_arg_int("L", mc_thorough() ? 5 : 3);
    NS = (int) mc_arg_int("sigma", mc_thorough() ? 4 : 3);
    memcpy(SIG, "aB 7", 4); SIG[NS] = 0;
    build_ops();
    mc_info("alphabet", CLS ": sigma={%s} L=%d opcodes=%d (constructors, append/prepend obj/ptr/char, splice(_from_ptr) over window(n)^2 x {NULL,\"\",\"aB\"}, trim, reverse, case, clear, sprintf x4, done, re-init); "
            "probe: index/rindex, find(_from_ptr), substr(_to_ptr) window^2, cmp family, to_num, to_float, dup, show", SIG, L, NOPS);
    mc_sys sys = SYS; sys.n_ops = NOPS;
#ifdef VERIF_LEAKRUN
    mc_guarded(CLS, "warm-up: construct, run every query once, delete (one-time stdio/libc allocations must precede the first baseline)", warm, NULL);
#endif
    int maxd = (int) mc_arg_int("depth", 40);
    if (!mc_arg("only", NULL) || !strcmp(mc_arg("only", ""), "e1")) mc_e1_run(&sys, maxd);
    g_k = (int) mc_arg_int("k", mc_thorough() ? 6 : 4);
    g_dev = (int) mc_arg_int("dev", 2);
    if (!mc_arg("only", NULL) || !strcmp(mc_arg("only", ""), "ctor"))
        mc_e2_level(CLS "_stream_ctor", g_k * 10 + g_dev, (uint64_t) NSRC * 6 * NLENS, sc_case, sc_desc, NULL);
    if (!mc_arg("only", NULL)) mc_e2_level(CLS "_extreme_index", 64, (uint64_t) NEXT * NEXT, ex_case, ex_desc, NULL);
    if (!mc_arg("only", NULL)) { mc_e2_level(CLS "_comparison_table", NCW, (uint64_t) NCW * NCW, cw_case, cw_desc, NULL); mc_e2_level(CLS "_number_texts", NNT, (uint64_t) NNT, nt_case, nt_desc, NULL); }
    if (!mc_arg("only", NULL)) mc_e2_level(CLS "_find_two_letters", FO_HMAX, (2ull << FO_HMAX) - 1, fo_case, fo_desc, NULL);
    if (!mc_arg("only", NULL)) mc_e2_level(CLS "_long_text", 65537, (uint64_t) NLT * NLO, lt_case, lt_desc, NULL);
    if (!mc_arg("only", NULL)) { mc_e2_level(CLS "_stream_history", 1, 30, sh_case, sh_desc, NULL); mc_e2_level(CLS "_fd_hard_error", 1, NHE, he_case, he_desc, NULL); }
    if (!mc_arg("only", NULL)) { int maxn = (int) mc_arg_int("spmax", mc_thorough() ? 9000 : 4200); mc_e2_level(CLS "_sprintf_len", maxn, (uint64_t) (maxn + 1) * 3, sp_case, sp_desc, NULL); }
    return mc_finish();
}
