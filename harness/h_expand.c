/* h_expand.c — C10: config value expansion is a pure function of line, environment and var store.
 * (A) E2 over all concatenations of <= N fragments (ordinary characters, quotes, backslashes,
 *     $-forms, %-calls) x HOME settings against a reference expander; every call is made twice
 *     under two stack/heap fills (purity) and on an exact-size heap input where the result fits
 *     (over-read); (B) E1 over %put/%get histories against a dictionary; (C) length-limit cases. */
#include "confcommon.h"
#include <ctype.h>
#include <fcntl.h>

static char g_edir[300], g_odir[300], g_frag_e[330], g_frag_o[330];     /* an empty directory and one holding the single regular file "f" */
static const char *FRAG[48] = { "a", " ", "~", "\\n", "\\\\", "\\'", "\\", "'", "\"", "$V", "${V}", "$(V)", "$E", "$U", "${U}", "${V", "$", "$VV",
                              "%appname()", "%version()", "%random(w)", "%get(k)", "%get(k d)", "%get(", ")", "%", "(", "x" };
static int NFRAG = 28;
static const char *HOMES[3] = { "/h", "", NULL };
static int g_n;

/* ------------------------------------------------------------------ reference expander (DESIGN Appendix A.7) */
typedef struct { int ok; int foreign_percent; char out[CONFIG_BUFF + 64]; size_t n; } ref_t;
static const char *m_store_get(const char *k);
static void r_put(ref_t *r, const char *t, size_t n) { for (size_t i = 0; i < n; i++) if (r->n < CONFIG_BUFF - 1) r->out[r->n++] = t[i]; }
static int builtin_index(const char *p, size_t *namelen)
{
    static const char *names[] = { "appname", "version", "exec", "random", "get", "put", "dirscan" };
    for (int k = 0; k < 7; k++) { size_t l = strlen(names[k]); if (!strncasecmp(names[k], p, l) && (p[l] == '(' || (p[l] == ' ' && p[l + 1] == ')'))) { *namelen = l; return k; } }
    return -1;
}
static int ref_expand(const char *s, ref_t *r);
/* the word grammar the built-ins split their argument with (as in h_tokens.c / DESIGN A.8): whitespace-separated,
 * a word that opens with a quote runs to the matching quote, a backslash makes a following quote literal */
static int ref_words(const char *s, char w[3][1200])
{
    size_t i = 0; int n = 0;
    while (s[i] && isspace((unsigned char) s[i])) i++;
    while (s[i]) {
        char q = 0; size_t o = 0;
        if (s[i] == '"' || s[i] == '\'') q = s[i++];
        while (s[i] && (q ? s[i] != q : !isspace((unsigned char) s[i]))) { if (s[i] == '\\' && (s[i + 1] == '"' || s[i + 1] == '\'')) i++; if (n < 3 && o < 1199) w[n][o++] = s[i]; i++; }
        if (s[i] == '"' || s[i] == '\'') i++;
        if (n < 3) w[n][o] = 0;
        n++;
        while (s[i] && isspace((unsigned char) s[i])) i++;
    }
    return n;
}
/* what a command contributes: its output with every whitespace run condensed to one blank and no trailing blank; nothing if it printed nothing */
static void ref_exec(const char *cmd, ref_t *r)
{
    char out[2100], c[2100]; size_t o = 0; int sp = 0;
    { long big = emu_big(cmd); if (big >= 0) { for (long i = 0; i < big && r->n < CONFIG_BUFF - 1; i++) r_put(r, "x", 1); return; } }
    { long gap = emu_gap(cmd); if (gap >= 0) { r_put(r, gap ? "a b" : "ab", gap ? 3 : 2); return; } }
    emu_output(cmd, out, sizeof out);
    if (!out[0]) return;
    for (size_t i = 0; out[i]; i++) { if (isspace((unsigned char) out[i])) { if (!sp) c[o++] = ' '; sp = 1; } else { c[o++] = out[i]; sp = 0; } }
    if (o && c[o - 1] == ' ') o--;
    r_put(r, c, o);
}
static int ref_builtin(int k, const char *arg, ref_t *r)
{
    ref_t *a = calloc(1, sizeof *a); int ok = ref_expand(arg, a);
    if (!ok) { r->foreign_percent |= a->foreign_percent; free(a); return 0; }
    a->out[a->n] = 0;
    r->foreign_percent |= a->foreign_percent;
    switch (k) {
    case 0: r_put(r, "verif-1.0", 9); break;
    case 1: r_put(r, "1.0", 3); break;
    case 3: { /* random: one word -> that word; several words -> outside the stateless oracle */ char w[3][1200]; int n = ref_words(a->out, w); if (n == 1) r_put(r, w[0], strlen(w[0])); else if (n > 1) r->foreign_percent = 1; break; }
    case 4: { char w[3][1200]; int n = ref_words(a->out, w);
              if (n >= 1 && n <= 2) { const char *v = m_store_get(w[0]); if (v) r_put(r, v, strlen(v)); else if (n == 2) r_put(r, w[1], strlen(w[1])); }
              break; }                     /* more than two words: syntax error, nothing is substituted */
    case 6: { char w[3][64 + 300]; (void) w;      /* dirscan: names of the regular files, each followed by a blank; "" for an empty directory */
              const char *d = a->out; while (*d == ' ') d++;
              if (!strcmp(d, g_odir)) r_put(r, "f ", 2); else if (strcmp(d, g_edir)) r->foreign_percent = 1;
              break; }
    case 2: ref_exec(a->out, r); break;
    default: r->foreign_percent = 1; break;       /* put is not in the stateless alphabet */
    }
    free(a);
    return 1;
}
static int ref_expand(const char *s, ref_t *r)
{
    int in_single = 0, in_double = 0; size_t i = 0;
    while (s[i]) {
        char c = s[i];
        if (c == '~') { const char *h = g_home; if (!in_single && !in_double && h && *h) r_put(r, h, strlen(h)); else r_put(r, "~", 1); i++; }
        else if (c == '\\') {
            char nx = s[i + 1];
            if (!nx) { r_put(r, "\\", 1); i++; }
            else if (!in_single || nx == '\'') {
                char o = nx;
                switch (tolower((unsigned char) nx)) { case 'n': o = '\n'; break; case 'r': o = '\r'; break; case 't': o = '\t'; break; case 'b': o = '\b'; break; case 'f': o = '\f'; break; case 'a': o = '\a'; break; case 'v': o = '\v'; break; case 'e': o = '\033'; break; }
                r_put(r, &o, 1); i += 2;
            } else { r_put(r, s + i, 2); i += 2; }
        }
        else if (c == '%') {
            size_t l; int k = builtin_index(s + i + 1, &l);
            if (k < 0) { r->foreign_percent = 1; if (s[i + 1]) { r_put(r, s + i + 1, 1); i += 2; } else { r_put(r, "%", 1); i++; } }
            else {
                size_t p = i + 1 + l; if (s[p] != '(') p++;
                p++; int depth = 1; size_t start = p;
                while (s[p] && depth) { if (s[p] == '(') depth++; else if (s[p] == ')') depth--; p++; }
                if (depth) return 0;                                   /* mismatched parentheses: the call is refused */
                char *arg = malloc(p - start); memcpy(arg, s + start, p - start - 1); arg[p - start - 1] = 0;
                int ok = ref_builtin(k, arg, r); free(arg);
                if (!ok) return 0;
                i = p;
            }
        }
        else if (c == '$') {
            if (in_single) { r_put(r, "$", 1); i++; }
            else {
                char name[130]; size_t k = 0; i++;
                if (s[i] == '{' || s[i] == '(') { char close = s[i] == '{' ? '}' : ')'; i++; while (s[i] && s[i] != close && k < 127) name[k++] = s[i++]; if (s[i] == close) i++; }
                else while ((isalnum((unsigned char) s[i]) || s[i] == '_') && k < 127) name[k++] = s[i++];
                name[k] = 0;
                const char *v = __wrap_getenv(name);
                if (v && *v) r_put(r, v, strlen(v));
            }
        }
        else if (c == '`') {
            if (in_single) { r_put(r, "`", 1); i++; }
            else {          /* the command runs to the closing backquote (or the end of the text), is expanded itself, and is replaced by its output */
                size_t e = i + 1; while (s[e] && s[e] != '`') e++;
                char *cmd = malloc(e - i); memcpy(cmd, s + i + 1, e - i - 1); cmd[e - i - 1] = 0;
                ref_t *a = calloc(1, sizeof *a); int ok = ref_expand(cmd, a); a->out[a->n] = 0; r->foreign_percent |= a->foreign_percent;
                if (ok) ref_exec(a->out, r); else r->foreign_percent = 1;
                free(a); free(cmd);
                i = s[e] ? e + 1 : e;
            }
        }
        else if (c == '"') { if (!in_single) in_double = !in_double; r_put(r, "\"", 1); i++; }
        else if (c == '\'') { in_single = !in_single; r_put(r, "'", 1); i++; }
        else { r_put(r, &c, 1); i++; }
    }
    return 1;
}

/* ------------------------------------------------------------------ (A) stateless enumeration */
static void build_input(uint64_t idx, char *buf, size_t n, int *home)
{
    int d[8]; *home = (int) (idx % 3); mc_word_decode(idx / 3, NFRAG, g_n, d);
    size_t o = 0; buf[0] = 0;
    for (int i = 0; i < g_n; i++) o += (size_t) snprintf(buf + o, n - o, "%s", FRAG[d[i]]);
}
static void a_desc(uint64_t idx, void *ctx, char *b, size_t n)
{
    char in[1400], e[2000]; int h; (void) ctx; build_input(idx, in, sizeof in, &h); mc_esc(in, strlen(in), e, sizeof e);
    snprintf(b, n, "spifconf_shell_expand(\"%s\") with HOME=%s, V=val, VV=\"x y\", E=\"\", U unset", e, HOMES[h] ? (HOMES[h][0] ? HOMES[h] : "\"\"") : "unset");
}
static const char *shape_of(const char *in)
{
    size_t n = strlen(in);
    if (n && in[n - 1] == '\\') return "ends in a backslash";
    if (n && in[n - 1] == '%') return "ends in %";
    if (n && in[n - 1] == '$') return "ends in $";
    if (strstr(in, "${V") && !strstr(in, "${V}")) return "unterminated ${";
    if (strstr(in, "%get(") && !strchr(strstr(in, "%get("), ')')) return "unbalanced %-call";
    if (strchr(in, '$')) return strchr(in, '\'') ? "$-form with single quotes" : "$-form";
    if (strchr(in, '%')) return "%-call";
    if (strchr(in, '~')) return "tilde";
    if (strchr(in, '\\')) return "escape";
    return "plain";
}
static __attribute__((noinline)) char *expand_in(const char *in, size_t blk, int fill, char **keep)
{
    char *s = malloc(blk); memset(s, 0xEE, blk); memcpy(s, in, strlen(in) + 1);
    *keep = s;
    mc_dirty_heap(fill);
    mc_dirty_stack(fill, 3 * CONFIG_BUFF);
    env_new_epoch();
    g_env_on = 1; g_allow_fork = 0; g_exec_emul = 1;          /* commands are emulated (confcommon.h): no process is started */
    g_rand_on = 1; g_rand_value = fill == 0xA5 ? RAND_MAX : 0;  /* the two runs of a case see the two ends of rand()'s range: a one-word %random has one answer */
    char *r = (char *) spifconf_shell_expand((spif_charptr_t) s);
    g_env_on = 0; g_allow_fork = 1; g_exec_emul = 0; g_rand_on = 0;
    return r;
}
static void a_case(uint64_t idx, void *ctx)
{
    char in[1400]; int h; (void) ctx; build_input(idx, in, sizeof in, &h);
    g_home = HOMES[h];
    const char *shape = shape_of(in);
    mc_set_shape(shape);
    static ref_t R; memset(&R, 0, sizeof(int) * 2); R.n = 0;
    g_env_on = 1; int ok = ref_expand(in, &R); g_env_on = 0; R.out[R.n] = 0;
    size_t inlen = strlen(in);
    /* exact-size input block whenever the result fits into it, else a line buffer as the API requires */
    size_t blk = (ok && R.n <= inlen) ? inlen + 1 : CONFIG_BUFF;
    char *k1, *k2; g_spawns = 0; g_errors = 0;
    int fd_before = open("/dev/null", O_RDONLY); if (fd_before >= 0) close(fd_before);
    char *r1 = expand_in(in, blk, 0xA5, &k1);
    char res1[2048]; int null1 = (r1 == NULL); if (r1) snprintf(res1, sizeof res1, "%s", r1);
    char *r2 = expand_in(in, blk, 0x5A, &k2);
    char e1[2600], e2[2600];
    if (null1 != (r2 == NULL) || (r1 && r2 && strcmp(res1, r2))) { mc_esc(res1, strlen(res1), e1, sizeof e1); mc_esc(r2 ? r2 : "", r2 ? strlen(r2) : 0, e2, sizeof e2);
        FAIL("spifconf_shell_expand", "nondeterministic", shape, "result \"%s\" with memory filled with 0xA5, \"%s\" with 0x5A", null1 ? "(NULL)" : e1, r2 ? e2 : "(NULL)"); }
    else if (!ok) { if (r1) { /* refusal is the reference answer for mismatched parentheses; the text must then be untouched */ FAIL("spifconf_shell_expand", "model:not-refused", shape, "mismatched parentheses but a result was returned"); } }
    else if (!r1) FAIL("spifconf_shell_expand", "model:refused", shape, "returned NULL for a well-formed value");
    else {
        if (strlen(r1) >= CONFIG_BUFF) FAIL("spifconf_shell_expand", "model:too-long", shape, "result has %zu characters", strlen(r1));
        if (!R.foreign_percent && strcmp(res1, R.out)) { mc_esc(res1, strlen(res1), e1, sizeof e1); mc_esc(R.out, R.n, e2, sizeof e2); FAIL("spifconf_shell_expand", "model:value", shape, "result \"%s\", the expansion rules give \"%s\"", e1, e2); }
    }
    if (g_spawns) FAIL("spifconf_shell_expand", "spawn", shape, "a process was spawned: %s", g_spawn_what);
    { int fd_after = open("/dev/null", O_RDONLY); if (fd_after >= 0) close(fd_after);
      if (fd_after != fd_before) FAIL("spifconf_shell_expand", "fd-leak", shape, "the lowest free descriptor moved from %d to %d: expansion left a descriptor open", fd_before, fd_after); }
    free(k1); free(k2);
    if (strpbrk(in, "$%~\\'\"")) mc_nontrivial();
    mc_outcome(mc_hash_str(R.out) + (uint64_t) h + (uint64_t) ok * 3);
}

/* ------------------------------------------------------------------ (B) %put / %get histories (E1) */
static const char *VOPS[] = { "%put(k v1)", "%put(k v2)", "%put(j v1)", "x%get(k)y", "%get(j)", "%get(k dflt)", "%put(k)", "%get(%get(j))", "%put(a %get(k))", "%put(j '')", "p%get(j)q", "%put(K v3)", "u%get(K)w", "%put(\xe9t v4)", "s%get(\xe9t)t", "[%get(j dflt)]", "%put(k \"v w\")", "%put( j v5)" };      /* the last one: a variable that exists with an empty value is not an unset one */      /* K and k are different variables */
#define NVOPS ((int) (sizeof VOPS / sizeof VOPS[0]))
typedef struct { char k[8], j[8], a[8], K[8], E[8]; int hk, hj, ha, hK, hE; int init; } vs_t;      /* E: the variable whose name starts with the byte 0xE9 */      /* h*: the variable exists (its value may be empty) */
static vs_t *g_vs;
static const char *m_store_get(const char *key)
{
    if (!g_vs) return NULL;
    if (!strcmp(key, "k")) return g_vs->hk ? g_vs->k : NULL;
    if (!strcmp(key, "j")) return g_vs->hj ? g_vs->j : NULL;
    if (!strcmp(key, "a")) return g_vs->ha ? g_vs->a : NULL;
    if (!strcmp(key, "K")) return g_vs->hK ? g_vs->K : NULL;
    if (!strcmp(key, "\xe9t")) return g_vs->hE ? g_vs->E : NULL;
    return NULL;
}
static void v_name(int i, char *b, size_t n) { snprintf(b, n, "expand \"%s\"", VOPS[i]); }
static void *v_fresh(void) { names_once(); spifconf_init_subsystem(); vs_t *s = calloc(1, sizeof *s); s->init = 1; return s; }
static int v_enabled(void *s, int op) { (void) s; (void) op; return 1; }
static void v_check_store(vs_t *s, const char *shape)
{
    int cnt = 0; const char *prev = NULL;
    for (spifconf_var_t *v = spifconf_vars; v; v = v->next, cnt++) {
        if (cnt > 20) { FAIL("spifconf_put_var", "invariant:store-cycle", shape, "variable list does not end"); return; }
        if (prev && strcmp(prev, (char *) v->var) >= 0) { FAIL("spifconf_put_var", "invariant:store-order", shape, "variable list not strictly ascending (\"%s\" then \"%s\")", prev, (char *) v->var); return; }
        prev = (char *) v->var;
        g_vs = s; const char *e = m_store_get((char *) v->var); g_vs = NULL;
        if (!e || strcmp(e, (char *) v->value)) { FAIL("spifconf_put_var", "model:store-content", shape, "store has %s=%s, model %s", (char *) v->var, (char *) v->value, e ? e : "(absent)"); return; }
    }
    int want = s->hk + s->hj + s->ha + s->hK + s->hE;
    if (cnt != want) FAIL("spifconf_put_var", "model:store-size", shape, "store holds %d variables, model %d", cnt, want);
}
static void v_apply(void *vs, int op)
{
    vs_t *s = vs; const char *shape = VOPS[op];
    mc_set_shape(shape);
    static ref_t R; memset(&R, 0, sizeof(int) * 2); R.n = 0;
    g_vs = s; g_env_on = 1; g_home = "/h";
    int ok; char expect[200];
    /* the reference: %put updates the dictionary and yields nothing; %get reads it */
    if (!strncmp(VOPS[op], "%put(", 5)) {
        char key[8] = "", val[60] = ""; ok = 1; expect[0] = 0;
        if (op == 8) { const char *kv = m_store_get("k"); if (kv && *kv && !strchr(kv, ' ')) {      /* (a value of two words makes it a call with three: malformed, like the one-word call) */ snprintf(s->a, sizeof s->a, "%s", kv); s->ha = 1; } /* %put(a <value of k>): malformed (one word) when k is unset or empty */ }
        else if (op == 16) { snprintf(s->k, 8, "v w"); s->hk = 1; }            /* a quoted value of two words */
        else if (op == 17) { snprintf(s->j, 8, "v5"); s->hj = 1; }             /* blanks before the name: the words are what counts */
        else if (op == 9) { s->j[0] = 0; s->hj = 1; }                          /* %put(j ''): the variable exists with an empty value */
        else if (sscanf(VOPS[op] + 5, "%7[^ )] %50[^)]", key, val) == 2) { if (!strcmp(key, "k")) { snprintf(s->k, 8, "%s", val); s->hk = 1; } else if (!strcmp(key, "K")) { snprintf(s->K, 8, "%s", val); s->hK = 1; } else if (!strcmp(key, "\xe9t")) { snprintf(s->E, 8, "%s", val); s->hE = 1; } else { snprintf(s->j, 8, "%s", val); s->hj = 1; } }
    } else { ok = ref_expand(VOPS[op], &R); R.out[R.n] = 0; snprintf(expect, sizeof expect, "%s", R.out); }
    char *k1; char *r = expand_in(VOPS[op], CONFIG_BUFF, 0xA5, &k1);
    g_vs = NULL;
    if (!r) FAIL("spifconf_shell_expand", "model:refused", shape, "returned NULL");
    else if (ok && strcmp(r, expect)) FAIL("spifconf_shell_expand", "model:value", shape, "result \"%s\", expected \"%s\"", r, expect);
    free(k1);
    v_check_store(s, shape);
}
static void v_canon(void *vs, char *b, size_t n) { vs_t *s = vs; snprintf(b, n, "k=%s%s j=%s%s a=%s%s K=%s%s E=%s%s", s->hk ? "" : "<unset>", s->k, s->hj ? "" : "<unset>", s->j, s->ha ? "" : "<unset>", s->a, s->hK ? "" : "<unset>", s->K, s->hE ? "" : "<unset>", s->E); }
static void v_teardown(void *vs) { spifconf_free_subsystem(); free(vs); }

/* ------------------------------------------------------------------ (C) the length limit */
static const char *LFRAG[] = { "$V", "${V}", "~", "$BIG", "%appname()", "\\n", "a", "$U", "'", "%get(k zz)" };
#define NLFRAG ((int) (sizeof LFRAG / sizeof LFRAG[0]))
static void l_decode(uint64_t idx, int *frag, int *slack, int *after) { *frag = (int) (idx % NLFRAG); idx /= NLFRAG; *slack = (int) (idx % 14); *after = (int) (idx / 14); }
static void l_desc(uint64_t idx, void *ctx, char *b, size_t n) { int f, s, a; (void) ctx; l_decode(idx, &f, &s, &a); snprintf(b, n, "line of %d 'a' + \"%s\"%s: the input fills the line buffer to %d bytes short of its limit", CONFIG_BUFF - 1 - (int) strlen(LFRAG[f]) - s - (a ? 3 : 0), LFRAG[f], a ? " + \"zzz\"" : "", s); }
static void l_case(uint64_t idx, void *ctx)
{
    int f, slack, after; (void) ctx; l_decode(idx, &f, &slack, &after);
    size_t fl = strlen(LFRAG[f]), total = CONFIG_BUFF - 1 - (size_t) slack, fill = total - fl - (after ? 3 : 0);
    char *in = malloc(CONFIG_BUFF); memset(in, 'a', fill); memcpy(in + fill, LFRAG[f], fl); if (after) memcpy(in + fill + fl, "zzz", 3); in[total] = 0;
    mc_set_shape("near the line-buffer limit");
    g_home = "/h";
    static ref_t R; memset(&R, 0, sizeof(int) * 2); R.n = 0;
    g_env_on = 1; int ok = ref_expand(in, &R); g_env_on = 0; R.out[R.n] = 0;
    char *k1; char *r = expand_in(in, CONFIG_BUFF, 0xA5, &k1);
    if (r) {
        size_t n = strnlen(r, CONFIG_BUFF + 8);
        if (n >= CONFIG_BUFF) FAIL("spifconf_shell_expand", "model:too-long", "near the line-buffer limit", "result is not NUL-terminated within the %d-byte line buffer", CONFIG_BUFF);
        else if (ok && R.n < CONFIG_BUFF - 1 && strcmp(r, R.out)) FAIL("spifconf_shell_expand", "model:value", "near the line-buffer limit", "result of %zu characters differs from the reference of %zu characters", n, R.n);
        else if (ok && R.n >= CONFIG_BUFF - 1 && strncmp(r, R.out, n)) FAIL("spifconf_shell_expand", "model:value", "near the line-buffer limit", "truncated result is not a prefix of the full expansion");
    }
    free(k1); free(in);
    mc_nontrivial();
}

/* ---- commands whose output is longer than the line buffer, and longer than 64 KiB: the result is the expansion cut at the limit */
static const long BIGOUT[] = { 100, 20000, 20470, 20477, 20480, 32767, 32768, 65535, 65536, 65537, 70000, 140000 };
#define NBIGOUT ((int) (sizeof BIGOUT / sizeof BIGOUT[0]))
static void bo_desc(uint64_t idx, void *ctx, char *b, size_t n) { (void) ctx; snprintf(b, n, idx % 2 ? "spifconf_shell_expand(\"ab`big %ld`cd\") where the command prints %ld characters" : "spifconf_shell_expand(\"ab%%exec(big %ld)cd\") where the command prints %ld characters", BIGOUT[idx / 2], BIGOUT[idx / 2]); }
static void bo_case(uint64_t idx, void *ctx)
{
    long N = BIGOUT[idx / 2]; (void) ctx;
    char *in = malloc(CONFIG_BUFF); snprintf(in, CONFIG_BUFF, idx % 2 ? "ab`big %ld`cd" : "ab%%exec(big %ld)cd", N);
    const char *shape = N + 4 < CONFIG_BUFF - 1 ? "command output within the line buffer" : (N <= 65535 ? "command output beyond the line buffer" : "command output beyond 64 KiB");
    mc_set_shape(shape);
    g_home = "/h";
    static ref_t R; memset(&R, 0, sizeof(int) * 2); R.n = 0;
    g_exec_emul = 1;
    g_env_on = 1; int ok = ref_expand(in, &R); g_env_on = 0; R.out[R.n] = 0;
    char *k1; char *r = expand_in(in, CONFIG_BUFF, 0xA5, &k1);
    g_exec_emul = 0;
    if (!r) FAIL("spifconf_shell_expand", "model:refused", shape, "returned NULL");
    else {
        size_t n = strnlen(r, CONFIG_BUFF + 8);
        if (n >= CONFIG_BUFF) FAIL("spifconf_shell_expand", "model:too-long", shape, "result is not NUL-terminated within the %d-byte line buffer", CONFIG_BUFF);
        else if (ok && R.n < CONFIG_BUFF - 1 && strcmp(r, R.out)) FAIL("spifconf_shell_expand", "model:value", shape, "result of %zu characters differs from the reference of %zu characters", n, R.n);
        else if (ok && R.n >= CONFIG_BUFF - 1 && strncmp(r, R.out, n)) FAIL("spifconf_shell_expand", "model:value", shape, "the cut result of %zu characters is not a prefix of the full expansion (ab, %ld x, cd)", n, N);
        else if (ok && R.n >= CONFIG_BUFF - 1 && n < CONFIG_BUFF - 600) FAIL("spifconf_shell_expand", "model:value", shape, "an expansion of more than %d characters came back %zu characters long", CONFIG_BUFF - 1, n);
    }
    uint64_t rl = r ? strlen(r) : 0;
    free(k1); free(in);
    mc_nontrivial();
    mc_outcome(rl);
}

/* ---- parentheses nested d deep inside a call's arguments, d around 127/255/256/512 (the depth counter of the argument scanner) */
static const int PD[] = { 1, 100, 126, 127, 128, 254, 255, 256, 257, 300, 511, 512, 513 };
#define NPD ((int) (sizeof PD / sizeof PD[0]))
static void pd_desc(uint64_t idx, void *ctx, char *b, size_t n) { (void) ctx; snprintf(b, n, "spifconf_shell_expand(\"x%%get(zz %d x '(' %s %d x ')')y\")", PD[idx / 2], idx % 2 ? "$V" : "a", PD[idx / 2]); }
static void pd_case(uint64_t idx, void *ctx)
{
    int d = PD[idx / 2]; (void) ctx;
    char *in = malloc(CONFIG_BUFF); size_t o = (size_t) sprintf(in, "x%%get(zz ");
    memset(in + o, '(', (size_t) d); o += (size_t) d; o += (size_t) sprintf(in + o, "%s", idx % 2 ? "$V" : "a"); memset(in + o, ')', (size_t) d); o += (size_t) d; o += (size_t) sprintf(in + o, ")y");
    const char *shape = d < 255 ? "nesting below 255" : "nesting 255 or deeper";
    mc_set_shape(shape);
    g_home = "/h";
    static ref_t R; memset(&R, 0, sizeof(int) * 2); R.n = 0;
    g_env_on = 1; int ok = ref_expand(in, &R); g_env_on = 0; R.out[R.n] = 0;
    char *k1; char *r = expand_in(in, CONFIG_BUFF, 0xA5, &k1);
    if (!r) FAIL("spifconf_shell_expand", "model:refused", shape, "returned NULL");
    else if (ok && strcmp(r, R.out)) { size_t k = 0; while (r[k] && r[k] == R.out[k]) k++; FAIL("spifconf_shell_expand", "model:value", shape, "result differs from the expansion rules at offset %zu (result %zu characters, expected %zu)", k, strlen(r), R.n); }
    free(k1); free(in);
    mc_nontrivial();
    mc_outcome((uint64_t) d);
}
/* ------------------------------------------------------------------ command output with long runs of white space: every run becomes one blank, whatever its length */
static const long GAPS[] = { 0, 1, 2, 3, 127, 128, 255, 256, 257, 258, 511, 512, 513, 514, 767, 768, 769, 1000, 5000, 19000 };
#define NGAPS ((int) (sizeof GAPS / sizeof GAPS[0]))
static void go_desc(uint64_t idx, void *ctx, char *b, size_t n) { (void) ctx; snprintf(b, n, idx % 2 ? "spifconf_shell_expand(\"[`gap %ld`]\") where the command prints a, %ld white-space characters, b" : "spifconf_shell_expand(\"[%%exec(gap %ld)]\") where the command prints a, %ld white-space characters, b", GAPS[idx / 2], GAPS[idx / 2]); }
static void go_case(uint64_t idx, void *ctx)
{
    long N = GAPS[idx / 2]; (void) ctx;
    char *in = malloc(CONFIG_BUFF); snprintf(in, CONFIG_BUFF, idx % 2 ? "[`gap %ld`]" : "[%%exec(gap %ld)]", N);
    const char *shape = N <= 255 ? "white-space run of at most 255 characters" : "white-space run of 256 or more characters"; mc_set_shape(shape);
    g_home = "/h";
    static ref_t R; memset(&R, 0, sizeof(int) * 2); R.n = 0;
    g_exec_emul = 1;
    g_env_on = 1; int ok = ref_expand(in, &R); g_env_on = 0; R.out[R.n] = 0;
    char *k1; char *r = expand_in(in, CONFIG_BUFF, 0xA5, &k1);
    g_exec_emul = 0;
    if (!r) FAIL("spifconf_shell_expand", "model:refused", shape, "returned NULL");
    else if (ok && strcmp(r, R.out)) FAIL("spifconf_shell_expand", "model:value", shape, "result \"%.40s\" (%zu characters), expected \"%s\": a run of white space in a command's output is one blank", r, strlen(r), R.out);
    uint64_t rl = r ? strlen(r) : 0;
    free(k1); free(in);
    mc_nontrivial();
    mc_outcome(rl);
}
/* ------------------------------------------------------------------ %dirscan() lists what stat() calls a regular file, whatever kind of directory entry leads to it */
static const char *DK_NAME[6] = { "reg", "sub", "lnk", "lnkdir", "dangling", "fifo" };
static void dk_desc(uint64_t idx, void *ctx, char *b, size_t n) { (void) ctx; size_t k = (size_t) snprintf(b, n, "%%dirscan() of a directory holding {"); for (int i = 0; i < 6; i++) if (idx >> i & 1) k += (size_t) snprintf(b + k, n - k, " %s", DK_NAME[i]); snprintf(b + k, n - k, " } (regular file, subdirectory, symbolic link to a regular file, to a directory, to nothing, named pipe)"); }
static void dk_case(uint64_t idx, void *ctx)
{
    (void) ctx; const char *shape = "directory entries of several kinds"; mc_set_shape(shape);
    char dir[400], p[700], t[700]; snprintf(dir, sizeof dir, "%s/dk%u_%d", scratch(), (unsigned) idx, (int) getpid()); mkdir(dir, 0700);
    snprintf(t, sizeof t, "%s/f", g_odir);
    for (int i = 0; i < 6; i++) if (idx >> i & 1) {
        snprintf(p, sizeof p, "%s/%s", dir, DK_NAME[i]);
        switch (i) { case 0: write_file(p, "x", 1); break; case 1: mkdir(p, 0700); break; case 2: if (symlink(t, p)) return; break; case 3: if (symlink(g_edir, p)) return; break; case 4: if (symlink("/nonexistent/verif", p)) return; break; case 5: if (mkfifo(p, 0600)) return; break; }
    }
    char *in = malloc(CONFIG_BUFF); snprintf(in, CONFIG_BUFF, "[%%dirscan(%s)]", dir);
    char *k1; char *r = expand_in(in, CONFIG_BUFF, 0xA5, &k1);
    int want_reg = (int) (idx & 1), want_lnk = (int) (idx >> 2 & 1);
    if (!r) FAIL("builtin_dirscan", "model:refused", shape, "returned NULL");
    else {
        int got_reg = strstr(r, "reg ") != NULL, got_lnk = strstr(r, "lnk ") != NULL; size_t want_len = 2 + (size_t) want_reg * 4 + (size_t) want_lnk * 4;
        if (got_reg != want_reg || got_lnk != want_lnk || strlen(r) != want_len || r[0] != '[' || r[strlen(r) - 1] != ']')
            FAIL("builtin_dirscan", "model:value", shape, "listing \"%.80s\": expected exactly the entries that are regular files to stat()%s%s", r, want_reg ? " reg" : "", want_lnk ? " lnk" : "");
    }
    uint64_t rl = r ? strlen(r) : 0;
    free(k1); free(in);
    for (int i = 0; i < 6; i++) { snprintf(p, sizeof p, "%s/%s", dir, DK_NAME[i]); if (i == 1) rmdir(p); else unlink(p); }
    rmdir(dir);
    mc_nontrivial();
    mc_outcome(rl);
}
int main(int argc, char **argv)
{
    mc_init("C10", argc, argv);
    libast_debug_level = (unsigned) mc_dlevel();        /* --dlevel=N: the whole run at runtime debug level N (default 0) */
    int N = (int) mc_arg_int("N", mc_thorough() ? 4 : 3);
    names_once();
    snprintf(g_edir, sizeof g_edir, "%s/ed", scratch()); snprintf(g_odir, sizeof g_odir, "%s/od", scratch());
    mkdir(g_edir, 0700); mkdir(g_odir, 0700); { char f[330]; snprintf(f, sizeof f, "%s/f", g_odir); write_file(f, "x", 1); }
    snprintf(g_frag_e, sizeof g_frag_e, "%%dirscan(%s)", g_edir); snprintf(g_frag_o, sizeof g_frag_o, "%%dirscan(%s)", g_odir);
    FRAG[NFRAG++] = g_frag_e; FRAG[NFRAG++] = g_frag_o;
    /* a call nested in another call's arguments whose own argument grows on expansion (past its closing parenthesis), with text after it */
    FRAG[NFRAG++] = "%random($L)"; FRAG[NFRAG++] = "%get(q %random($L)-t)";
    /* commands (emulated): output with visible text, whitespace only, none; the backquote spelling and the %exec spelling */
    FRAG[NFRAG++] = "`e hi  $V`"; FRAG[NFRAG++] = "`e`"; FRAG[NFRAG++] = "`t`"; FRAG[NFRAG++] = "%exec(e hi)"; FRAG[NFRAG++] = "%exec(e)"; FRAG[NFRAG++] = "`";
    mc_info("alphabet", "(A) concatenations of <= %d of %d fragments {a, space, ~, \\n, \\\\, \\', lone \\, ', \", $V, ${V}, $(V), $E, $U, ${U}, unterminated ${V, lone $, $VV, %%appname(), %%version(), %%random(w), %%get(k), %%get(k d), %%get(, ), lone %%, (, x, %%dirscan(empty dir), %%dirscan(one-file dir), %%random($L), %%get(q %%random($L)-t) with L a 40-character value, `e hi  $V`, `e`, `t`, %%exec(e hi), %%exec(e), lone ` (commands emulated: 'e TEXT' prints TEXT)} "
            "x HOME in {/h, empty, unset}; each expanded twice under memory fills 0xA5/0x5A; (B) %%put/%%get histories over %d operations to a fixpoint; (C) %d fragments x 14 distances from the 20479-character limit x {with, without trailing text}",
            N, NFRAG, NVOPS, NLFRAG);
    if (!mc_arg("only", NULL) || !strcmp(mc_arg("only", ""), "a")) {
        spifconf_init_subsystem();
        for (g_n = 0; g_n <= N; g_n++) if (!mc_e2_level("expand", g_n, mc_words_of_len(NFRAG, g_n) * 3, a_case, a_desc, NULL)) break;
        mc_e2_level("limit", 1, (uint64_t) NLFRAG * 14 * 2, l_case, l_desc, NULL);
        mc_e2_level("paren_depth", 513, (uint64_t) NPD * 2, pd_case, pd_desc, NULL);
        mc_e2_level("dirscan_entry_kinds", 6, 64, dk_case, dk_desc, NULL);
        mc_e2_level("command_output_gaps", 19000, (uint64_t) NGAPS * 2, go_case, go_desc, NULL);
        mc_e2_level("long_command_output", 140000, (uint64_t) NBIGOUT * 2, bo_case, bo_desc, NULL);
        spifconf_free_subsystem();
    }
    if (!mc_arg("only", NULL) || !strcmp(mc_arg("only", ""), "b")) {
        mc_sys sys = { "varstore", NVOPS, v_name, v_fresh, v_enabled, v_apply, NULL, v_canon, v_teardown, (int) mc_arg_int("lookahead", 1) };
        mc_e1_run(&sys, 12);
    }
    return mc_finish();
}
