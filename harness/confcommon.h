/* confcommon.h — shared prelude of the config-subsystem harnesses (C09, C10, C11).
 * conf.c is compiled into the harness translation unit so its private stacks can be read.
 * Interposed: getenv (controlled environment), system/fork/exec/popen (spawn trap),
 * fopen/fdopen/fclose (open-file ledger), libast_print_error/warning (captured). */
#ifndef VERIF_CONFCOMMON_H
#define VERIF_CONFCOMMON_H
#include <config.h>
#include "conf.c"                      /* from <repo>/src, on the include path */
#include "mc.h"
#include <stdarg.h>
#include <sys/stat.h>
#include <unistd.h>
#define FAIL(site, kind, shape, ...) mc_fail(site, kind, shape, __VA_ARGS__)

/* ---- controlled environment */
static int g_env_on; static const char *g_home = "/h"; static int g_tmp_mode;     /* g_env_on == 2: only TMPDIR/TMP are controlled (bit0 TMPDIR set, bit1 TMP set) */
char *__real_getenv(const char *);
/* HOME lives in one of two static buffers; between two library calls the application may have replaced its environment, so the buffer
 * handed out before is poisoned (ASan: use-after-poison for a pointer kept across calls) and overwritten */
#if defined(__has_feature)
# if __has_feature(address_sanitizer)
#  include <sanitizer/asan_interface.h>
#  define ENV_POISON(p, n) __asan_poison_memory_region((p), (n))
#  define ENV_UNPOISON(p, n) __asan_unpoison_memory_region((p), (n))
# endif
#endif
#ifndef ENV_POISON
# define ENV_POISON(p, n) ((void) 0)
# define ENV_UNPOISON(p, n) ((void) 0)
#endif
static char g_home_buf[2][64]; static int g_home_cur = -1, g_home_last = 1;
static void env_new_epoch(void) { if (g_home_cur >= 0) { memset(g_home_buf[g_home_cur], '#', sizeof g_home_buf[0] - 1); ENV_POISON(g_home_buf[g_home_cur], sizeof g_home_buf[0]); g_home_last = g_home_cur; g_home_cur = -1; } }
static char *env_home_copy(const char *v)
{
    if (g_home_cur < 0) { g_home_cur = 1 - g_home_last; ENV_UNPOISON(g_home_buf[g_home_cur], sizeof g_home_buf[0]); }      /* the buffer of the epoch before stays poisoned */
    snprintf(g_home_buf[g_home_cur], sizeof g_home_buf[0], "%s", v);
    return g_home_buf[g_home_cur];
}
static const char *g_tmpdir_override;       /* when set: what TMPDIR answers, whatever else is controlled */
char *__wrap_getenv(const char *name)
{
    if (g_tmpdir_override && !strcmp(name, "TMPDIR")) return (char *) g_tmpdir_override;
    if (g_env_on == 2) {
        if (!strcmp(name, "TMPDIR")) return (g_tmp_mode & 1) ? __real_getenv("VERIF_SCRATCH") : NULL;
        if (!strcmp(name, "TMP")) return (g_tmp_mode & 2) ? __real_getenv("VERIF_SCRATCH") : NULL;
        return __real_getenv(name);
    }
    if (g_env_on) {
        if (!strcmp(name, "HOME")) {        /* every lookup gets its own copy; the previous one is gone (as after putenv() by the application): a pointer kept across calls dangles */
            if (!g_home) return NULL;
            return env_home_copy(g_home);
        }
        if (!strcmp(name, "V")) return (char *) "val";
        if (!strcmp(name, "VV")) return (char *) "x y";
        if (!strcmp(name, "L")) return (char *) "a_rather_long_value_of_forty_characters_";
        if (!strcmp(name, "E")) return (char *) "";
        if (!strcmp(name, "U") || !strcmp(name, "")) return NULL;
        if (!strcmp(name, "BIG")) { static char *big; if (!big) { big = malloc(30001); memset(big, 'B', 30000); big[30000] = 0; } return big; }
    }
    return __real_getenv(name);
}
FILE *__real_fopen(const char *, const char *); int __real_fclose(FILE *);
/* ---- rand(): %random picks a word with it; the harness answers with the ends of its range (the library seeds once per process with pid*time) */
static int g_rand_on, g_rand_value;
int __real_rand(void);
int __wrap_rand(void) { return g_rand_on ? g_rand_value : __real_rand(); }
/* ---- spawn trap */
static int g_spawns; static char g_spawn_what[200];
static int trap(const char *what, const char *arg) { g_spawns++; snprintf(g_spawn_what, sizeof g_spawn_what, "%s(%.150s)", what, arg ? arg : ""); return 0; }
/* emulated commands (C10): "e TEXT" prints TEXT and a newline, anything else prints nothing; the library runs "CMD >OUTFILE" */
static int g_exec_emul;
static void emu_output(const char *cmd, char *out, size_t n)
{
    while (*cmd == ' ') cmd++;
    if (cmd[0] == 'e' && (cmd[1] == ' ' || !cmd[1])) snprintf(out, n, "%s\n", cmd[1] ? cmd + 2 : ""); else out[0] = 0;
}
static char g_preproc_out[PATH_MAX]; static int g_preprocs;      /* the file the last emulated preprocessor wrote, and how many ran */
static long emu_big(const char *cmd) { while (*cmd == ' ') cmd++; return strncmp(cmd, "big ", 4) ? -1 : atol(cmd + 4); }
static long emu_gap(const char *cmd) { while (*cmd == ' ') cmd++; return strncmp(cmd, "gap ", 4) ? -1 : atol(cmd + 4); }      /* "gap N": 'a', N white-space characters (blank, tab, newline in turn), 'b', newline */
int __wrap_system(const char *c)
{
    if (g_exec_emul) {
        const char *gt = NULL; for (const char *p = c; (p = strstr(p, " >")) != NULL; p += 2) gt = p;
        if (gt) { char cmd[2048], out[2100]; snprintf(cmd, sizeof cmd, "%.*s", (int) (gt - c), c); emu_output(cmd, out, sizeof out);
            while (gt[2] == ' ') gt++;              /* "CMD >FILE" and "CMD > FILE" */
            long big = emu_big(cmd);                /* "big N": N times 'x' and a newline */
            if (!strncmp(cmd, "cat < ", 6)) {       /* "cat < FILE": the preprocessor that changes nothing */
                FILE *in = __real_fopen(cmd + 6, "r"), *f = __real_fopen(gt + 2, "w"); int ch;
                if (in && f) while ((ch = fgetc(in)) != EOF) fputc(ch, f);
                if (in) __real_fclose(in);
                if (f) __real_fclose(f);
                snprintf(g_preproc_out, sizeof g_preproc_out, "%s", gt + 2); g_preprocs++;
                return 0;
            }
            long gap = emu_gap(cmd);
            if (gap >= 0) { FILE *g = __real_fopen(gt + 2, "w"); if (g) { fputc('a', g); for (long i = 0; i < gap; i++) fputc(" \t\n"[i % 3], g); fputs("b\n", g); __real_fclose(g); } return 0; }
            FILE *f = __real_fopen(gt + 2, "w"); if (f) { if (big >= 0) { for (long i = 0; i < big; i++) fputc('x', f); fputc('\n', f); } else fputs(out, f); __real_fclose(f); } }
        return 0;
    }
    trap("system", c); return 0;
}
pid_t __real_fork(void);
static int g_allow_fork = 1;           /* the engine forks its workers; the trap is armed only around library calls */
pid_t __wrap_fork(void) { if (!g_allow_fork) { trap("fork", NULL); errno = EAGAIN; return -1; } return __real_fork(); }
pid_t __wrap_vfork(void) { trap("vfork", NULL); errno = EAGAIN; return -1; }
int __wrap_execve(const char *p, char *const a[], char *const e[]) { (void) a; (void) e; trap("execve", p); errno = EACCES; return -1; }
int __wrap_execv(const char *p, char *const a[]) { (void) a; trap("execv", p); errno = EACCES; return -1; }
int __wrap_execvp(const char *p, char *const a[]) { (void) a; trap("execvp", p); errno = EACCES; return -1; }
FILE *__wrap_popen(const char *c, const char *m) { (void) m; trap("popen", c); errno = EACCES; return NULL; }
int __wrap_posix_spawn(void *pid, const char *p, void *fa, void *at, char *const a[], char *const e[]) { (void) pid; (void) fa; (void) at; (void) a; (void) e; trap("posix_spawn", p); return EACCES; }
/* ---- open-file ledger (only while the library is running) */
static int g_ledger_on, g_open_files, g_opens;
FILE *__real_fopen(const char *, const char *); FILE *__real_fdopen(int, const char *); int __real_fclose(FILE *);
FILE *__wrap_fopen(const char *p, const char *m) { FILE *f = __real_fopen(p, m); if (f && g_ledger_on) { g_open_files++; g_opens++; } return f; }
FILE *__wrap_fdopen(int fd, const char *m) { FILE *f = __real_fdopen(fd, m); if (f && g_ledger_on) { g_open_files++; g_opens++; } return f; }
int __wrap_fclose(FILE *f) { if (g_ledger_on) g_open_files--; return __real_fclose(f); }
/* ---- diagnostics */
static int g_errors, g_warnings; static char g_last_error[300];
void __wrap_libast_print_error(const char *fmt, ...) { va_list ap; g_errors++; va_start(ap, fmt); vsnprintf(g_last_error, sizeof g_last_error, fmt, ap); va_end(ap);
    if (g_errors > 100000 && mc_protected) { FAIL("spifconf", "hang:diagnostics", "", "more than 100000 diagnostics in one call"); mc_protected = 0; siglongjmp(mc_jmp, 97); } }
void __wrap_libast_print_warning(const char *fmt, ...) { (void) fmt; g_warnings++; }

static const char *scratch(void) { const char *t = __real_getenv("VERIF_SCRATCH"); return t ? t : "/tmp"; }
static void write_file(const char *path, const char *data, size_t n)
{
    FILE *f = __real_fopen(path, "w"); if (!f) return;
    if (n) fwrite(data, 1, n, f);
    __real_fclose(f);
}
static void names_once(void)
{
    static int done; if (done) return; done = 1;
    libast_set_program_name("verif"); libast_set_program_version("1.0");
}
#endif
