/* h_vercmp.c — C17: version comparison is a safe, deterministic, antisymmetric order.
 * E2 over all pairs of strings of <= N fragments from a fragment alphabet (letters, pre-release
 * words, numbers around the 32-bit limits, punctuation, runs of 127/128/129/5000 characters),
 * plus all pairs of generated well-formed versions for the ordering laws of the statement. */
#include "hcommon.h"
#include <ctype.h>

static char *RUN[12];
static const char *FR[48]; static int NFR;
static int NFRAG;                 /* fragments per side */
static uint64_t NSTR;

static char *mkrun(int c, int n) { char *p = malloc((size_t) n + 1); memset(p, c, (size_t) n); p[n] = 0; return p; }
static void build(int core)
{
    static const char *base[] = { "a", "b", "snap", "pre", "alpha", "beta", "rc", "SNAP", "snapx",
                                  "0", "1", "2", "10", "007", "2147483647", "2147483648", "4294967295", ".", "-", "_", "..", "\xae", "\xe9", "\xe1", "\xe2", "\xb1" };      /* bytes above 0x7f: separators whose distance from an ASCII one exceeds 127, and 'a', 'b', '1' + 0x80 (a distance of exactly 128) */
    static const char *corefr[] = { "a", "snap", "pre", "beta", "rc", "0", "1", "10", "007", "2147483648", "4294967295", ".", "-", "b", "\xae" };
    NFR = 0;
    if (core) { for (unsigned i = 0; i < sizeof corefr / sizeof *corefr; i++) FR[NFR++] = corefr[i]; return; }
    for (unsigned i = 0; i < sizeof base / sizeof *base; i++) FR[NFR++] = base[i];
    int lens[3] = { 127, 128, 129 };
    for (int i = 0; i < 3; i++) { FR[NFR++] = RUN[i] = mkrun('q', lens[i]); }
    for (int i = 0; i < 3; i++) { FR[NFR++] = RUN[3 + i] = mkrun('7', lens[i]); }
    for (int i = 0; i < 3; i++) { FR[NFR++] = RUN[6 + i] = mkrun('.', lens[i]); }
    FR[NFR++] = RUN[9] = mkrun('q', 5000); FR[NFR++] = RUN[10] = mkrun('7', 5000); FR[NFR++] = RUN[11] = mkrun('.', 5000);
}
static uint64_t nstrings(int n) { uint64_t t = 0, p = 1; for (int l = 0; l <= n; l++) { t += p; p *= (uint64_t) NFR; } return t; }
/* idx-th string in shortlex order of fragment words */
static char *mkstr(uint64_t idx, char *desc, size_t dn)
{
    int len = 0; uint64_t p = 1;
    while (idx >= p) { idx -= p; p *= (uint64_t) NFR; len++; }
    int d[8]; mc_word_decode(idx, NFR, len, d);
    size_t tot = 0; for (int i = 0; i < len; i++) tot += strlen(FR[d[i]]);
    char *s = malloc(tot + 1); s[0] = 0; size_t o = 0, od = 0;
    if (desc) desc[0] = 0;
    for (int i = 0; i < len; i++) {
        size_t l = strlen(FR[d[i]]); memcpy(s + o, FR[d[i]], l); o += l;
        if (desc) { if (l > 20) od += (size_t) snprintf(desc + od, dn - od, "%s<%c x %zu>", i ? "+" : "", FR[d[i]][0], l); else od += (size_t) snprintf(desc + od, dn - od, "%s%s", i ? "+" : "", FR[d[i]]); }
    }
    s[o] = 0;
    return s;
}
static const char *shape_pair(const char *x, const char *y)
{
    size_t run = 0, best = 0; const char *s[2] = { x, y };
    for (int k = 0; k < 2; k++) for (const char *p = s[k]; *p; p++) {
        int cls = isalpha((unsigned char) *p) ? 1 : (isdigit((unsigned char) *p) ? 2 : 3);
        int prev = p > s[k] ? (isalpha((unsigned char) p[-1]) ? 1 : (isdigit((unsigned char) p[-1]) ? 2 : 3)) : 0;
        run = cls == prev ? run + 1 : 1; if (run > best) best = run;
    }
    if (best >= 128) return "run of 128 or more characters";
    if (strstr(x, "2147483648") || strstr(x, "4294967295") || strstr(y, "2147483648") || strstr(y, "4294967295")) return "number beyond INT32_MAX";
    if (*x && *y) {
        int cx = isalpha((unsigned char) *x) ? 1 : (isdigit((unsigned char) *x) ? 2 : 3), cy = isalpha((unsigned char) *y) ? 1 : (isdigit((unsigned char) *y) ? 2 : 3);
        if (cx != cy) return "heads of different character class";
    }
    return "ordinary";
}
static int cv(spif_cmp_t c) { return SPIF_CMP_IS_LESS(c) ? -1 : (SPIF_CMP_IS_GREATER(c) ? 1 : (SPIF_CMP_IS_EQUAL(c) ? 0 : 9)); }
static __attribute__((noinline)) int call(const char *a, const char *b, int fill)
{
    mc_dirty_stack(fill, 2048);
    return cv(spiftool_version_compare((spif_charptr_t) a, (spif_charptr_t) b));
}
static void pair_desc(uint64_t idx, void *ctx, char *b, size_t n)
{
    char d1[300], d2[300]; (void) ctx;
    free(mkstr(idx / NSTR, d1, sizeof d1)); free(mkstr(idx % NSTR, d2, sizeof d2));
    snprintf(b, n, "spiftool_version_compare(\"%s\", \"%s\") [fragments joined at +]", d1, d2);
}
static void pair_case(uint64_t idx, void *ctx)
{
    mc_strings_prelude();
    (void) ctx;
    char *x = mkstr(idx / NSTR, NULL, 0), *y = mkstr(idx % NSTR, NULL, 0);     /* exact-size heap blocks */
    const char *shape = shape_pair(x, y);
    mc_set_shape(shape);
    int a1 = call(x, y, 0xA5), a2 = call(x, y, 0x5A), b1 = call(y, x, 0xA5);
    if (a1 == 9 || b1 == 9) FAIL("spiftool_version_compare", "model:return", shape, "not a comparison value");
    if (a1 != a2) FAIL("spiftool_version_compare", "nondeterministic", shape, "result %d with the stack filled with 0xA5, %d with 0x5A", a1, a2);
    else if (a1 != -b1) FAIL("spiftool_version_compare", "model:antisymmetry", shape, "cmp(x,y)=%d but cmp(y,x)=%d", a1, b1);
    if (idx / NSTR == idx % NSTR) { if (a1 != 0) FAIL("spiftool_version_compare", "model:reflexivity", shape, "cmp(x,x)=%d", a1); }
    if (a1) mc_nontrivial();
    mc_outcome((uint64_t) (a1 + 2) * 7 + mc_hash_str(shape));
    free(x); free(y);
}

/* ---- well-formed versions: num(.num){0..2} [word [num]] with the word attached directly */
static const char *NUMS[] = { "1", "2", "10", "2147483648", "007", "0", "9" };
static int g_nn = 3;
static const char *WORDS[] = { "", "snap", "pre", "alpha", "beta", "rc", "foo", "SNAP", "b", "p" };     /* "b", "p": ordinary words that are prefixes of pre-release words */
#define NNUM 7
#define NWORD 10
typedef struct { int nc; int c[3]; int w; int wn; } wf_t;       /* wn: -1 none, else index into NUMS */
static uint64_t WF_COUNT;
static void wf_decode(uint64_t i, wf_t *v)
{
    v->nc = (int) (i % 3) + 1; i /= 3;
    for (int k = 0; k < 3; k++) { v->c[k] = (int) (i % (uint64_t) g_nn); i /= (uint64_t) g_nn; }
    v->w = (int) (i % NWORD); i /= NWORD;
    v->wn = (int) (i % 3) - 1;                /* none, "1", "2" */
    if (v->w == 0) v->wn = -1;
    for (int k = v->nc; k < 3; k++) v->c[k] = 0;
}
static void wf_text(const wf_t *v, char *b, size_t n)
{
    size_t o = 0; b[0] = 0;
    for (int k = 0; k < v->nc; k++) o += (size_t) snprintf(b + o, n - o, "%s%s", k ? "." : "", NUMS[v->c[k]]);
    o += (size_t) snprintf(b + o, n - o, "%s", WORDS[v->w]);
    if (v->wn >= 0) snprintf(b + o, n - o, "%s", NUMS[v->wn]);
}
static long long numval(int i) { return strtoll(NUMS[i], NULL, 10); }
static int rank(int w) { return w == 0 ? 0 : (w == 7 ? 1 : (w <= 5 ? w : 6)); }      /* snap1 pre2 alpha3 beta4 rc5 other6; SNAP==snap */
static void wf_desc(uint64_t idx, void *ctx, char *b, size_t n)
{
    wf_t x, y; char tx[80], ty[80]; (void) ctx;
    wf_decode(idx / WF_COUNT, &x); wf_decode(idx % WF_COUNT, &y); wf_text(&x, tx, sizeof tx); wf_text(&y, ty, sizeof ty);
    snprintf(b, n, "well-formed versions: spiftool_version_compare(\"%s\", \"%s\")", tx, ty);
}
static void wf_case(uint64_t idx, void *ctx)
{
    mc_strings_prelude();
    wf_t x, y; char tx[80], ty[80]; (void) ctx;
    wf_decode(idx / WF_COUNT, &x); wf_decode(idx % WF_COUNT, &y); wf_text(&x, tx, sizeof tx); wf_text(&y, ty, sizeof ty);
    char *hx = mc_heapstr(tx), *hy = mc_heapstr(ty);
    int g = call(hx, hy, 0xA5), expect = 99; const char *law = NULL;
    int common = x.nc < y.nc ? x.nc : y.nc, firstdiff = -1;
    for (int k = 0; k < common; k++) if (numval(x.c[k]) != numval(y.c[k])) { firstdiff = k; break; }
    int samesuffix = (rank(x.w) == rank(y.w) && (x.w == y.w || rank(x.w) == 1) && x.wn == y.wn);
    if (x.nc == y.nc && firstdiff >= 0 && (x.w == 0 && y.w == 0)) { expect = numval(x.c[firstdiff]) < numval(y.c[firstdiff]) ? -1 : 1; law = "numeric components compare numerically"; }
    else if (x.nc == y.nc && firstdiff < 0 && x.w && y.w && rank(x.w) <= 5 && rank(y.w) <= 5 && rank(x.w) != rank(y.w) && x.wn == y.wn) { expect = rank(x.w) < rank(y.w) ? -1 : 1; law = "snap < pre < alpha < beta < rc"; }
    else if (x.nc == y.nc && firstdiff < 0 && (x.w == 0) != (y.w == 0)) {
        int w = x.w ? x.w : y.w, below = rank(w) <= 4;           /* snap/pre/alpha/beta below the bare version, anything else above */
        expect = x.w ? (below ? -1 : 1) : (below ? 1 : -1); law = "pre-release suffix below the bare version, any other suffix above";
    }
    else if (x.nc == y.nc && firstdiff < 0 && x.w && y.w && (rank(x.w) <= 4) != (rank(y.w) <= 4) && rank(x.w) != 5 && rank(y.w) != 5) {
        /* pre-release suffix < bare version < ordinary suffix: an order has to put the first below the third as well */
        expect = rank(x.w) <= 4 ? -1 : 1; law = "pre-release suffix below an ordinary suffix (both sides of the bare version)";
    }
    else if (x.nc != y.nc && firstdiff < 0 && x.w == 0 && y.w == 0) { expect = x.nc < y.nc ? -1 : 1; law = "a version ranks below a longer one that adds numeric components"; }
    else if (x.nc == y.nc && firstdiff < 0 && samesuffix) { expect = 0; law = "equal versions compare equal"; }
    const char *shape = law ? law : "no law of the statement applies";
    mc_set_shape(shape);
    if (law) { mc_nontrivial(); if (g != expect) FAIL("spiftool_version_compare", "model:ordering-law", shape, "cmp(\"%s\",\"%s\")=%d, the law gives %d", tx, ty, g, expect); }
    int r = call(hy, hx, 0x5A);
    if (g != -r) FAIL("spiftool_version_compare", "model:antisymmetry", shape, "cmp(\"%s\",\"%s\")=%d but reversed %d", tx, ty, g, r);
    mc_outcome((uint64_t) (g + 2) + mc_hash_str(shape));
    free(hx); free(hy);
}

/* ---- numeric components of any spelling: zero-padded, and beyond every machine word; reference = decimal comparison of the digit strings */
static const char *SPELL[] = { "0", "00", "1", "01", "2", "002", "9", "10", "010", "99", "100", "0100",
    "999999999999999999", "1000000000000000000", "0000000000000000002", "00000000000000000000002", "0000000000000000000000000000000010",
    "9223372036854775807", "9223372036854775808", "18446744073709551615", "18446744073709551616", "018446744073709551616",
    "99999999999999999999", "100000000000000000000", "100000000000000000001", "000000000000000000000", "4294967295", "4294967296", "04294967297" };
#define NSPELL ((int) (sizeof SPELL / sizeof *SPELL))
static int deccmp(const char *a, const char *b)
{
    while (*a == '0') a++; while (*b == '0') b++;
    size_t la = strlen(a), lb = strlen(b);
    if (la != lb) return la < lb ? -1 : 1;
    int c = strcmp(a, b); return c < 0 ? -1 : (c > 0 ? 1 : 0);
}
static const char *FORM[] = { "%s", "1.%s", "%s.5", "3.%s.7", "%src1" };
#define NFORM 5
static void sp_text(uint64_t idx, char *tx, char *ty, size_t n, int *ix, int *iy)
{
    int f = (int) (idx % NFORM); idx /= NFORM; *ix = (int) (idx % NSPELL); *iy = (int) (idx / NSPELL);
    snprintf(tx, n, FORM[f], SPELL[*ix]); snprintf(ty, n, FORM[f], SPELL[*iy]);
}
static void sp_desc(uint64_t idx, void *ctx, char *b, size_t n) { char tx[80], ty[80]; int i, j; (void) ctx; sp_text(idx, tx, ty, sizeof tx, &i, &j); snprintf(b, n, "number spellings: spiftool_version_compare(\"%s\", \"%s\")", tx, ty); }
static void sp_case(uint64_t idx, void *ctx)
{
    mc_strings_prelude();
    char tx[80], ty[80]; int i, j; (void) ctx; sp_text(idx, tx, ty, sizeof tx, &i, &j);
    char *hx = mc_heapstr(tx), *hy = mc_heapstr(ty);
    const char *shape = (strlen(SPELL[i]) >= 19 || strlen(SPELL[j]) >= 19) ? "a component of 19 or more digits" : ((SPELL[i][0] == '0' && SPELL[i][1]) || (SPELL[j][0] == '0' && SPELL[j][1]) ? "zero-padded component" : "plain components");
    mc_set_shape(shape);
    int g = call(hx, hy, 0xA5), g2 = call(hx, hy, 0x5A), r = call(hy, hx, 0xA5), expect = deccmp(SPELL[i], SPELL[j]);
    if (g != g2) FAIL("spiftool_version_compare", "nondeterministic", shape, "result %d with the stack filled with 0xA5, %d with 0x5A", g, g2);
    if (g != expect) FAIL("spiftool_version_compare", "model:ordering-law", shape, "cmp(\"%s\",\"%s\")=%d, numeric components compare numerically: %d", tx, ty, g, expect);
    if (g != -r) FAIL("spiftool_version_compare", "model:antisymmetry", shape, "cmp(\"%s\",\"%s\")=%d but reversed %d", tx, ty, g, r);
    mc_nontrivial();
    mc_outcome((uint64_t) (g + 2) + mc_hash_str(shape));
    free(hx); free(hy);
}

/* ---- digest twins: consecutive calls whose arguments differ but agree in length and in one of the library's own string digests (what a result remembered
 * between calls would be keyed on).  The twins are found by a complete search of the versions a.b.c with a,b,c < 120 for each digest function. */
typedef spif_uint32_t (*dig_fn)(spif_uint8_t *, spif_uint32_t, spif_uint32_t);
static const struct { const char *name; dig_fn fn; } DIG[] = { { "spifhash_fnv", spifhash_fnv }, { "spifhash_one_at_a_time", spifhash_one_at_a_time }, { "spifhash_rotating", spifhash_rotating }, { "spifhash_jenkins", spifhash_jenkins } };
#define NDIG 4
#define TW_PER 24
#define TW_R 120
static struct { int x[3], y[3]; } TWIN[NDIG][TW_PER]; static int NTWIN[NDIG];
static void tw_find(void)
{
    size_t cap = 1u << 22; uint32_t *slot = malloc(cap * sizeof *slot);        /* open addressing on (digest, length); value = index + 1 */
    for (int d = 0; d < NDIG; d++) {
        memset(slot, 0, cap * sizeof *slot); NTWIN[d] = 0;
        for (uint32_t i = 0; i < (uint32_t) TW_R * TW_R * TW_R && NTWIN[d] < TW_PER; i++) {
            char t[16]; int a = (int) (i / (TW_R * TW_R)), b = (int) (i / TW_R % TW_R), c = (int) (i % TW_R); int l = snprintf(t, sizeof t, "%d.%d.%d", a, b, c);
            uint32_t h = DIG[d].fn((spif_uint8_t *) t, (spif_uint32_t) l, 0); size_t k = ((size_t) h * 2654435761u + (size_t) l) & (cap - 1);
            for (;; k = (k + 1) & (cap - 1)) {
                if (!slot[k]) { slot[k] = i + 1; break; }
                uint32_t j = slot[k] - 1; char u[16]; int a2 = (int) (j / (TW_R * TW_R)), b2 = (int) (j / TW_R % TW_R), c2 = (int) (j % TW_R); int l2 = snprintf(u, sizeof u, "%d.%d.%d", a2, b2, c2);
                if (l2 == l && DIG[d].fn((spif_uint8_t *) u, (spif_uint32_t) l2, 0) == h) { int n = NTWIN[d]++; TWIN[d][n].x[0] = a2; TWIN[d][n].x[1] = b2; TWIN[d][n].x[2] = c2; TWIN[d][n].y[0] = a; TWIN[d][n].y[1] = b; TWIN[d][n].y[2] = c; break; }
            }
        }
    }
    free(slot);
}
static int tricmp(const int *p, const int *q) { for (int i = 0; i < 3; i++) if (p[i] != q[i]) return p[i] < q[i] ? -1 : 1; return 0; }
static void tw_desc(uint64_t idx, void *ctx, char *b, size_t n)
{
    int d = (int) (idx / TW_PER), k = (int) (idx % TW_PER); (void) ctx;
    if (k >= NTWIN[d]) { snprintf(b, n, "digest twins under %s: fewer than %d pairs among the versions a.b.c below %d", DIG[d].name, k + 1, TW_R); return; }
    snprintf(b, n, "\"%d.%d.%d\" and \"%d.%d.%d\" (same length, same %s digest) compared one after the other with \"10.0.0\", \"50.50.50\" and with each other", TWIN[d][k].x[0], TWIN[d][k].x[1], TWIN[d][k].x[2], TWIN[d][k].y[0], TWIN[d][k].y[1], TWIN[d][k].y[2], DIG[d].name);
}
static void tw_case(uint64_t idx, void *ctx)
{
    int d = (int) (idx / TW_PER), k = (int) (idx % TW_PER); (void) ctx;
    if (k >= NTWIN[d]) return;
    const char *shape = "consecutive calls on digest twins"; mc_set_shape(shape);
    static const int REFS[2][3] = { { 10, 0, 0 }, { 50, 50, 50 } };
    char tx[16], ty[16], tr[16]; snprintf(tx, sizeof tx, "%d.%d.%d", TWIN[d][k].x[0], TWIN[d][k].x[1], TWIN[d][k].x[2]); snprintf(ty, sizeof ty, "%d.%d.%d", TWIN[d][k].y[0], TWIN[d][k].y[1], TWIN[d][k].y[2]);
    char *hx = mc_heapstr(tx), *hy = mc_heapstr(ty); uint64_t oc = 0;
    for (int r = 0; r < 2; r++) {
        snprintf(tr, sizeof tr, "%d.%d.%d", REFS[r][0], REFS[r][1], REFS[r][2]); char *hr = mc_heapstr(tr);
        int e1 = tricmp(TWIN[d][k].x, REFS[r]), e2 = tricmp(TWIN[d][k].y, REFS[r]);
        int g1 = call(hx, hr, 0xA5), g2 = call(hy, hr, 0xA5), g3 = call(hr, hy, 0xA5), g4 = call(hr, hx, 0xA5), g5 = call(hy, hr, 0xA5), g6 = call(hx, hr, 0xA5);
        if (g1 != e1 || g6 != e1) FAIL("spiftool_version_compare", "model:ordering-law", shape, "cmp(\"%s\",\"%s\")=%d first and %d after its twin, numeric order gives %d", tx, tr, g1, g6, e1);
        if (g2 != e2 || g5 != e2) FAIL("spiftool_version_compare", "model:depends-on-previous-call", shape, "cmp(\"%s\",\"%s\")=%d right after cmp(\"%s\",\"%s\") and %d later, numeric order gives %d", ty, tr, g2, tx, tr, g5, e2);
        if (g3 != -e2 || g4 != -e1) FAIL("spiftool_version_compare", "model:antisymmetry", shape, "cmp(\"%s\",\"%s\")=%d and cmp(\"%s\",\"%s\")=%d, expected %d and %d", tr, ty, g3, tr, tx, g4, -e2, -e1);
        oc = oc * 9 + (uint64_t) (g1 + 1) * 3 + (uint64_t) (g2 + 1);
        free(hr);
    }
    { int e = tricmp(TWIN[d][k].x, TWIN[d][k].y); int g1 = call(hx, hy, 0xA5), g2 = call(hy, hx, 0xA5), g3 = call(hx, hx, 0xA5), g4 = call(hy, hy, 0xA5);
      if (g1 != e || g2 != -e || g3 != 0 || g4 != 0) FAIL("spiftool_version_compare", "model:ordering-law", shape, "twins against each other: cmp(x,y)=%d cmp(y,x)=%d cmp(x,x)=%d cmp(y,y)=%d, numeric order gives %d", g1, g2, g3, g4, e); }
    free(hx); free(hy);
    mc_nontrivial();
    mc_outcome(oc);
}

int main(int argc, char **argv)
{
    mc_init("C17", argc, argv);
    libast_debug_level = (unsigned) mc_dlevel();        /* --dlevel=N: the whole run at runtime debug level N (default 0) */
    int core = (int) mc_arg_int("core", 0);
    NFRAG = (int) mc_arg_int("frags", 2);
    build(core);
    NSTR = nstrings(NFRAG);
    mc_info("alphabet", "%d fragments (%s), <= %d fragments per side: %llu strings, all ordered pairs; every call made twice under stack fill 0xA5/0x5A; "
            "well-formed generator num(.num){0..2}[word[num]]: all pairs for the statement's ordering laws; %d spellings of numbers (zero-padded, 18..34 digits, around 2^32/2^63/2^64) in 5 version forms, all ordered pairs against decimal comparison", NFR, core ? "core alphabet" : "incl. runs of 127/128/129/5000 letters, digits, dots",
            NFRAG, (unsigned long long) NSTR, NSPELL);
    mc_e2_level(core ? "pairs_core" : "pairs", NFRAG, NSTR * NSTR, pair_case, pair_desc, NULL);
    if (!core) {
        g_nn = (int) mc_arg_int("nn", mc_thorough() ? 5 : 3);
        if (g_nn > NNUM) g_nn = NNUM;
        WF_COUNT = 3ULL * (uint64_t) (g_nn * g_nn * g_nn) * NWORD * 3;
        mc_e2_level("wellformed", g_nn, WF_COUNT * WF_COUNT, wf_case, wf_desc, NULL);
        mc_e2_level("number_spellings", NSPELL, (uint64_t) NFORM * NSPELL * NSPELL, sp_case, sp_desc, NULL);
        tw_find();
        mc_e2_level("digest_twins", TW_R, (uint64_t) NDIG * TW_PER, tw_case, tw_desc, NULL);
    }
    return mc_finish();
}
