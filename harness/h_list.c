/* h_list.c — C02: every list class is the same abstract sequence (incl. iterators).
 * E1 over the list interface for array, linked_list and dlinked_list against one reference
 * sequence with identities and NULL holes; white-box link invariants per class. */
#include <sys/resource.h>
#include "hcommon.h"

#define SMAX 12
static int S = 4;                 /* cap on the list length */
static int CLS;                   /* 0 array, 1 linked_list, 2 dlinked_list */
static const char *CN[3] = { "array", "linked_list", "dlinked_list" };
static const char LAB[4] = { 'a', 'b', 'c', 'd' };      /* 'd' is only ever a probe */

typedef struct { spif_list_t l; spif_obj_t e[SMAX + 2]; char lab[SMAX + 2]; int n; } st_t;

enum { K_APPEND, K_PREPEND, K_INSERT_AT, K_REMOVE, K_REMOVE_AT, K_REVERSE, K_DONE, K_INSERT_NULL, K_REMOVE_STORED, K_INSERT_SORTED };     /* K_INSERT_SORTED: the interface's insert() on a list in ascending order that does not hold the value yet (one place keeps the order) */     /* K_REMOVE_STORED: remove(the element stored at position i): it is the FIRST equal element that goes, whichever one was passed */     /* K_INSERT_NULL: insert_at(NULL object, i) - a NULL element is refused whatever the position */      /* done(): the list gives up everything it holds and stays usable */
typedef struct { int k, x, i; } op_t;
static op_t OPS[400]; static int NOPS;

static void build_ops(void)
{
    NOPS = 0;
    for (int x = 0; x < 3; x++) { OPS[NOPS++] = (op_t) { K_APPEND, x, 0 }; OPS[NOPS++] = (op_t) { K_PREPEND, x, 0 }; }
    for (int x = 0; x < 3; x++) for (int i = -(S + 2); i <= S + 2; i++) OPS[NOPS++] = (op_t) { K_INSERT_AT, x, i };
    for (int x = 0; x < 4; x++) OPS[NOPS++] = (op_t) { K_REMOVE, x, 0 };
    for (int i = -(S + 2); i <= S + 2; i++) OPS[NOPS++] = (op_t) { K_REMOVE_AT, 0, i };
    OPS[NOPS++] = (op_t) { K_REVERSE, 0, 0 };
    OPS[NOPS++] = (op_t) { K_DONE, 0, 0 };
    for (int i = -(S + 2); i <= S + 2; i++) OPS[NOPS++] = (op_t) { K_INSERT_NULL, 0, i };
    for (int i = 1; i < S; i++) OPS[NOPS++] = (op_t) { K_REMOVE_STORED, 0, i };
    for (int x = 0; x < 3; x++) OPS[NOPS++] = (op_t) { K_INSERT_SORTED, x, 0 };
}
static void op_name(int i, char *b, size_t n)
{
    op_t *o = &OPS[i];
    switch (o->k) {
    case K_APPEND: snprintf(b, n, "append(%c)", LAB[o->x]); break;
    case K_PREPEND: snprintf(b, n, "prepend(%c)", LAB[o->x]); break;
    case K_INSERT_AT: snprintf(b, n, "insert_at(%c,%d)", LAB[o->x], o->i); break;
    case K_REMOVE: snprintf(b, n, "remove(%c)", LAB[o->x]); break;
    case K_REMOVE_AT: snprintf(b, n, "remove_at(%d)", o->i); break;
    case K_REVERSE: snprintf(b, n, "reverse()"); break;
    case K_DONE: snprintf(b, n, "done()"); break;
    case K_INSERT_NULL: snprintf(b, n, "insert_at(NULL,%d)", o->i); break;
    case K_REMOVE_STORED: snprintf(b, n, "remove(get(%d))", o->i); break;
    case K_INSERT_SORTED: snprintf(b, n, "insert(%c)", LAB[o->x]); break;
    }
}
static spif_list_t new_list(void)
{
    switch (CLS) {
    case 0: return SPIF_LIST_NEW(array);
    case 1: return SPIF_LIST_NEW(linked_list);
    default: return SPIF_LIST_NEW(dlinked_list);
    }
}
static spif_obj_t mk(int x) { char t[2] = { LAB[x], 0 }; return SPIF_OBJ(spif_str_new_from_ptr((spif_charptr_t) t)); }
static void *fresh(void) { st_t *s = calloc(1, sizeof *s); s->l = new_list(); return s; }

static int new_len(st_t *s, op_t *o)
{
    switch (o->k) {
    case K_APPEND: case K_PREPEND: case K_INSERT_SORTED: return s->n + 1;
    case K_INSERT_AT: { int i = o->i < 0 ? o->i + s->n : o->i; if (i < 0) return s->n; return i > s->n ? i + 1 : s->n + 1; }
    default: return s->n;
    }
}
static int enabled(void *vs, int op)
{
    st_t *s = vs; op_t *o = &OPS[op];
    if ((o->k == K_INSERT_AT || o->k == K_REMOVE_AT || o->k == K_INSERT_NULL) && abs(o->i) > s->n + 2) return 0;     /* window(n) */
    if (o->k == K_INSERT_SORTED) {            /* ascending, no placeholders, value not held yet */
        for (int k = 0; k < s->n; k++) if (!s->e[k] || s->lab[k] == LAB[o->x] || (k && s->lab[k - 1] > s->lab[k])) return 0;
        return s->n + 1 <= S;
    }
    if (o->k == K_REMOVE_STORED) return o->i < s->n && s->e[o->i] != NULL;
    if (o->k == K_INSERT_NULL && CLS != 0) return 0;         /* only the array class documents a guard on the element (the linked classes store a NULL element; NULL is not an element value of the statement) */
    return new_len(s, o) <= S;
}
static const char *site(const char *m) { static char b[64]; snprintf(b, sizeof b, "%s.%s", CN[CLS], m); return b; }

/* white-box structure invariants; the black-box comparison is in probe() */
static void check_struct(st_t *s, const char *m, const char *shape)
{
    if (CLS == 0) {
        spif_array_t a = (spif_array_t) s->l;
        if (a->len != s->n) { FAIL(site(m), "invariant:len", shape, "array len=%d, model %d", a->len, s->n); return; }
        for (int i = 0; i < s->n; i++) if (a->items[i] != s->e[i]) { FAIL(site(m), "model:order", shape, "items[%d] is not the model's element", i); return; }
        if (s->n && mc_block_size(a->items) && mc_block_size(a->items) < sizeof(spif_obj_t) * (size_t) s->n)
            FAIL(site(m), "invariant:items-block-too-small", shape, "items block %zu bytes for %d elements", mc_block_size(a->items), s->n);
    } else if (CLS == 1) {
        spif_linked_list_t l = (spif_linked_list_t) s->l; int c = 0;
        if (l->len != s->n) { FAIL(site(m), "invariant:len", shape, "linked_list len=%d, model %d", l->len, s->n); return; }
        for (spif_linked_list_item_t it = l->head; it && c <= s->n + 1; it = it->next, c++)
            if (c < s->n && it->data != s->e[c]) { FAIL(site(m), "model:order", shape, "chain position %d is not the model's element", c); return; }
        if (c != s->n) FAIL(site(m), "invariant:chain-length", shape, "chain from head has %d%s items, len=%d", c, c > s->n ? "+" : "", s->n);
    } else {
        spif_dlinked_list_t l = (spif_dlinked_list_t) s->l; int c = 0;
        if (l->len != s->n) { FAIL(site(m), "invariant:len", shape, "dlinked_list len=%d, model %d", l->len, s->n); return; }
        if (s->n == 0) { if (l->head || l->tail) FAIL(site(m), "invariant:empty-list-has-head-or-tail", shape, "head=%p tail=%p on an empty list", (void *) l->head, (void *) l->tail); return; }
        if (!l->head || !l->tail) { FAIL(site(m), "invariant:missing-head-or-tail", shape, "head=%p tail=%p with %d elements", (void *) l->head, (void *) l->tail, s->n); return; }
        if (l->head->prev) { FAIL(site(m), "invariant:head-prev-not-null", shape, "head->prev set"); return; }
        if (l->tail->next) { FAIL(site(m), "invariant:tail-next-not-null", shape, "tail->next set (stale tail)"); return; }
        spif_dlinked_list_item_t it, last = NULL;
        for (it = l->head; it && c <= s->n + 1; last = it, it = it->next, c++) {
            if (c < s->n && it->data != s->e[c]) { FAIL(site(m), "model:order", shape, "next-chain position %d is not the model's element", c); return; }
            if (it->prev != last) { FAIL(site(m), "invariant:prev-link-mismatch", shape, "item %d: prev does not point at its predecessor", c); return; }
        }
        if (c != s->n) { FAIL(site(m), "invariant:chain-length", shape, "next-chain has %d%s items, len=%d", c, c > s->n ? "+" : "", s->n); return; }
        if (last != l->tail) FAIL(site(m), "invariant:tail-not-last", shape, "tail is not the last item of the next-chain");
    }
}

static void apply(void *vs, int op)
{
    st_t *s = vs; op_t *o = &OPS[op]; const char *shape = s->n == 0 ? "empty list" : "non-empty list";
    const char *m = "?";
    /* a caller looks at the last element before every operation (so every operation is preceded and followed by a positional read) */
    if (s->n > 0 && s->l && (int) SPIF_LIST_COUNT(s->l) == s->n) { spif_obj_t g = SPIF_LIST_GET(s->l, s->n - 1); if (g != s->e[s->n - 1]) { mc_set_shape("idx in range"); FAIL(site("get"), "model:return", "idx in range", "get(%d) on %d elements, asked between two operations, returned %s", s->n - 1, s->n, g ? "a wrong element" : "NULL"); } }
    switch (o->k) {
    case K_APPEND: { spif_obj_t x = mk(o->x); m = "append"; mc_set_shape(shape);
        spif_bool_t r = SPIF_LIST_APPEND(s->l, x);
        if (!r) FAIL(site(m), "model:return", shape, "append returned FALSE");
        s->e[s->n] = x; s->lab[s->n] = LAB[o->x]; s->n++; break; }
    case K_PREPEND: { spif_obj_t x = mk(o->x); m = "prepend"; mc_set_shape(shape);
        spif_bool_t r = SPIF_LIST_PREPEND(s->l, x);
        if (!r) FAIL(site(m), "model:return", shape, "prepend returned FALSE");
        memmove(s->e + 1, s->e, sizeof(s->e[0]) * (size_t) s->n); memmove(s->lab + 1, s->lab, (size_t) s->n);
        s->e[0] = x; s->lab[0] = LAB[o->x]; s->n++; break; }
    case K_INSERT_AT: { spif_obj_t x = mk(o->x); m = "insert_at";
        int i = o->i < 0 ? o->i + s->n : o->i;
        shape = i < 0 ? "idx normalises below zero" : (i > s->n ? "idx beyond the end (pads with NULL)" : (i == s->n ? "idx == len" : (s->n && i == s->n - 1 ? "idx == len-1" : (i == 0 ? "idx == 0" : "idx inside"))));
        mc_set_shape(shape);
        spif_bool_t r = SPIF_LIST_INSERT_AT(s->l, x, o->i);
        if (i < 0) {
            if (r) FAIL(site(m), "model:not-refused", shape, "insert_at(%d) on %d elements must be refused", o->i, s->n);
            else SPIF_OBJ_DEL(x);                   /* refused: the caller still owns x */
        } else {
            if (!r) { FAIL(site(m), "model:refused", shape, "insert_at(%d) on %d elements was refused", o->i, s->n); SPIF_OBJ_DEL(x); break; }
            if (i > s->n) { for (int k = s->n; k < i; k++) { s->e[k] = NULL; s->lab[k] = '-'; } s->e[i] = x; s->lab[i] = LAB[o->x]; s->n = i + 1; }
            else { memmove(s->e + i + 1, s->e + i, sizeof(s->e[0]) * (size_t) (s->n - i)); memmove(s->lab + i + 1, s->lab + i, (size_t) (s->n - i));
                   s->e[i] = x; s->lab[i] = LAB[o->x]; s->n++; }
        }
        break; }
    case K_REMOVE: { spif_obj_t p = mk(o->x); m = "remove";
        int at = -1; for (int k = 0; k < s->n; k++) if (s->lab[k] == LAB[o->x]) { at = k; break; }
        shape = at < 0 ? "element absent" : (at == 0 ? "first element" : (at == s->n - 1 ? "last element" : "middle element"));
        mc_set_shape(shape);
        spif_obj_t r = SPIF_LIST_REMOVE(s->l, p);
        SPIF_OBJ_DEL(p);
        if (at < 0) { if (r) FAIL(site(m), "model:return", shape, "remove of an absent value returned an element"); }
        else {
            if (r != s->e[at]) FAIL(site(m), "model:return", shape, "remove did not hand back the first equal element (position %d)", at);
            else { SPIF_OBJ_DEL(r);
                memmove(s->e + at, s->e + at + 1, sizeof(s->e[0]) * (size_t) (s->n - at - 1)); memmove(s->lab + at, s->lab + at + 1, (size_t) (s->n - at - 1)); s->n--; }
        }
        break; }
    case K_INSERT_SORTED: { spif_obj_t x = mk(o->x); m = "insert"; int at = 0;
        while (at < s->n && s->lab[at] < LAB[o->x]) at++;
        shape = s->n == 0 ? "empty list" : (at == 0 ? "sorts before everything" : (at == s->n ? "sorts after everything" : "sorts inside")); mc_set_shape(shape);
        if (!SPIF_LIST_INSERT(s->l, x)) FAIL(site(m), "model:return", shape, "insert returned FALSE");
        memmove(s->e + at + 1, s->e + at, sizeof(s->e[0]) * (size_t) (s->n - at)); memmove(s->lab + at + 1, s->lab + at, (size_t) (s->n - at));
        s->e[at] = x; s->lab[at] = LAB[o->x]; s->n++; break; }
    case K_REMOVE_STORED: { spif_obj_t p = s->e[o->i]; m = "remove";
        int at = -1; for (int k = 0; k < s->n; k++) if (s->lab[k] == s->lab[o->i]) { at = k; break; }
        shape = at == o->i ? "stored element, no equal element before it" : "stored element with an equal element before it";
        mc_set_shape(shape);
        spif_obj_t r = SPIF_LIST_REMOVE(s->l, p);
        if (r != s->e[at]) FAIL(site(m), "model:return", shape, "remove(element stored at %d) did not hand back the first equal element (position %d)", o->i, at);
        else { SPIF_OBJ_DEL(r);
            memmove(s->e + at, s->e + at + 1, sizeof(s->e[0]) * (size_t) (s->n - at - 1)); memmove(s->lab + at, s->lab + at + 1, (size_t) (s->n - at - 1)); s->n--; }
        break; }
    case K_REMOVE_AT: { m = "remove_at";
        int i = o->i < 0 ? o->i + s->n : o->i, ok = i >= 0 && i < s->n;
        shape = !ok ? (s->n == 0 ? "empty list" : (i < 0 ? "idx normalises below zero" : "idx at or past len")) : (i == 0 ? "first position" : (i == s->n - 1 ? "last position" : "middle position"));
        mc_set_shape(shape);
        spif_obj_t r = SPIF_LIST_REMOVE_AT(s->l, o->i);
        if (!ok) { if (r) FAIL(site(m), "model:not-refused", shape, "remove_at(%d) on %d elements returned an element", o->i, s->n); }
        else {
            if (r != s->e[i]) FAIL(site(m), "model:return", shape, "remove_at(%d) handed back the wrong element", o->i);
            else { if (r) SPIF_OBJ_DEL(r);
                memmove(s->e + i, s->e + i + 1, sizeof(s->e[0]) * (size_t) (s->n - i - 1)); memmove(s->lab + i, s->lab + i + 1, (size_t) (s->n - i - 1)); s->n--; }
        }
        break; }
    case K_INSERT_NULL: { m = "insert_at";
        int i = o->i < 0 ? o->i + s->n : o->i;
        shape = i > s->n ? "NULL object, idx beyond the end" : "NULL object";
        mc_set_shape(shape);
        if (SPIF_LIST_INSERT_AT(s->l, (spif_obj_t) NULL, o->i)) FAIL(site(m), "model:not-refused", shape, "insert_at(NULL,%d) on %d elements was accepted", o->i, s->n);
        break; }
    case K_DONE: { m = "done"; mc_set_shape(shape);
        spif_bool_t r = SPIF_LIST_DONE(s->l);
        if (!r) FAIL(site(m), "model:return", shape, "done returned FALSE");
        s->n = 0; break; }
    case K_REVERSE: { m = "reverse"; mc_set_shape(shape);
        spif_bool_t r = SPIF_LIST_REVERSE(s->l);
        if (!r) FAIL(site(m), "model:return", shape, "reverse returned FALSE");
        for (int a = 0, b = s->n - 1; a < b; a++, b--) { spif_obj_t t = s->e[a]; s->e[a] = s->e[b]; s->e[b] = t; char c = s->lab[a]; s->lab[a] = s->lab[b]; s->lab[b] = c; }
        break; }
    }
    check_struct(s, m, shape);
}

static void probe(void *vs)
{
    st_t *s = vs; spif_list_t l = s->l; int n = s->n;
    int holes = 0; for (int i = 0; i < n; i++) if (!s->e[i]) holes++;
    const char *shape = n == 0 ? "empty list" : (holes ? "list with NULL placeholders" : "non-empty list");
    mc_set_shape(shape);
    /* the first thing asked of the list after the operation is its last position (the last thing asked before the operation was the same position) */
    if (n > 0 && (int) SPIF_LIST_COUNT(l) == n) { spif_obj_t g = SPIF_LIST_GET(l, n - 1); if (g != s->e[n - 1]) FAIL(site("get"), "model:return", "idx in range", "get(%d) on %d elements, asked first after the operation, returned %s", n - 1, n, g ? "a wrong element" : "NULL"); }
    /* a second list of the same class lives next to this one for a moment: its first append and prepend right after whatever this one just did concern only itself */
    { spif_list_t b = new_list(); spif_obj_t x = mk(0), y = mk(1);
      if (!SPIF_LIST_APPEND(b, x) || !SPIF_LIST_PREPEND(b, y)) FAIL(site("append"), "model:return", shape, "append/prepend on a second, empty list returned FALSE");
      spif_iterator_t it = SPIF_LIST_ITERATOR(b); int k = 0; spif_obj_t g[4] = { 0, 0, 0, 0 };
      while (it && k < 4 && SPIF_ITERATOR_HAS_NEXT(it)) g[k++] = SPIF_ITERATOR_NEXT(it);
      if (it) SPIF_ITERATOR_DEL(it);
      if ((int) SPIF_LIST_COUNT(b) != 2 || k != 2 || g[0] != y || g[1] != x || SPIF_LIST_GET(b, 0) != y || SPIF_LIST_GET(b, 1) != x)
          FAIL(site("append"), "model:second-list", shape, "a second list holds count=%d and iterates %d elements after one append and one prepend", (int) SPIF_LIST_COUNT(b), k);
      SPIF_LIST_DEL(b); }
    if ((int) SPIF_LIST_COUNT(l) != n) FAIL(site("count"), "model:return", shape, "count=%d model %d", (int) SPIF_LIST_COUNT(l), n);
    for (int i = -(n + 2); i <= n + 2; i++) {
        int k = i < 0 ? i + n : i; spif_obj_t ex = (k >= 0 && k < n) ? s->e[k] : NULL;
        spif_obj_t g = SPIF_LIST_GET(l, i);
        if (g != ex) FAIL(site("get"), "model:return", (k >= 0 && k < n) ? "idx in range" : "idx out of range", "get(%d) on %d elements returned %s", i, n, g ? "a wrong element" : "NULL");
    }
    for (int x = 0; x < 4; x++) {
        spif_obj_t p = mk(x); int at = -1;
        for (int k = 0; k < n; k++) if (s->lab[k] == LAB[x]) { at = k; break; }
        const char *sh = at < 0 ? "value absent" : "value present";
        int gi = (int) SPIF_LIST_INDEX(l, p);
        if (gi != at) FAIL(site("index"), "model:return", sh, "index(%c)=%d expected %d", LAB[x], gi, at);
        spif_obj_t f = SPIF_LIST_FIND(l, p);
        if (f != (at < 0 ? NULL : s->e[at])) FAIL(site("find"), "model:return", sh, "find(%c) did not return the first equal stored element", LAB[x]);
        spif_bool_t c = SPIF_LIST_CONTAINS(l, p);
        if ((c ? 1 : 0) != (at >= 0)) FAIL(site("contains"), "model:return", sh, "contains(%c)=%d", LAB[x], (int) c);
        SPIF_OBJ_DEL(p);
    }
    /* no element is asked for: nothing is found and nothing is contained, placeholders or not (at runtime level 0; at higher levels the refusal is loud) */
    if (libast_debug_level == 0) {
        if (SPIF_LIST_FIND(l, (spif_obj_t) NULL)) FAIL(site("find"), "model:return", "NULL key", "find(NULL) returned an element");
        if (SPIF_LIST_CONTAINS(l, (spif_obj_t) NULL)) FAIL(site("contains"), "model:return", "NULL key", "contains(NULL) is TRUE (the list holds %d elements)", n);
    }
    /* the same questions asked with a stored element itself as the key (the object get(i) hands out): the answer is still the FIRST equal element */
    for (int i = 0; i < n; i++) {
        if (!s->e[i]) continue;
        int at = -1; for (int k = 0; k < n; k++) if (s->e[k] && s->lab[k] == s->lab[i]) { at = k; break; }
        const char *sh = at == i ? "stored element, no equal element before it" : "stored element with an equal element before it";
        int gi = (int) SPIF_LIST_INDEX(l, s->e[i]);
        if (gi != at) FAIL(site("index"), "model:return", sh, "index(element stored at %d)=%d, the first equal element is at %d", i, gi, at);
        if (SPIF_LIST_FIND(l, s->e[i]) != s->e[at]) FAIL(site("find"), "model:return", sh, "find(element stored at %d) did not return the first equal stored element (position %d)", i, at);
        if (!SPIF_LIST_CONTAINS(l, s->e[i])) FAIL(site("contains"), "model:return", sh, "contains(element stored at %d) is FALSE", i);
    }
    { spif_obj_t *a = SPIF_LIST_TO_ARRAY(l);
      if (n && !a) FAIL(site("to_array"), "model:return", shape, "to_array returned NULL");
      else { for (int i = 0; i < n; i++) if (a[i] != s->e[i]) { FAIL(site("to_array"), "model:order", shape, "to_array[%d] differs", i); break; } }
      if (a) free(a); }
    { spif_iterator_t it = SPIF_LIST_ITERATOR(l);
      if (!it) FAIL(site("iterator"), "model:return", shape, "iterator() returned NULL");
      else {
          int i;
          for (i = 0; i < n; i++) {
              if (!SPIF_ITERATOR_HAS_NEXT(it)) { FAIL(site("iterator"), "model:exhausted-early", shape, "has_next FALSE after %d of %d elements", i, n); break; }
              spif_obj_t g = SPIF_ITERATOR_NEXT(it);
              if (g != s->e[i]) { FAIL(site("iterator"), "model:order", shape, "iterator element %d differs", i); break; }
          }
          if (i == n) {
              for (int r = 0; r < 2; r++) {
                  if (SPIF_ITERATOR_HAS_NEXT(it)) { FAIL(site("iterator"), "model:not-exhausted", shape, "has_next TRUE after %d elements", n); break; }
                  if (SPIF_ITERATOR_NEXT(it)) { FAIL(site("iterator"), "model:not-exhausted", shape, "next returned an element after exhaustion"); break; }
              }
          }
          SPIF_ITERATOR_DEL(it);
      } }
    /* two iterators alive at once (an earlier iterator has been deleted by now): each walks the whole list on its own */
    { spif_iterator_t i1 = SPIF_LIST_ITERATOR(l), i2 = NULL;
      if (i1) {
          int k1 = 0, k2 = 0, bad = 0;
          if (n && SPIF_ITERATOR_HAS_NEXT(i1)) { if (SPIF_ITERATOR_NEXT(i1) != s->e[0]) bad = 1; k1 = 1; }
          i2 = SPIF_LIST_ITERATOR(l);
          if (!i2) FAIL(site("iterator"), "model:return", shape, "a second iterator() returned NULL");
          else if (i2 == i1) FAIL(site("iterator"), "model:shared-iterator", shape, "two live iterators are the same object");
          else {
              while (k2 <= n + 1 && SPIF_ITERATOR_HAS_NEXT(i2)) { spif_obj_t g = SPIF_ITERATOR_NEXT(i2); if (k2 < n && g != s->e[k2]) bad = 1; k2++; }
              while (k1 <= n + 1 && SPIF_ITERATOR_HAS_NEXT(i1)) { spif_obj_t g = SPIF_ITERATOR_NEXT(i1); if (k1 < n && g != s->e[k1]) bad = 1; k1++; }
              if (k1 != n || k2 != n || bad) FAIL(site("iterator"), "model:interleaved-iterators", shape, "two interleaved iterators yielded %d and %d elements of %d%s", k1, k2, n, bad ? " (wrong elements)" : "");
          }
          if (i2 && i2 != i1) SPIF_ITERATOR_DEL(i2);
          SPIF_ITERATOR_DEL(i1);
      } }
    /* a copy of an iterator taken after k steps yields exactly the remaining n-k elements (k = n: it is exhausted) */
    for (int k = 0; k <= n; k++) {
        spif_iterator_t it = SPIF_LIST_ITERATOR(l); if (!it) break;
        for (int j = 0; j < k && SPIF_ITERATOR_HAS_NEXT(it); j++) (void) SPIF_ITERATOR_NEXT(it);
        spif_iterator_t c = (spif_iterator_t) SPIF_ITERATOR_DUP(it);
        if (!c || c == it) FAIL(site("iterator_dup"), "model:return", shape, "dup of an iterator returned %s", c ? "the iterator itself" : "NULL");
        else { int got = 0, bad = 0; while (got <= n + 1 && SPIF_ITERATOR_HAS_NEXT(c)) { spif_obj_t g = SPIF_ITERATOR_NEXT(c); if (k + got < n && g != s->e[k + got]) bad = 1; got++; }
            if (got != n - k || bad) FAIL(site("iterator_dup"), "model:position", shape, "a copy taken after %d of %d steps yielded %d elements%s, expected %d", k, n, got, bad ? " (wrong ones)" : "", n - k);
            SPIF_ITERATOR_DEL(c); }
        SPIF_ITERATOR_DEL(it);
    }
    { spif_list_t d = (spif_list_t) SPIF_LIST_DUP(l);
      if (!d) FAIL(site("dup"), "model:return", shape, "dup returned NULL");
      else if (d == l) FAIL(site("dup"), "model:same-object", shape, "dup returned self");
      else {
          if (SPIF_OBJ_CLASS(d) != SPIF_OBJ_CLASS(l)) FAIL(site("dup"), "model:class", shape, "dup has a different class");
          if ((int) SPIF_LIST_COUNT(d) != n) FAIL(site("dup"), "model:count", shape, "dup count %d, original %d", (int) SPIF_LIST_COUNT(d), n);
          else for (int i = 0; i < n; i++) {
              spif_obj_t g = SPIF_LIST_GET(d, i);
              if (!s->e[i]) { if (g) { FAIL(site("dup"), "model:hole-not-preserved", shape, "position %d should be a NULL placeholder", i); break; } }
              else if (!g || g == s->e[i] || !SPIF_CMP_IS_EQUAL(SPIF_OBJ_COMP(g, s->e[i]))) { FAIL(site("dup"), "model:element", shape, "position %d is not an equal, distinct copy", i); break; }
          }
          { st_t t = *s; t.l = d; for (int i = 0; i < n; i++) t.e[i] = SPIF_LIST_GET(d, i); check_struct(&t, "dup", shape); }
          SPIF_LIST_DEL(d);
      } }
    { spif_str_t b = SPIF_LIST_SHOW(l, (spif_str_t) NULL, 0); if (b) spif_str_del(b); }
    check_struct(s, "queries", shape);
}
static void canon(void *vs, char *b, size_t n)
{
    st_t *s = vs; size_t o = 0;
    o += (size_t) snprintf(b, n, "[");
    for (int i = 0; i < s->n && o + 2 < n; i++) b[o++] = s->lab[i];
    snprintf(b + o, n - o, "]");
}
static void teardown(void *vs) { st_t *s = vs; SPIF_LIST_DEL(s->l); free(s); }

/* ---- large lists: counts around 127/128, 255/256 and 512, built by append, prepend or insert_at(middle); every position is read back,
 * then insert_at far beyond the end (NULL placeholders), remove_at at both ends and the middle, reverse, iterator */
static const int BIGN[] = { 126, 127, 128, 129, 254, 255, 256, 257, 511, 512, 513 };
#define NBIGN ((int) (sizeof BIGN / sizeof BIGN[0]))
static void big_decode(uint64_t idx, int *cls, int *n, int *how) { *cls = (int) (idx % 3); idx /= 3; *how = (int) (idx % 3); idx /= 3; *n = BIGN[idx % NBIGN]; }
static void big_desc(uint64_t idx, void *ctx, char *b, size_t n_)
{
    int cls, n, how; (void) ctx; big_decode(idx, &cls, &n, &how);
    snprintf(b, n_, "%s list of %d elements built by %s; get/index of every position, insert_at(count+3), remove_at(0, middle, last), reverse, iteration", CN[cls], n, how == 0 ? "append" : (how == 1 ? "prepend" : "insert_at(middle)"));
}
static int big_is(spif_obj_t o, int k) { char t[16]; snprintf(t, sizeof t, "e%05d", k); return o && SPIF_OBJ_IS_STR(o) && SPIF_STR(o)->s && !strcmp((char *) SPIF_STR(o)->s, t); }
static void big_check(spif_list_t l, const int *model, int m, const char *what, const char *shape)
{
    if ((int) SPIF_LIST_COUNT(l) != m) { FAIL(site("count"), "model:return", shape, "%s: count=%d, model %d", what, (int) SPIF_LIST_COUNT(l), m); return; }
    for (int i = 0; i < m; i++) { spif_obj_t g = SPIF_LIST_GET(l, i); if (model[i] < 0 ? g != NULL : !big_is(g, model[i])) { FAIL(site("get"), "model:element", shape, "%s: position %d of %d is wrong", what, i, m); return; } }
    spif_iterator_t it = SPIF_LIST_ITERATOR(l); int k = 0;
    while (it && k <= m && SPIF_ITERATOR_HAS_NEXT(it)) { spif_obj_t g = SPIF_ITERATOR_NEXT(it); if (k < m && (model[k] < 0 ? g != NULL : !big_is(g, model[k]))) { FAIL(site("iterator"), "model:order", shape, "%s: iteration position %d is wrong", what, k); break; } k++; }
    if (it) SPIF_ITERATOR_DEL(it);
    if (k != m) FAIL(site("iterator"), "model:count", shape, "%s: iteration yielded %d of %d", what, k, m);
}
static void big_case(uint64_t idx, void *ctx)
{
    int cls, n, how; (void) ctx; big_decode(idx, &cls, &n, &how);
    CLS = cls;
    char shape[64]; snprintf(shape, sizeof shape, "%d elements", n); mc_set_shape(shape);
    spif_list_t l = new_list(); static int model[700]; int m = 0; char t[16];
    for (int i = 0; i < n; i++) {
        snprintf(t, sizeof t, "e%05d", i); spif_obj_t e = SPIF_OBJ(spif_str_new_from_ptr((spif_charptr_t) t));
        if (how == 0) { SPIF_LIST_APPEND(l, e); model[m++] = i; }
        else if (how == 1) { SPIF_LIST_PREPEND(l, e); memmove(model + 1, model, sizeof(int) * (size_t) m); model[0] = i; m++; }
        else { int pos = m / 2; SPIF_LIST_INSERT_AT(l, e, pos); memmove(model + pos + 1, model + pos, sizeof(int) * (size_t) (m - pos)); model[pos] = i; m++; }
    }
    big_check(l, model, m, "after building", shape);
    for (int i = 0; i < m; i += (m > 40 ? 7 : 1)) { snprintf(t, sizeof t, "e%05d", model[i]); spif_obj_t p = SPIF_OBJ(spif_str_new_from_ptr((spif_charptr_t) t));
        if ((int) SPIF_LIST_INDEX(l, p) != i) { FAIL(site("index"), "model:return", shape, "index of the element at position %d is %d", i, (int) SPIF_LIST_INDEX(l, p)); SPIF_OBJ_DEL(p); break; }
        SPIF_OBJ_DEL(p); }
    { snprintf(t, sizeof t, "e%05d", 90000); SPIF_LIST_INSERT_AT(l, SPIF_OBJ(spif_str_new_from_ptr((spif_charptr_t) t)), m + 3); model[m] = model[m + 1] = model[m + 2] = -1; model[m + 3] = 90000; m += 4; }
    big_check(l, model, m, "after insert_at(count+3)", shape);
    { int pos[3] = { 0, m / 2, -1 };
      for (int r = 0; r < 3; r++) { int at = pos[r] < 0 ? m - 1 : pos[r]; spif_obj_t g = SPIF_LIST_REMOVE_AT(l, pos[r] < 0 ? -1 : at);
          if (model[at] < 0 ? g != NULL : !big_is(g, model[at])) FAIL(site("remove_at"), "model:return", shape, "remove_at(%d) of %d handed back the wrong element", pos[r], m);
          if (g) SPIF_OBJ_DEL(g);
          memmove(model + at, model + at + 1, sizeof(int) * (size_t) (m - at - 1)); m--; } }
    big_check(l, model, m, "after three remove_at", shape);
    SPIF_LIST_REVERSE(l); for (int i = 0, j = m - 1; i < j; i++, j--) { int x = model[i]; model[i] = model[j]; model[j] = x; }
    big_check(l, model, m, "after reverse", shape);
    SPIF_LIST_DEL(l);
    mc_nontrivial();
    mc_outcome((uint64_t) n * 9 + (uint64_t) how * 3 + (uint64_t) cls);
}
/* ---- a very long list (400000 elements, built by the cheap operation of each class), duplicated, spot-checked and deleted: anything
 * that uses stack or time in proportion to the length per element shows here; run in the unoptimised plain build */
static void huge_desc(uint64_t idx, void *ctx, char *b, size_t n) { (void) ctx; snprintf(b, n, "%s list of 400000 elements: dup, count, five positions, reverse twice, index/contains of the last element, to_array, iterator walk, delete both", CN[idx % 3]); }
static void huge_case(uint64_t idx, void *ctx)
{
    const int n = 400000; (void) ctx; CLS = (int) (idx % 3);
    mc_set_shape("400000 elements");
    spif_list_t l = new_list(); char t[16];
    for (int i = 0; i < n; i++) { snprintf(t, sizeof t, "e%06d", CLS == 1 ? n - 1 - i : i); spif_obj_t e = SPIF_OBJ(spif_str_new_from_ptr((spif_charptr_t) t)); if (CLS == 1) SPIF_LIST_PREPEND(l, e); else SPIF_LIST_APPEND(l, e); }
    spif_list_t d = (spif_list_t) SPIF_LIST_DUP(l);
    if (!d) FAIL(site("dup"), "model:return", "400000 elements", "dup returned NULL");
    else {
        if ((int) SPIF_LIST_COUNT(d) != n) FAIL(site("dup"), "model:count", "400000 elements", "the copy counts %d", (int) SPIF_LIST_COUNT(d));
        int pos[5] = { 0, 1, n / 2, n - 2, n - 1 };
        for (int k = 0; k < 5; k++) { snprintf(t, sizeof t, "e%06d", pos[k]); spif_obj_t g = SPIF_LIST_GET(d, pos[k]), o = SPIF_LIST_GET(l, pos[k]);
            if (!g || g == o || !SPIF_OBJ_IS_STR(g) || strcmp((char *) SPIF_STR(g)->s, t)) { FAIL(site("dup"), "model:element", "400000 elements", "position %d of the copy is not an equal distinct copy", pos[k]); break; } }
        SPIF_LIST_DEL(d);
    }
    /* every whole-list operation on the long list: reverse (twice), index and contains of the last element, to_array, an iterator walk */
    { struct rlimit rl; if (!getrlimit(RLIMIT_STACK, &rl) && (rl.rlim_cur == RLIM_INFINITY || rl.rlim_cur > (8u << 20))) { rl.rlim_cur = 8u << 20; setrlimit(RLIMIT_STACK, &rl); } }       /* the usual 8 MiB, whatever the caller's limit */
    if (!SPIF_LIST_REVERSE(l)) FAIL(site("reverse"), "model:return", "400000 elements", "reverse returned FALSE");
    { spif_obj_t g = SPIF_LIST_GET(l, 0); snprintf(t, sizeof t, "e%06d", n - 1); if (!g || strcmp((char *) SPIF_STR(g)->s, t)) FAIL(site("reverse"), "model:element", "400000 elements", "the first element after reverse is not the former last one"); }
    SPIF_LIST_REVERSE(l);
    { snprintf(t, sizeof t, "e%06d", n - 1); spif_obj_t p = SPIF_OBJ(spif_str_new_from_ptr((spif_charptr_t) t));
      if ((int) SPIF_LIST_INDEX(l, p) != n - 1) FAIL(site("index"), "model:return", "400000 elements", "index of the last element is %d", (int) SPIF_LIST_INDEX(l, p));
      if (!SPIF_LIST_CONTAINS(l, p)) FAIL(site("contains"), "model:return", "400000 elements", "contains(last element) is FALSE");
      SPIF_OBJ_DEL(p); }
    { spif_obj_t *a = SPIF_LIST_TO_ARRAY(l); if (!a || a[n - 1] != SPIF_LIST_GET(l, n - 1)) FAIL(site("to_array"), "model:order", "400000 elements", "to_array's last entry is not the last element"); if (a) free(a); }
    { spif_iterator_t it = SPIF_LIST_ITERATOR(l); int k = 0; while (it && k <= n && SPIF_ITERATOR_HAS_NEXT(it)) { (void) SPIF_ITERATOR_NEXT(it); k++; } if (it) SPIF_ITERATOR_DEL(it); if (k != n) FAIL(site("iterator"), "model:count", "400000 elements", "the iterator yields %d elements", k); }
    SPIF_LIST_DEL(l);
    mc_nontrivial();
}
/* ---- positions at the far ends of the 32-bit index type: get/remove_at refuse them all, insert_at refuses the negative ones */
static const int XI[] = { 2147483647, 2147483646, 1073741824, 65536, -65536, -1073741824, -2147483647, -2147483647 - 1 };
#define NXI ((int) (sizeof XI / sizeof XI[0]))
static void xi_desc(uint64_t idx, void *ctx, char *b, size_t n) { (void) ctx; snprintf(b, n, "%s list [a,b,c]: get, remove_at%s with position %d", CN[idx % 3], XI[idx / 3] < 0 ? ", insert_at" : "", XI[idx / 3]); }
static void xi_case(uint64_t idx, void *ctx)
{
    int at = XI[idx / 3]; (void) ctx; CLS = (int) (idx % 3);
    mc_set_shape("position far outside the list");
    spif_list_t l = new_list();
    spif_obj_t e[3]; for (int k = 0; k < 3; k++) { e[k] = mk(k); SPIF_LIST_APPEND(l, e[k]); }
    if (SPIF_LIST_GET(l, at)) FAIL(site("get"), "model:not-refused", "position far outside the list", "get(%d) on 3 elements returned an element", at);
    spif_obj_t r = SPIF_LIST_REMOVE_AT(l, at);
    if (r) FAIL(site("remove_at"), "model:not-refused", "position far outside the list", "remove_at(%d) on 3 elements returned an element", at);
    if (at < 0) { spif_obj_t x = mk(0); if (SPIF_LIST_INSERT_AT(l, x, at)) FAIL(site("insert_at"), "model:not-refused", "position far outside the list", "insert_at(%d) on 3 elements must be refused", at); else SPIF_OBJ_DEL(x); }
    if ((int) SPIF_LIST_COUNT(l) != 3 || SPIF_LIST_GET(l, 0) != e[0] || SPIF_LIST_GET(l, 1) != e[1] || SPIF_LIST_GET(l, 2) != e[2]) FAIL(site("remove_at"), "model:changed", "position far outside the list", "the list changed");
    SPIF_LIST_DEL(l);
    mc_nontrivial();
}
int main(int argc, char **argv)
{
    mc_init("C02", argc, argv);
    libast_debug_level = (unsigned) mc_dlevel();        /* --dlevel=N: the whole run at runtime debug level N (default 0) */
    S = (int) mc_arg_int("S", mc_thorough() ? 6 : 4);
    if (S > SMAX - 1) S = SMAX - 1;
    build_ops();
    mc_info("alphabet", "elements {a,b,c} (fresh str object per insertion) + NULL placeholders; ops append, prepend, insert_at(x,i) i in window(n), remove(x in a..d), remove_at(i) i in window(n), reverse; size cap %d; %d opcodes; "
            "probe: count, get over window(n), index/find/contains(a..d), to_array, iterator to exhaustion + 2, two interleaved iterators, dup read-back, show; white-box link invariants", S, NOPS);
    const char *only = mc_arg("class", NULL);
    if (mc_arg("only", NULL) && !strcmp(mc_arg("only", ""), "huge")) { mc_e2_level("huge", 400000, 3, huge_case, huge_desc, NULL); return mc_finish(); }
    for (CLS = 0; CLS < 3; CLS++) {
        if (only && strcmp(only, CN[CLS])) continue;
        mc_sys sys = { CN[CLS], NOPS, op_name, fresh, enabled, apply, probe, canon, teardown, (int) mc_arg_int("lookahead", 1) };
        mc_e1_run(&sys, (int) mc_arg_int("depth", 40));
    }
    if (!only) mc_e2_level("extreme_index", 32, (uint64_t) NXI * 3, xi_case, xi_desc, NULL);
    if (!only) mc_e2_level("large", 513, (uint64_t) 3 * 3 * NBIGN, big_case, big_desc, NULL);
    return mc_finish();
}
