/* h_tokens.c — C12: split, tok and the word utilities implement one quoting grammar consistently.
 * E2: every string of length <= N over {a,b,space,',','"','\'','\\',tab} x delimiter sets
 * {NULL(whitespace), ",", ", "}; reference tokenizer / word grammar written from the statement. */
#include "hcommon.h"
#include <ctype.h>
#include <unistd.h>

static char SYM[8] = { 'a', 'b', ' ', ',', '"', '\'', '\\', '\t' };        /* --hb=N replaces the second letter by the byte N (0xA0, 0x89: bytes that toascii() turns into blanks) */
#define NSYM 8
static const char *DELIMS[6] = { NULL, ",", ", ", ";:|/+=&%#@!~^*?,", ";:|/+=&%#@!~^*?\t", "\"," };      /* the last one: a quote character that is also a delimiter (outside a quoted stretch it separates) */      /* the last two: 16 delimiters, equal but for the last one */
#define NDELIMS 6
static int g_len;

#define MAXTOK 24
typedef struct { int n; char t[MAXTOK][24]; } toks_t;

static int is_delim(const char *d, char c) { return c && (d ? strchr(d, c) != NULL : isspace((unsigned char) c)); }

/* reference tokenizer (DESIGN Appendix A.8) */
static void ref_split(const char *d, const char *s, toks_t *out)
{
    out->n = 0;
    while (*s && is_delim(d, *s)) s++;
    while (*s && out->n < MAXTOK) {
        char *o = out->t[out->n]; char q = 0;
        while (*s && (q || !is_delim(d, *s))) {
            if (*s == '"' || *s == '\'') {
                if (!q) q = *s; else if (q == *s) q = 0; else *o++ = *s;
                s++;
            } else {
                if (*s == '\\' && s[1] && (is_delim(d, s[1]) || (q && s[1] == q))) s++;
                *o++ = *s++;
            }
        }
        *o = 0; out->n++;
        while (*s && is_delim(d, *s)) s++;
    }
}
static void trim(char *t)
{
    size_t a = 0, b = strlen(t);
    while (a < b && isspace((unsigned char) t[a])) a++;
    while (b > a && isspace((unsigned char) t[b - 1])) b--;
    memmove(t, t + a, b - a); t[b - a] = 0;
}
static void word(uint64_t idx, char *out) { int d[16]; mc_word_decode(idx, NSYM, g_len, d); for (int i = 0; i < g_len; i++) out[i] = SYM[d[i]]; out[g_len] = 0; }
static const char *shape_of(const char *s)
{
    size_t n = strlen(s); int q = 0;
    for (size_t i = 0; i < n; i++) if (s[i] == '"' || s[i] == '\'') q++;
    if (n && s[n - 1] == '\\') return "ends in a backslash";
    if (strstr(s, "\"'") || strstr(s, "'\"") || (q >= 2 && strchr(s, '"') && strchr(s, '\''))) return "both quote kinds";
    if (strstr(s, "\\\"") || strstr(s, "\\'")) return "backslash before a quote";
    if (q == 1) return "unterminated quote";
    if (q) return "quoted";
    if (strchr(s, '\\')) return "backslash";
    return "plain";
}
static void desc(uint64_t idx, void *ctx, char *b, size_t n)
{
    char s[32], e[100]; (void) ctx; word(idx, s); mc_esc(s, strlen(s), e, sizeof e);
    snprintf(b, n, "split/tok with delimiters {whitespace | \",\" | \", \" | two 16-character sets} and num_words/get_word/get_pword on \"%s\"", e);
}

/* reference word grammar: whitespace-separated; a word that opens with a quote runs to the matching quote;
 * a backslash in front of a quote character makes it literal (pinned from get_word) */
typedef struct { int n; char w[MAXTOK][24]; } words_t;
static void ref_words(const char *s, words_t *out)
{
    size_t i = 0; out->n = 0;
    while (s[i] && isspace((unsigned char) s[i])) i++;
    while (s[i] && out->n < MAXTOK) {
        char q = 0, *o = out->w[out->n];
        if (s[i] == '"' || s[i] == '\'') q = s[i++];
        while (s[i] && (q ? s[i] != q : !isspace((unsigned char) s[i]))) {
            if (s[i] == '\\' && (s[i + 1] == '"' || s[i + 1] == '\'')) i++;
            *o++ = s[i++];
        }
        if (s[i] == '"' || s[i] == '\'') i++;
        *o = 0; out->n++;
        while (s[i] && isspace((unsigned char) s[i])) i++;
    }
}

static void case_fn(uint64_t idx, void *ctx)
{
    mc_strings_prelude();
    char raw[32]; (void) ctx; word(idx, raw);
    const char *shape = shape_of(raw); char e[100], e2[100];
    mc_set_shape(shape);
    mc_esc(raw, strlen(raw), e, sizeof e);
    for (int di = 0; di < NDELIMS; di++) {
        const char *d = DELIMS[di];
        toks_t ref; memset(&ref, 0, sizeof ref); ref_split(d, raw, &ref);
        char *s = mc_heapstr(raw);                                   /* exact-size block: one byte past the terminator is a redzone */
        char *hd = mc_heapstr(d);
        /* ---- spiftool_split */
        char **sl = (char **) spiftool_split((spif_charptr_t) hd, (spif_charptr_t) s);
        int got = 0; if (sl) while (sl[got] && got < 64) got++;
        if (strcmp(s, raw)) FAIL("spiftool_split", "model:source-changed", shape, "input string modified");
        if ((sl == NULL) != (ref.n == 0)) FAIL("spiftool_split", "model:null-iff-empty", shape, "returned %s for %d reference tokens", sl ? "a list" : "NULL", ref.n);
        else if (got != ref.n) FAIL("spiftool_split", "model:token-count", shape, "%d tokens, reference %d (delimiters %s)", got, ref.n, d ? d : "whitespace");
        else for (int i = 0; i < got; i++) if (strcmp(sl[i], ref.t[i])) {
            mc_esc(sl[i], strlen(sl[i]), e, sizeof e); mc_esc(ref.t[i], strlen(ref.t[i]), e2, sizeof e2);
            FAIL("spiftool_split", "model:token", shape, "token %d is \"%s\", reference \"%s\" (delimiters %s)", i, e, e2, d ? d : "whitespace"); break; }
        /* ---- tok: same list modulo trimming, stable under re-eval */
        spif_tok_t t = spif_tok_new_from_ptr((spif_charptr_t) s);
        if (d) { spif_str_t sep = spif_str_new_from_ptr((spif_charptr_t) hd); spif_tok_set_sep(t, sep); }
        /* a copy made before the first evaluation tokenizes like its original */
        { spif_tok_t t2 = spif_tok_dup(t);
          if (!t2) FAIL("spif_tok_dup", "model:return", shape, "dup returned NULL");
          else { if (!spif_tok_eval(t2)) FAIL("spif_tok_eval", "model:return", shape, "eval of a copy returned FALSE");
              else { spif_list_t tl = spif_tok_get_tokens(t2); int tn = tl ? (int) SPIF_LIST_COUNT(tl) : 0;
                  if (tn != ref.n) FAIL("spif_tok_dup", "model:token-count", shape, "a copy made before eval gives %d tokens, the grammar %d (delimiters %s)", tn, ref.n, d ? d : "whitespace");
                  else for (int i = 0; i < tn; i++) { spif_str_t ts = SPIF_STR(SPIF_LIST_GET(tl, i)); char r[24]; strcpy(r, ref.t[i]); trim(r); const char *tt = (ts && ts->s) ? (char *) ts->s : "";
                      if (strcmp(tt, r)) { FAIL("spif_tok_dup", "model:token", shape, "token %d of a copy made before eval differs (delimiters %s)", i, d ? d : "whitespace"); break; } } }
              spif_tok_del(t2); } }
        for (int round = 0; round < 2; round++) {
            if (!spif_tok_eval(t)) { FAIL("spif_tok_eval", "model:return", shape, "eval returned FALSE"); break; }
            spif_list_t tl = spif_tok_get_tokens(t);
            int tn = tl ? (int) SPIF_LIST_COUNT(tl) : 0;
            if (tn != ref.n) { FAIL("spif_tok_eval", "model:token-count", shape, "%d tokens (round %d), split grammar gives %d (delimiters %s)", tn, round, ref.n, d ? d : "whitespace"); break; }
            int bad = 0;
            for (int i = 0; i < tn && !bad; i++) {
                spif_str_t ts = SPIF_STR(SPIF_LIST_GET(tl, i)); char r[24]; strcpy(r, ref.t[i]); trim(r);
                const char *tt = (ts && ts->s) ? (char *) ts->s : "";
                if (strcmp(tt, r)) { mc_esc(tt, strlen(tt), e, sizeof e); mc_esc(r, strlen(r), e2, sizeof e2);
                    FAIL("spif_tok_eval", "model:token", shape, "token %d is \"%s\", trimmed split token \"%s\" (round %d, delimiters %s)", i, e, e2, round, d ? d : "whitespace"); bad = 1; }
            }
            if (bad) break;
        }
        spif_tok_del(t);
        /* a tokenizer that worked with other quote and escape characters, was done() with and is handed this source: done() leaves an object as new, the grammar is the common one again */
        { spif_tok_t u = spif_tok_new_from_ptr((spif_charptr_t) "q|w x|#y%#z#");
          spif_tok_set_quote(u, '|'); spif_tok_set_dquote(u, '#'); spif_tok_set_escape(u, '%'); spif_tok_eval(u);
          spif_tok_done(u);
          spif_tok_set_src(u, spif_str_new_from_ptr((spif_charptr_t) s));
          if (d) spif_tok_set_sep(u, spif_str_new_from_ptr((spif_charptr_t) hd));
          if (!spif_tok_eval(u)) FAIL("spif_tok_eval", "model:return", shape, "eval of a tokenizer reused after done() returned FALSE");
          else { spif_list_t tl = spif_tok_get_tokens(u); int tn = tl ? (int) SPIF_LIST_COUNT(tl) : 0, bad = tn != ref.n;
              for (int i = 0; i < tn && !bad; i++) { spif_str_t ts = SPIF_STR(SPIF_LIST_GET(tl, i)); char r[24]; strcpy(r, ref.t[i]); trim(r); if (strcmp((ts && ts->s) ? (char *) ts->s : "", r)) bad = 1; }
              if (bad) FAIL("spif_tok_done", "model:reuse", shape, "a tokenizer that used other quote/escape characters before done() gives %d tokens that differ from the grammar's %d (delimiters %s)", tn, ref.n, d ? d : "whitespace"); }
          spif_tok_del(u); }
        /* a tokenizer that worked with the delimiter set ";" and is then given this delimiter set (no separator object at all for the default one) */
        { spif_tok_t u = spif_tok_new_from_ptr((spif_charptr_t) "q;w x;y");
          spif_tok_set_sep(u, spif_str_new_from_ptr((spif_charptr_t) ";")); spif_tok_eval(u);
          spif_tok_set_sep(u, d ? spif_str_new_from_ptr((spif_charptr_t) hd) : (spif_str_t) NULL);
          spif_tok_set_src(u, spif_str_new_from_ptr((spif_charptr_t) s));
          if (!spif_tok_eval(u)) FAIL("spif_tok_eval", "model:return", shape, "eval of a tokenizer given another delimiter set returned FALSE");
          else { spif_list_t tl = spif_tok_get_tokens(u); int tn = tl ? (int) SPIF_LIST_COUNT(tl) : 0, bad = tn != ref.n;
              for (int i = 0; i < tn && !bad; i++) { spif_str_t ts = SPIF_STR(SPIF_LIST_GET(tl, i)); char r[24]; strcpy(r, ref.t[i]); trim(r); if (strcmp((ts && ts->s) ? (char *) ts->s : "", r)) bad = 1; }
              if (bad) FAIL("spif_tok_set_sep", "model:reuse", shape, "a tokenizer that used the delimiter \";\" before gives %d tokens that differ from the grammar's %d for delimiters %s", tn, ref.n, d ? d : "whitespace (separator set to NULL)"); }
          spif_tok_del(u); }
        /* the same text followed by a newline, read from a descriptor: the tokenizer built by new_from_fd holds what new_from_ptr holds */
        if (di < 2) { char t2[40]; snprintf(t2, sizeof t2, "%s\n", raw); int pf[2];
          if (pipe(pf) == 0) { size_t tl = strlen(t2); if (write(pf[1], t2, tl) == (ssize_t) tl) { close(pf[1]);
              spif_tok_t a = spif_tok_new_from_fd(pf[0]), b = spif_tok_new_from_ptr((spif_charptr_t) t2);
              if (a && b) { if (d) { spif_tok_set_sep(a, spif_str_new_from_ptr((spif_charptr_t) hd)); spif_tok_set_sep(b, spif_str_new_from_ptr((spif_charptr_t) hd)); }
                  spif_tok_eval(a); spif_tok_eval(b);
                  spif_list_t la = spif_tok_get_tokens(a), lb = spif_tok_get_tokens(b); int na = la ? (int) SPIF_LIST_COUNT(la) : 0, nb = lb ? (int) SPIF_LIST_COUNT(lb) : 0, bad = na != nb;
                  for (int i = 0; i < na && !bad; i++) { spif_str_t x = SPIF_STR(SPIF_LIST_GET(la, i)), y = SPIF_STR(SPIF_LIST_GET(lb, i)); if (strcmp(x && x->s ? (char *) x->s : "", y && y->s ? (char *) y->s : "")) bad = 1; }
                  if (bad) FAIL("spif_tok_new_from_fd", "model:tokens", shape, "the text and a newline read from a descriptor gives %d tokens, the same text given as a pointer %d, or they differ (delimiters %s)", na, nb, d ? d : "whitespace"); }
              else if (!a) FAIL("spif_tok_new_from_fd", "model:return", shape, "new_from_fd returned NULL");
              if (a) spif_tok_del(a); if (b) spif_tok_del(b); } else close(pf[1]);
            close(pf[0]); } }
        /* the same text as the first of two lines of a stdio stream: new_from_fp takes the next LINE of the stream, and the one after it with the next call */
        if (di < 2) { char t2[64]; snprintf(t2, sizeof t2, "%s\nzz  yy\n", raw); int pf[2];
          if (pipe(pf) == 0) { size_t tl = strlen(t2); FILE *fp = NULL; if (write(pf[1], t2, tl) == (ssize_t) tl) { close(pf[1]); fp = fdopen(pf[0], "r"); } else close(pf[1]);
            if (fp) {
              spif_tok_t a = spif_tok_new_from_fp(fp), b = spif_tok_new_from_ptr((spif_charptr_t) raw);
              if (a && b) { if (d) { spif_tok_set_sep(a, spif_str_new_from_ptr((spif_charptr_t) hd)); spif_tok_set_sep(b, spif_str_new_from_ptr((spif_charptr_t) hd)); }
                  spif_tok_eval(a); spif_tok_eval(b);
                  spif_list_t la = spif_tok_get_tokens(a), lb = spif_tok_get_tokens(b); int na = la ? (int) SPIF_LIST_COUNT(la) : 0, nb = lb ? (int) SPIF_LIST_COUNT(lb) : 0, bad = na != nb;
                  for (int i = 0; i < na && !bad; i++) { spif_str_t x = SPIF_STR(SPIF_LIST_GET(la, i)), y = SPIF_STR(SPIF_LIST_GET(lb, i)); if (strcmp(x && x->s ? (char *) x->s : "", y && y->s ? (char *) y->s : "")) bad = 1; }
                  if (bad && !strchr(raw, '\n')) FAIL("spif_tok_new_from_fp", "model:tokens", shape, "the text as the first of two lines of a stream gives %d tokens, the same text given as a pointer %d, or they differ (delimiters %s)", na, nb, d ? d : "whitespace"); }
              else if (!a) FAIL("spif_tok_new_from_fp", "model:return", shape, "new_from_fp returned NULL");
              if (a) spif_tok_del(a); if (b) spif_tok_del(b);
              if (!strchr(raw, '\n')) { spif_tok_t c2 = spif_tok_new_from_fp(fp);
                  if (c2) { spif_tok_eval(c2); spif_list_t lc = spif_tok_get_tokens(c2); int nc = lc ? (int) SPIF_LIST_COUNT(lc) : 0; spif_str_t x0 = nc ? SPIF_STR(SPIF_LIST_GET(lc, 0)) : NULL;
                      if (nc != 2 || !x0 || !x0->s || strcmp((char *) x0->s, "zz")) FAIL("spif_tok_new_from_fp", "model:tokens", shape, "a second tokenizer from the same stream holds %d tokens; the stream's next line is \"zz  yy\"", nc);
                      spif_tok_del(c2); }
                  else FAIL("spif_tok_new_from_fp", "model:return", shape, "the second new_from_fp on the stream returned NULL"); }
              fclose(fp); }
            else close(pf[0]); } }
        /* an evaluation that is refused (the source was taken away) leaves the tokenizer usable: what it reports as tokens can be walked, it can be given a source again */
        { spif_tok_t r = spif_tok_new_from_ptr((spif_charptr_t) s);
          if (d) spif_tok_set_sep(r, spif_str_new_from_ptr((spif_charptr_t) hd));
          spif_tok_eval(r); spif_tok_set_src(r, (spif_str_t) NULL);
          if (spif_tok_eval(r)) FAIL("spif_tok_eval", "model:not-refused", shape, "eval without a source returned TRUE");
          spif_list_t tl = spif_tok_get_tokens(r); int tn = tl ? (int) SPIF_LIST_COUNT(tl) : 0;
          for (int i = 0; i < tn; i++) { spif_str_t ts = SPIF_STR(SPIF_LIST_GET(tl, i)); if (ts && ts->s && strlen((char *) ts->s) > 40) FAIL("spif_tok_eval", "model:token", shape, "a token longer than the input after a refused eval"); }
          spif_tok_set_src(r, spif_str_new_from_ptr((spif_charptr_t) s));
          if (!spif_tok_eval(r)) FAIL("spif_tok_eval", "model:return", shape, "eval after the source was given back returned FALSE");
          else { tl = spif_tok_get_tokens(r); tn = tl ? (int) SPIF_LIST_COUNT(tl) : 0; if (tn != ref.n) FAIL("spif_tok_eval", "model:token-count", shape, "%d tokens after a refused eval and a new source, the grammar gives %d", tn, ref.n); }
          spif_tok_del(r); }
        /* the same text with the quote, double-quote and escape characters replaced by 0xAB, 0xB4 and 0xA5, given to a tokenizer told to use those: the same tokens, letter for letter */
        { char m[40]; size_t ml = strlen(raw); for (size_t i = 0; i <= ml; i++) m[i] = raw[i] == '\'' ? (char) 0xAB : (raw[i] == '"' ? (char) 0xB4 : (raw[i] == '\\' ? (char) 0xA5 : raw[i]));
          char *hm = mc_heapstr(m);
          spif_tok_t u = spif_tok_new_from_ptr((spif_charptr_t) hm);
          spif_tok_set_quote(u, (char) 0xAB); spif_tok_set_dquote(u, (char) 0xB4); spif_tok_set_escape(u, (char) 0xA5);
          if (d) { char md[24]; size_t dl = strlen(d); for (size_t i = 0; i <= dl; i++) md[i] = d[i] == '\'' ? (char) 0xAB : (d[i] == '"' ? (char) 0xB4 : (d[i] == '\\' ? (char) 0xA5 : d[i])); spif_tok_set_sep(u, spif_str_new_from_ptr((spif_charptr_t) md)); }      /* the delimiters are part of the text's alphabet: mapped with it */
          if (!spif_tok_eval(u)) FAIL("spif_tok_eval", "model:return", shape, "eval with quote/escape characters above 0x7f returned FALSE");
          else { spif_list_t tl = spif_tok_get_tokens(u); int tn = tl ? (int) SPIF_LIST_COUNT(tl) : 0, bad = tn != ref.n;
              for (int i = 0; i < tn && !bad; i++) { spif_str_t ts = SPIF_STR(SPIF_LIST_GET(tl, i)); char r[24]; strcpy(r, ref.t[i]); trim(r);
                  for (char *c = r; *c; c++) *c = *c == '\'' ? (char) 0xAB : (*c == '"' ? (char) 0xB4 : (*c == '\\' ? (char) 0xA5 : *c));
                  if (strcmp((ts && ts->s) ? (char *) ts->s : "", r)) bad = 1; }
              if (bad) FAIL("spif_tok_eval", "model:custom-characters", shape, "with quote 0xAB, double quote 0xB4 and escape 0xA5 the text gives %d tokens that are not the grammar's %d (delimiters %s)", tn, ref.n, d ? d : "whitespace"); }
          spif_tok_del(u); free(hm); }
        if (sl) { for (int i = 0; i < got; i++) free(sl[i]); free(sl); }
        if (ref.n > 1 || strpbrk(raw, "\"'\\")) mc_nontrivial();
        mc_outcome(mc_hash(&ref, sizeof(int) + (size_t) ref.n * 24) + (uint64_t) di);
        free(s); free(hd);
    }
    /* ---- word utilities */
    {
        words_t rw; ref_words(raw, &rw);
        char *s = mc_heapstr(raw);
        unsigned long nw = spiftool_num_words((spif_charptr_t) s);
        if ((int) nw != rw.n) FAIL("spiftool_num_words", "model:return", shape, "num_words=%lu, word grammar gives %d", nw, rw.n);
        /* whitespace-separated word starts for get_pword */
        const char *ws[MAXTOK]; int nws = 0;
        for (size_t i = 0; s[i]; ) { while (s[i] && isspace((unsigned char) s[i])) i++; if (!s[i]) break; if (nws < MAXTOK) ws[nws++] = s + i; while (s[i] && !isspace((unsigned char) s[i])) i++; }
        for (unsigned long i = 0; i <= nw + 2 && i < 30; i++) {
            char *w = (char *) spiftool_get_word(i, (spif_charptr_t) s);
            char *p = (char *) spiftool_get_pword(i, (spif_charptr_t) s);
            if (i >= 1 && i <= nw && (int) nw == rw.n) {
                if (!w) FAIL("spiftool_get_word", "model:null-within-num_words", shape, "get_word(%lu) is NULL but num_words is %lu", i, nw);
                else if (strcmp(w, rw.w[i - 1])) { mc_esc(w, strlen(w), e, sizeof e); mc_esc(rw.w[i - 1], strlen(rw.w[i - 1]), e2, sizeof e2);
                    FAIL("spiftool_get_word", "model:word", shape, "get_word(%lu) is \"%s\", word grammar gives \"%s\"", i, e, e2); }
                const char *ex = (int) i <= nws ? ws[i - 1] : NULL;
                if (ex && (*ex == '"' || *ex == '\'')) ex++;
                if (ex && !*ex) ex = NULL;
                if (p != ex) FAIL("spiftool_get_pword", "model:return", shape, "get_pword(%lu) points at offset %ld, expected %ld", i, p ? (long) (p - s) : -1L, ex ? (long) (ex - s) : -1L);
            }
            if (p && (p < s || p > s + strlen(s))) FAIL("spiftool_get_pword", "invariant:pointer-outside-input", shape, "get_pword(%lu) points outside the input", i);
            free(w);
        }
        if (strcmp(s, raw)) FAIL("spiftool_get_word", "model:source-changed", shape, "input string modified");
        free(s);
    }
}

/* ---- round trip: split(d, join(d, toks)) == toks for plain tokens */
static const char *PT[6] = { "a", "b", "ab", "ba", "aa", "bab" };
static void rt_desc(uint64_t idx, void *ctx, char *b, size_t n)
{
    (void) ctx; int di = (int) (idx % 3); idx /= 3; int cnt = (int) (idx % 4) + 1; idx /= 4;
    size_t o = (size_t) snprintf(b, n, "join/split round trip with separator \"%s\" over tokens:", DELIMS[di] ? DELIMS[di] : " ");
    for (int i = 0; i < cnt; i++) { o += (size_t) snprintf(b + o, n - o, " %s", PT[idx % 6]); idx /= 6; }
}
static void rt_case(uint64_t idx, void *ctx)
{
    mc_strings_prelude();
    (void) ctx; int di = (int) (idx % 3); idx /= 3; int cnt = (int) (idx % 4) + 1; idx /= 4;
    char *list[6]; const char *sep = DELIMS[di] ? DELIMS[di] : " ";
    for (int i = 0; i < cnt; i++) { list[i] = mc_heapstr(PT[idx % 6]); idx /= 6; }
    list[cnt] = NULL;
    char *hs = mc_heapstr(sep), *hd = mc_heapstr(DELIMS[di]);
    char *j = (char *) spiftool_join((spif_charptr_t) hs, (spif_charptr_t *) list);
    if (!j) FAIL("spiftool_join", "model:return", "plain tokens", "join returned NULL");
    else {
        char **sl = (char **) spiftool_split((spif_charptr_t) hd, (spif_charptr_t) j); int got = 0;
        if (sl) while (sl[got] && got < 16) got++;
        if (got != cnt) FAIL("spiftool_split", "model:round-trip", "plain tokens", "joined \"%s\" splits into %d tokens, expected %d", j, got, cnt);
        else for (int i = 0; i < cnt; i++) if (strcmp(sl[i], list[i])) { FAIL("spiftool_split", "model:round-trip", "plain tokens", "token %d of \"%s\" is \"%s\", expected \"%s\"", i, j, sl[i], list[i]); break; }
        if (sl) { for (int i = 0; i < got; i++) free(sl[i]); free(sl); }
        free(j);
    }
    for (int i = 0; i < cnt; i++) free(list[i]);
    free(hs); free(hd);
    mc_nontrivial();
}

/* ---- inputs of very many tokens (counts around 255/256, 65535/65536 and beyond): split, tok and num_words still agree, token by token */
static const long MANY[] = { 255, 256, 257, 4096, 65535, 65536, 65537, 70000 };
#define NMANY ((int) (sizeof MANY / sizeof MANY[0]))
static void many_desc(uint64_t idx, void *ctx, char *b, size_t n) { (void) ctx; snprintf(b, n, "split / tok / num_words on %ld one-letter tokens separated by %s", MANY[idx / 2], idx % 2 ? "\",\" (delimiter set \",\")" : "blanks"); }
static void many_case(uint64_t idx, void *ctx)
{
    long n = MANY[idx / 2]; int comma = (int) (idx % 2); (void) ctx;
    const char *shape = n < 256 ? "fewer than 256 tokens" : (n < 65536 ? "256..65535 tokens" : "65536 or more tokens"); mc_set_shape(shape);
    char *s = malloc((size_t) n * 2 + 1); for (long i = 0; i < n; i++) { s[2 * i] = (char) ('a' + i % 26); s[2 * i + 1] = comma ? ',' : ' '; } s[2 * n - 1] = 0;
    char *hd = comma ? mc_heapstr(",") : NULL;
    char **sl = (char **) spiftool_split((spif_charptr_t) hd, (spif_charptr_t) s);
    long got = 0; if (sl) while (sl[got] && got <= n + 2) got++;
    if (got != n) FAIL("spiftool_split", "model:token-count", shape, "%ld tokens for an input of %ld tokens", got, n);
    else for (long i = 0; i < n; i++) if (sl[i][0] != (char) ('a' + i % 26) || sl[i][1]) { FAIL("spiftool_split", "model:token", shape, "token %ld of %ld is \"%.8s\"", i, n, sl[i]); break; }
    if (sl) { for (long i = 0; i < got; i++) free(sl[i]); free(sl); }
    spif_tok_t t = spif_tok_new_from_ptr((spif_charptr_t) s);
    if (comma) spif_tok_set_sep(t, spif_str_new_from_ptr((spif_charptr_t) hd));
    if (!spif_tok_eval(t)) FAIL("spif_tok_eval", "model:return", shape, "eval returned FALSE");
    else { spif_list_t tl = spif_tok_get_tokens(t); long tn = tl ? (long) SPIF_LIST_COUNT(tl) : 0;
        if (tn != n) FAIL("spif_tok_eval", "model:token-count", shape, "%ld tokens for an input of %ld tokens", tn, n);
        else { spif_str_t last = SPIF_STR(SPIF_LIST_GET(tl, (spif_listidx_t) (n - 1))); if (!last || !last->s || last->s[0] != (char) ('a' + (n - 1) % 26) || last->s[1]) FAIL("spif_tok_eval", "model:token", shape, "the last of %ld tokens is wrong", n); } }
    spif_tok_del(t);
    if (!comma) { unsigned long nw = spiftool_num_words((spif_charptr_t) s); if ((long) nw != n) FAIL("spiftool_num_words", "model:return", shape, "num_words=%lu for %ld words", nw, n);
        char *w = (char *) spiftool_get_word((unsigned long) n, (spif_charptr_t) s); if (!w || w[0] != (char) ('a' + (n - 1) % 26) || w[1]) FAIL("spiftool_get_word", "model:word", shape, "get_word(%ld) of %ld words is \"%.8s\"", n, n, w ? w : "(null)"); free(w); }
    free(s); free(hd);
    mc_nontrivial();
    mc_outcome((uint64_t) got * 2 + (uint64_t) comma);
}
int main(int argc, char **argv)
{
    mc_init("C12", argc, argv);
    libast_debug_level = (unsigned) mc_dlevel();        /* --dlevel=N: the whole run at runtime debug level N (default 0) */
    int N = (int) mc_arg_int("N", mc_thorough() ? 8 : 5);
    if (N > 10) N = 10;
    int hb = (int) mc_arg_int("hb", 'b');
    SYM[1] = (char) hb;
    mc_info("alphabet", "all strings of length <= %d over {a,b (or the byte given with --hb),space,',','\"','\\'','\\\\',tab} x delimiter sets {whitespace, \",\", \", \", and two sets of 16 characters that differ in the last one (comma / tab)}; word indices 0..num_words+2; join/split round trips of <= 4 plain tokens", N);
    mc_e2_level("roundtrip", 4, 3 * 4 * 6 * 6 * 6 * 6, rt_case, rt_desc, NULL);
    if (hb == 'b' && !mc_have_msan()) mc_e2_level("many_tokens", 70000, (uint64_t) NMANY * 2, many_case, many_desc, NULL);
    for (g_len = 0; g_len <= N; g_len++)
        if (!mc_e2_level("tokens", g_len, mc_words_of_len(NSYM, g_len), case_fn, desc, NULL)) break;
    return mc_finish();
}
