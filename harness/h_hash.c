/* h_hash.c — C18: built-in hashes equal their published definitions, read exactly their key.
 * E2 over (length x alignment x seed x content pattern); keys end exactly at the end of a heap
 * block (ASan redzone) at every alignment and at a PROT_NONE page; independent references. */
#include "hcommon.h"
#include <sys/mman.h>
#include <unistd.h>

static int MAXLEN = 40;
static const uint32_t SEEDS[4] = { 0, 1, 0xf721b64du, 0xffffffffu };
#define INIT 0xf721b64du

#define MIX(a,b,c) { a-=b; a-=c; a^=(c>>13); b-=c; b-=a; b^=(a<<8); c-=a; c-=b; c^=(b>>13); \
                     a-=b; a-=c; a^=(c>>12); b-=c; b-=a; b^=(a<<16); c-=a; c-=b; c^=(b>>5); \
                     a-=b; a-=c; a^=(c>>3); b-=c; b-=a; b^=(a<<10); c-=a; c-=b; c^=(b>>15); }
/* Bob Jenkins' lookup2 with this library's initial constant */
static uint32_t ref_lookup2(const uint8_t *k, uint32_t length, uint32_t seed)
{
    uint32_t a = INIT, b = INIT, c = seed, len = length;
    while (len >= 12) {
        a += k[0] | (uint32_t) k[1] << 8 | (uint32_t) k[2] << 16 | (uint32_t) k[3] << 24;
        b += k[4] | (uint32_t) k[5] << 8 | (uint32_t) k[6] << 16 | (uint32_t) k[7] << 24;
        c += k[8] | (uint32_t) k[9] << 8 | (uint32_t) k[10] << 16 | (uint32_t) k[11] << 24;
        MIX(a, b, c); k += 12; len -= 12;
    }
    c += length;
    uint32_t t[3] = { 0, 0, 0 };              /* tail bytes; byte 0 of the third word is reserved for the length */
    for (uint32_t i = 0; i < len; i++) { uint32_t pos = i < 8 ? i : i + 1; t[pos / 4] += (uint32_t) k[i] << (8 * (pos % 4)); }
    a += t[0]; b += t[1]; c += t[2];
    MIX(a, b, c);
    return c;
}
static uint32_t ref_lookup2_words(const uint32_t *k, uint32_t length, uint32_t seed)
{
    uint32_t a = INIT, b = INIT, c = seed, len = length;
    while (len >= 3) { a += k[0]; b += k[1]; c += k[2]; MIX(a, b, c); k += 3; len -= 3; }
    c += length;
    if (len == 2) { b += k[1]; a += k[0]; } else if (len == 1) a += k[0];
    MIX(a, b, c);
    return c;
}
static uint32_t ref_rotating(const uint8_t *k, uint32_t len, uint32_t seed)
{
    uint32_t h = seed ? seed : INIT;
    for (uint32_t i = 0; i < len; i++) h = ((h << 4) | (h >> 28)) ^ k[i];
    return h ^ (h >> 10) ^ (h >> 20);
}
static uint32_t ref_oaat(const uint8_t *k, uint32_t len, uint32_t seed)
{
    uint32_t h = seed ? seed : INIT;
    for (uint32_t i = 0; i < len; i++) { h += k[i]; h += h << 10; h ^= h >> 6; }
    h += h << 3; h ^= h >> 11; h += h << 15;
    return h;
}
static uint32_t ref_fnv1a(const uint8_t *k, uint32_t len, uint32_t seed)
{
    uint32_t h = seed ? seed : 0x811c9dc5u;
    for (uint32_t i = 0; i < len; i++) { h ^= k[i]; h *= 16777619u; }
    return h;
}

typedef struct { int len, align, seed, pat; } hc_t;
static uint64_t count_for(int maxlen) { uint64_t n = 0; for (int l = 0; l <= maxlen; l++) n += (uint64_t) (3 + 2 * l) * 8 * 4; return n; }
static void decode(uint64_t idx, hc_t *c)
{
    for (int l = 0; ; l++) {
        uint64_t per = (uint64_t) (3 + 2 * l) * 32;
        if (idx < per) { c->len = l; c->pat = (int) (idx / 32); c->align = (int) (idx % 8); c->seed = (int) ((idx / 8) % 4); return; }
        idx -= per;
    }
}
static void fill(uint8_t *k, int len, int pat)
{
    if (pat == 0) memset(k, 0, (size_t) len);
    else if (pat == 1) memset(k, 0xff, (size_t) len);
    else if (pat == 2) for (int i = 0; i < len; i++) k[i] = (uint8_t) (i * 37 + 11);
    else { memset(k, 0, (size_t) len); int p = (pat - 3) / 2; k[p] = (pat - 3) % 2 ? 0x80 : 0x01; }
}
static void desc(uint64_t idx, void *ctx, char *b, size_t n)
{
    hc_t c; (void) ctx; decode(idx, &c);
    static const char *pn[3] = { "all 0x00", "all 0xFF", "counting bytes" };
    char p[64]; if (c.pat < 3) snprintf(p, sizeof p, "%s", pn[c.pat]); else snprintf(p, sizeof p, "zero key with byte %d = 0x%02x", (c.pat - 3) / 2, (c.pat - 3) % 2 ? 0x80 : 0x01);
    snprintf(b, n, "all six hashes on a %d-byte key (%s), alignment %d, seed 0x%08x, key ending at a heap redzone, ending at and starting after a PROT_NONE page", c.len, p, c.align, SEEDS[c.seed]);
}
static uint8_t *g_guard;                 /* three pages: [NONE][RW][NONE] */
static long g_page;
typedef uint32_t (*hfn)(spif_uint8_t *, spif_uint32_t, spif_uint32_t);

static void check_all(const uint8_t *key, int len, uint32_t seed, const char *where, const char *shape, const uint32_t exp[5])
{
    static const char *nm[5] = { "spifhash_jenkins", "spifhash_jenkinsLE", "spifhash_rotating", "spifhash_one_at_a_time", "spifhash_fnv" };
    hfn f[5] = { spifhash_jenkins, spifhash_jenkinsLE, spifhash_rotating, spifhash_one_at_a_time, spifhash_fnv };
    for (int i = 0; i < 5; i++) {
        uint32_t g = f[i]((spif_uint8_t *) key, (spif_uint32_t) len, seed);
        if (g != exp[i]) FAIL(nm[i], "model:value", shape, "%s: got 0x%08x, reference 0x%08x", where, g, exp[i]);
    }
}
/* the public mix macro is one statement wherever a statement may stand */
static void mix_macro_check(void)
{
    static int done; if (done) return; done = 1;
    for (int on = 0; on < 2; on++) {
        spif_uint32_t a = 0x11111111u, b = 0x22222222u, c = 0x33333333u; uint32_t ra = a, rb = b, rc = c;
        if (on) SPIFHASH_JENKINS_MIX(a, b, c);
        if (on) { MIX(ra, rb, rc); }
        if (a != ra || b != rb || c != rc) FAIL("SPIFHASH_JENKINS_MIX", "model:value", "mix macro", "as the body of an if whose condition is %s the macro left (0x%08x,0x%08x,0x%08x), the published mix gives (0x%08x,0x%08x,0x%08x)", on ? "true" : "false", a, b, c, ra, rb, rc);
    }
}
/* calls by name with a length that is an integer constant expression (sizeof, a literal) and with literal seeds: what the compiler may specialise is still the published function */
static void named_calls_check(void)
{
    static int done; if (done) return; done = 1;
    static const uint8_t K[16] = { 0x01, 0x80, 0xff, 0x00, 0x7f, 0x10, 0xee, 0x33, 0x42, 0x99, 0xa5, 0x5a, 0x0f, 0xf0, 0x11, 0xfe };
    uint8_t *k = mc_heapmem(K, 16);
#define NC1(fn, ref, LEN, SEED) do { uint32_t g_ = fn(k, LEN, SEED), e_ = ref(K, LEN, SEED); if (g_ != e_) FAIL(#fn, "model:value", "constant length", #fn "(key, " #LEN ", " #SEED ") called by name gives 0x%08x, reference 0x%08x", g_, e_); } while (0)
#define NCL(fn, ref, SEED) do { NC1(fn, ref, 0, SEED); NC1(fn, ref, 1, SEED); NC1(fn, ref, 2, SEED); NC1(fn, ref, 3, SEED); NC1(fn, ref, 4, SEED); NC1(fn, ref, 5, SEED); NC1(fn, ref, 7, SEED); NC1(fn, ref, 8, SEED); NC1(fn, ref, 9, SEED); \
                                NC1(fn, ref, 11, SEED); NC1(fn, ref, 12, SEED); NC1(fn, ref, 13, SEED); NC1(fn, ref, 16, SEED); NC1(fn, ref, sizeof(uint32_t), SEED); NC1(fn, ref, sizeof(uint64_t), SEED); NC1(fn, ref, sizeof K, SEED); } while (0)
#define NCS(fn, ref) do { NCL(fn, ref, 0); NCL(fn, ref, 1); NCL(fn, ref, 0xf721b64du); NCL(fn, ref, 0xffffffffu); } while (0)
    NCS(spifhash_jenkins, ref_lookup2); NCS(spifhash_jenkinsLE, ref_lookup2); NCS(spifhash_rotating, ref_rotating); NCS(spifhash_one_at_a_time, ref_oaat); NCS(spifhash_fnv, ref_fnv1a);
    { uint32_t w[4]; memcpy(w, K, 16);
#define NW1(LEN, SEED) do { uint32_t g_ = spifhash_jenkins32(k, LEN, SEED), e_ = ref_lookup2_words(w, LEN, SEED); if (g_ != e_) FAIL("spifhash_jenkins32", "model:value", "constant length", "spifhash_jenkins32(key, " #LEN ", " #SEED ") called by name gives 0x%08x, reference 0x%08x", g_, e_); } while (0)
      NW1(0, 0); NW1(1, 0); NW1(2, 0); NW1(3, 0); NW1(4, 0); NW1(0, 1); NW1(3, 0xffffffffu); NW1(sizeof K / sizeof(uint32_t), 0); }
    /* the same call again after the key's bytes changed (same pointer, length and seed): the hash is a function of the bytes, not of the pointer */
#define NR1(fn, ref) do { uint32_t h1_ = fn(k, 12, 7); k[5] ^= 0x5a; uint32_t h2_ = fn(k, 12, 7), e_ = ref(k, 12, 7); k[5] ^= 0x5a; \
        if (h2_ != e_) FAIL(#fn, "model:value", "key changed between two calls", #fn "(key, 12, 7) after one byte of the key changed gives 0x%08x (0x%08x before the change), reference 0x%08x", h2_, h1_, e_); } while (0)
    NR1(spifhash_jenkins, ref_lookup2); NR1(spifhash_jenkinsLE, ref_lookup2); NR1(spifhash_rotating, ref_rotating); NR1(spifhash_one_at_a_time, ref_oaat); NR1(spifhash_fnv, ref_fnv1a);
    { uint32_t w2[4]; uint32_t h1 = spifhash_jenkins32(k, 3, 7); k[5] ^= 0x5a; uint32_t h2 = spifhash_jenkins32(k, 3, 7); memcpy(w2, k, 16); uint32_t e = ref_lookup2_words(w2, 3, 7); k[5] ^= 0x5a;
      if (h2 != e) FAIL("spifhash_jenkins32", "model:value", "key changed between two calls", "spifhash_jenkins32(key, 3, 7) after one byte of the key changed gives 0x%08x (0x%08x before the change), reference 0x%08x", h2, h1, e); }
    /* the empty key wherever it lives, a NULL pointer included: nothing is read, the answer is the hash of no bytes */
#define NE1(fn, ref) do { for (int q = 0; q < 4; q++) { uint32_t g_ = fn((spif_uint8_t *) NULL, 0, SEEDS[q]), e_ = ref(K, 0, SEEDS[q]); if (g_ != e_) FAIL(#fn, "model:value", "empty key", #fn "(NULL, 0, 0x%08x) gives 0x%08x, the hash of the empty key is 0x%08x", SEEDS[q], g_, e_); } } while (0)
    NE1(spifhash_jenkins, ref_lookup2); NE1(spifhash_jenkinsLE, ref_lookup2); NE1(spifhash_rotating, ref_rotating); NE1(spifhash_one_at_a_time, ref_oaat); NE1(spifhash_fnv, ref_fnv1a);
    free(k);
}
static void case_fn(uint64_t idx, void *ctx)
{
    mix_macro_check(); named_calls_check();
    hc_t c; (void) ctx; decode(idx, &c);
    uint8_t ref[512]; fill(ref, c.len, c.pat);
    uint32_t seed = SEEDS[c.seed];
    uint32_t exp[5] = { ref_lookup2(ref, (uint32_t) c.len, seed), 0, ref_rotating(ref, (uint32_t) c.len, seed), ref_oaat(ref, (uint32_t) c.len, seed), ref_fnv1a(ref, (uint32_t) c.len, seed) };
    exp[1] = exp[0];                                           /* little-endian host: word-wise variant is the same function */
    char shape[48]; snprintf(shape, sizeof shape, "len%%12=%d%s", c.len % 12, seed ? "" : " seed=0");
    mc_set_shape(shape);
    /* (1) heap block: key at offset 'align' and ending exactly at the end of the block */
    { uint8_t *blk = malloc((size_t) (c.align + c.len) ? (size_t) (c.align + c.len) : 1);
      uint8_t *base = blk; while (((uintptr_t) base & 7) != 0) base++;           /* malloc is 16-aligned under ASan; keep it explicit */
      memset(blk, 0xEE, (size_t) (c.align + c.len)); memcpy(base + c.align, ref, (size_t) c.len);
      check_all(base + c.align, c.len, seed, "heap block, key ends at the redzone", shape, exp);
      if (memcmp(base + c.align, ref, (size_t) c.len)) FAIL("spifhash", "invariant:key-modified", shape, "a hash function wrote to its key");
      free(blk); }
    /* (2) key ending exactly at a PROT_NONE page; (3) key starting right after one is covered by offset 0 of the heap block + ASan's left redzone */
    if (c.align == 0) {
        uint8_t *k = g_guard + 2 * g_page - c.len;
        memcpy(k, ref, (size_t) c.len);
        check_all(k, c.len, seed, "key ends at a PROT_NONE page", shape, exp);
        k = g_guard + g_page;
        memcpy(k, ref, (size_t) c.len);
        check_all(k, c.len, seed, "key starts right after a PROT_NONE page", shape, exp);
    }
    /* (4) the 32-bit-word variant: word-aligned keys, length counted in words */
    if (c.len % 4 == 0) {           /* every alignment: the key is a byte pointer; the words are whatever 4 bytes lie there */
        int words = c.len / 4; uint32_t w[128]; memcpy(w, ref, (size_t) c.len);
        uint32_t e = ref_lookup2_words(w, (uint32_t) words, seed);
        uint8_t *blk = malloc((size_t) (c.len + c.align) ? (size_t) (c.len + c.align) : 1); memcpy(blk + c.align, ref, (size_t) c.len);
        uint32_t g = spifhash_jenkins32(blk + c.align, (spif_uint32_t) words, seed);
        if (g != e) FAIL("spifhash_jenkins32", "model:value", shape, "got 0x%08x, reference 0x%08x (%d words, alignment %d)", g, e, words, c.align);
        free(blk);
        /* the key given as an expression on a pointer to words (a table of 32-bit values and an index): the words hashed are [skip, words) */
        if (c.align == 0) for (int skip = 1; skip <= 2 && skip <= words; skip++) {
            uint32_t *tbl = malloc((size_t) c.len); memcpy(tbl, ref, (size_t) c.len);
            uint32_t e2 = ref_lookup2_words(w + skip, (uint32_t) (words - skip), seed);
#pragma GCC diagnostic push
#pragma GCC diagnostic ignored "-Wincompatible-pointer-types"
            uint32_t g2 = spifhash_jenkins32(tbl + skip, (spif_uint32_t) words - skip, seed);
#pragma GCC diagnostic pop
            if (g2 != e2) FAIL("spifhash_jenkins32", "model:value", shape, "key expression 'table + %d' on a table of 32-bit words: got 0x%08x, reference over words %d..%d 0x%08x", skip, g2, skip, words - 1, e2);
            free(tbl);
        }
    }
    if (c.len) mc_nontrivial();
    mc_outcome(((uint64_t) exp[0] << 32) | exp[4]);
}
/* long keys: lengths around 4096 and 8192 bytes (1024 / 2048 words) and beyond, every alignment */
static const int BIGLEN[] = { 4080, 4092, 4096, 4100, 4104, 4108, 8180, 8192, 8196, 12288, 12300, 20004 };
#define NBIGLEN ((int) (sizeof BIGLEN / sizeof BIGLEN[0]))
static void big_desc(uint64_t idx, void *ctx, char *b, size_t n) { (void) ctx; snprintf(b, n, "all six hashes on a %d-byte key (counting bytes), alignment %d, seed 0x%08x", BIGLEN[idx / 16], (int) (idx % 8), SEEDS[(idx / 8) % 2 ? 2 : 0]); }
static void big_case(uint64_t idx, void *ctx)
{
    int len = BIGLEN[idx / 16], align = (int) (idx % 8); uint32_t seed = SEEDS[(idx / 8) % 2 ? 2 : 0]; (void) ctx;
    uint8_t *ref = malloc((size_t) len + 8); for (int i = 0; i < len; i++) ref[i] = (uint8_t) (i * 37 + 11 + i / 251);
    char shape[48]; snprintf(shape, sizeof shape, "long key, len%%12=%d", len % 12); mc_set_shape(shape);
    uint32_t exp[5] = { ref_lookup2(ref, (uint32_t) len, seed), 0, ref_rotating(ref, (uint32_t) len, seed), ref_oaat(ref, (uint32_t) len, seed), ref_fnv1a(ref, (uint32_t) len, seed) };
    exp[1] = exp[0];
    uint8_t *blk = malloc((size_t) (len + align)); memcpy(blk + align, ref, (size_t) len);
    check_all(blk + align, len, seed, "heap block, key ends at the redzone", shape, exp);
    { int words = len / 4; uint32_t *w = malloc((size_t) len + 4); memcpy(w, ref, (size_t) len);
      uint32_t e = ref_lookup2_words(w, (uint32_t) words, seed);
      uint8_t *b2 = malloc((size_t) (words * 4 + align)); memcpy(b2 + align, ref, (size_t) words * 4);
      uint32_t g = spifhash_jenkins32(b2 + align, (spif_uint32_t) words, seed);
      if (g != e) FAIL("spifhash_jenkins32", "model:value", shape, "got 0x%08x, reference 0x%08x (%d words, alignment %d)", g, e, words, align);
      free(b2); free(w); }
    free(blk); free(ref);
    mc_nontrivial();
    mc_outcome(((uint64_t) exp[0] << 32) | exp[4]);
}
/* keys lying across an address that is a multiple of 4 GiB (address arithmetic in 32 bits wraps there) */
static uint8_t *g_4g;                  /* the byte at the boundary; one page on each side is mapped */
static const int BLEN[] = { 1, 11, 12, 13, 23, 24, 25, 36, 40 };
#define NBLEN ((int) (sizeof BLEN / sizeof BLEN[0]))
static void b4_desc(uint64_t idx, void *ctx, char *b, size_t n) { (void) ctx; int len = BLEN[idx / 64], off = (int) (idx % 64) - 48; snprintf(b, n, "all six hashes on a %d-byte key starting %d bytes %s an address that is a multiple of 4 GiB", len, off < 0 ? -off : off, off < 0 ? "before" : "after"); }
static void b4_case(uint64_t idx, void *ctx)
{
    int len = BLEN[idx / 64], off = (int) (idx % 64) - 48; (void) ctx;
    if (!g_4g) return;
    uint8_t ref[64]; for (int i = 0; i < len; i++) ref[i] = (uint8_t) (i * 37 + 11);
    char shape[64]; snprintf(shape, sizeof shape, "%s", (off < 0 && off + len > 0) ? "key crosses a 4 GiB boundary" : "key next to a 4 GiB boundary"); mc_set_shape(shape);
    uint32_t seed = SEEDS[(idx / 7) % 4];
    uint32_t exp[5] = { ref_lookup2(ref, (uint32_t) len, seed), 0, ref_rotating(ref, (uint32_t) len, seed), ref_oaat(ref, (uint32_t) len, seed), ref_fnv1a(ref, (uint32_t) len, seed) };
    exp[1] = exp[0];
    uint8_t *k = g_4g + off; memcpy(k, ref, (size_t) len);
    check_all(k, len, seed, "key at a 4 GiB boundary", shape, exp);
    if (len % 4 == 0) { uint32_t w[16]; memcpy(w, ref, (size_t) len); uint32_t e = ref_lookup2_words(w, (uint32_t) (len / 4), seed), g = spifhash_jenkins32(k, (spif_uint32_t) (len / 4), seed);
        if (g != e) FAIL("spifhash_jenkins32", "model:value", shape, "got 0x%08x, reference 0x%08x", g, e); }
    mc_nontrivial();
    mc_outcome(((uint64_t) exp[0] << 32) | exp[4]);
}
/* keys of 2 GiB and more (lengths at which a byte count or a signed length wraps): one lazily mapped region, mostly untouched zero pages with marker bytes */
static uint8_t *g_huge; static uint64_t g_huge_len;
typedef struct { int fn; uint64_t len; } huge_t;          /* fn 0: jenkins32 (len in words), 1..5: the byte-wise hashes */
static huge_t HUGE_CASES[32]; static int NHUGE;
static const char *HNAME[6] = { "spifhash_jenkins32", "spifhash_jenkins", "spifhash_jenkinsLE", "spifhash_rotating", "spifhash_one_at_a_time", "spifhash_fnv" };
static void huge_desc(uint64_t idx, void *ctx, char *b, size_t n) { (void) ctx; snprintf(b, n, "%s on a key of %llu %s (zero bytes with markers at both ends and around 2^31, 2^32), seed 0x%08x", HNAME[HUGE_CASES[idx].fn], (unsigned long long) HUGE_CASES[idx].len, HUGE_CASES[idx].fn ? "bytes" : "32-bit words", SEEDS[2]); }
static void huge_case(uint64_t idx, void *ctx)
{
    huge_t h = HUGE_CASES[idx]; uint32_t seed = SEEDS[2], e, g; (void) ctx;
    mc_set_shape(h.fn ? "byte-wise hash, key of 2 GiB or more" : "word-wise hash, key of 2 GiB or more");
    switch (h.fn) {
    case 0: e = ref_lookup2_words((const uint32_t *) g_huge, (uint32_t) h.len, seed); g = spifhash_jenkins32(g_huge, (spif_uint32_t) h.len, seed); break;
    case 1: e = ref_lookup2(g_huge, (uint32_t) h.len, seed); g = spifhash_jenkins(g_huge, (spif_uint32_t) h.len, seed); break;
    case 2: e = ref_lookup2(g_huge, (uint32_t) h.len, seed); g = spifhash_jenkinsLE(g_huge, (spif_uint32_t) h.len, seed); break;
    case 3: e = ref_rotating(g_huge, (uint32_t) h.len, seed); g = spifhash_rotating(g_huge, (spif_uint32_t) h.len, seed); break;
    case 4: e = ref_oaat(g_huge, (uint32_t) h.len, seed); g = spifhash_one_at_a_time(g_huge, (spif_uint32_t) h.len, seed); break;
    default: e = ref_fnv1a(g_huge, (uint32_t) h.len, seed); g = spifhash_fnv(g_huge, (spif_uint32_t) h.len, seed); break;
    }
    if (g != e) FAIL(HNAME[h.fn], "model:value", "key of 2 GiB or more", "got 0x%08x, reference 0x%08x (%llu %s)", g, e, (unsigned long long) h.len, h.fn ? "bytes" : "words");
    mc_nontrivial();
    mc_outcome(((uint64_t) e << 8) | (uint64_t) h.fn);
}
static void huge_level(void)
{
    g_huge_len = (1ULL << 32) + 16384;
    g_huge = mmap(NULL, g_huge_len, PROT_READ | PROT_WRITE, MAP_PRIVATE | MAP_ANONYMOUS | MAP_NORESERVE, -1, 0);
    if (g_huge == MAP_FAILED) { mc_info("huge", "a region of 4 GiB could not be mapped: the 2 GiB keys are skipped"); return; }
    static const uint64_t marks[] = { 0, 1ULL << 20, (1ULL << 31) - 16, 1ULL << 31, (1ULL << 31) + 16, (3ULL << 30) + 5, (1ULL << 32) - 32, (1ULL << 32) - 12, 1ULL << 32 };
    for (unsigned i = 0; i < sizeof marks / sizeof *marks; i++) for (int k = 0; k < 12; k++) g_huge[marks[i] + (uint64_t) k] = (uint8_t) (0x81 + 7 * k + (int) i);
    static const uint64_t wq[] = { (1ULL << 29) - 1, 1ULL << 29, (1ULL << 29) + 5, (1ULL << 30) + 5 }, wt[] = { (1ULL << 30) - 1, (1ULL << 30) + 1 };     /* 2^30 + 5 words: the byte count no longer fits in 32 bits */
    static const uint64_t bq[] = { (1ULL << 31) + 5 }, bt[] = { (1ULL << 31) - 1, 1ULL << 31, (1ULL << 32) - 1 };
    for (unsigned i = 0; i < 4; i++) HUGE_CASES[NHUGE++] = (huge_t) { 0, wq[i] };
    for (int f = 1; f <= 5; f++) HUGE_CASES[NHUGE++] = (huge_t) { f, bq[0] };
    if (mc_thorough()) {
        for (unsigned i = 0; i < 2; i++) HUGE_CASES[NHUGE++] = (huge_t) { 0, wt[i] };
        for (int f = 1; f <= 5; f++) for (unsigned i = 0; i < 3; i++) HUGE_CASES[NHUGE++] = (huge_t) { f, bt[i] };
    }
    mc_e2_level("huge_keys", mc_thorough() ? 32 : 31, (uint64_t) NHUGE, huge_case, huge_desc, NULL);
}
/* all 1- and 2-byte keys */
static void small_desc(uint64_t idx, void *ctx, char *b, size_t n) { (void) ctx; snprintf(b, n, idx < 256 ? "all hashes on the 1-byte key %02llx, 4 seeds" : "all hashes on the 2-byte key %04llx, 4 seeds", (unsigned long long) (idx < 256 ? idx : idx - 256)); }
static void small_case(uint64_t idx, void *ctx)
{
    uint8_t k[2]; int len; (void) ctx;
    if (idx < 256) { len = 1; k[0] = (uint8_t) idx; } else { len = 2; k[0] = (uint8_t) ((idx - 256) >> 8); k[1] = (uint8_t) (idx - 256); }
    for (int s = 0; s < 4; s++) {
        uint32_t seed = SEEDS[s];
        uint32_t exp[5] = { ref_lookup2(k, (uint32_t) len, seed), 0, ref_rotating(k, (uint32_t) len, seed), ref_oaat(k, (uint32_t) len, seed), ref_fnv1a(k, (uint32_t) len, seed) };
        exp[1] = exp[0];
        uint8_t *h = mc_heapmem(k, (size_t) len);
        mc_set_shape(len == 1 ? "1-byte key" : "2-byte key");
        check_all(h, len, seed, "exact heap block", len == 1 ? "1-byte key" : "2-byte key", exp);
        free(h);
    }
    mc_nontrivial();
}
int main(int argc, char **argv)
{
    mc_init("C18", argc, argv);
    libast_debug_level = (unsigned) mc_dlevel();        /* --dlevel=N: the whole run at runtime debug level N (default 0) */
    MAXLEN = (int) mc_arg_int("maxlen", mc_thorough() ? 100 : 40);
    if (MAXLEN > 400) MAXLEN = 400;
    g_page = sysconf(_SC_PAGESIZE);
    g_guard = mmap(NULL, (size_t) g_page * 3, PROT_READ | PROT_WRITE, MAP_PRIVATE | MAP_ANONYMOUS, -1, 0);
    mprotect(g_guard, (size_t) g_page, PROT_NONE); mprotect(g_guard + 2 * g_page, (size_t) g_page, PROT_NONE);
    if (mc_arg("only", NULL) && !strcmp(mc_arg("only", NULL), "huge")) {
        mc_info("alphabet", "jenkins32 on keys of 2^29-1, 2^29, 2^29+5, 2^30+5 words (thorough: also 2^30-1, 2^30+1) and the five byte-wise hashes on 2^31+5 bytes (thorough: also 2^31-1, 2^31, 2^32-1) against the references; the key is a lazily mapped region of zero bytes with marker bytes at both ends and around 2^31 and 2^32");
        huge_level();
        return mc_finish();
    }
    mc_info("alphabet", "length 0..%d x alignment 0..7 x seeds {0,1,0xf721b64d,0xffffffff} x patterns {all 00, all FF, counting, each single byte = 0x01 / 0x80}; jenkins32 on keys whose length is a multiple of 4 (every alignment) and on 'table + i' expressions over a table of words; long keys of 4080..20004 bytes x 8 alignments; keys lying across an address that is a multiple of 4 GiB; %s",
            MAXLEN, mc_thorough() ? "all 1- and 2-byte keys" : "all 1-byte keys");
    mc_e2_level("hash", MAXLEN, count_for(MAXLEN), case_fn, desc, NULL);
    { static const uintptr_t at[] = { 0x200000000000ULL, 0x300000000000ULL, 0x100100000000ULL, 0x500000000000ULL };
      for (unsigned i = 0; i < 4 && !g_4g; i++) { void *p = mmap((void *) (at[i] - (uintptr_t) g_page), (size_t) g_page * 2, PROT_READ | PROT_WRITE, MAP_PRIVATE | MAP_ANONYMOUS | MAP_FIXED_NOREPLACE, -1, 0);
          if (p == (void *) (at[i] - (uintptr_t) g_page)) g_4g = (uint8_t *) at[i]; else if (p != MAP_FAILED) munmap(p, (size_t) g_page * 2); }
      if (!g_4g) mc_info("boundary", "no address that is a multiple of 4 GiB could be mapped: the boundary cases are skipped");
      else mc_e2_level("boundary_4g", 1, (uint64_t) NBLEN * 64, b4_case, b4_desc, NULL); }
    mc_e2_level("longkeys", 20004, (uint64_t) NBIGLEN * 16, big_case, big_desc, NULL);
    mc_e2_level("smallkeys", mc_thorough() ? 2 : 1, mc_thorough() ? 256 + 65536 : 256, small_case, small_desc, NULL);
    return mc_finish();
}
