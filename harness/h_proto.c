/* h_proto.c — C05: dup is an independent equal copy, comp is a consistent order, type() names the class.
 * E2 over (class x implementing family x reachable state x continuation) for dup, and over all
 * pairs and triples of pool objects for the comparison laws; spif_obj_comp additionally over
 * synthetic addresses whose differences exceed 2^31 and 2^32. */
#include <sys/resource.h>
#include "classes.h"

typedef struct { int ci, fam, bi, mode; } dc_t;
static dc_t *DC; static uint64_t NDC;
typedef struct { int ci, fam, x, y, z; } cc_t;     /* z < 0: pair case */
static cc_t *CC; static uint64_t NCC;

static void build_tables(void)
{
    size_t cap = 40000; DC = malloc(cap * sizeof *DC); NDC = 0;
    for (int ci = 0; ci < NCLASSES; ci++) { cls_t *c = &CLASSES[ci];
        for (int f = 0; f < (c->kind ? 3 : 1); f++) for (int bi = 0; bi < c->n_build; bi++) for (int m = 0; m < 3 + 2 * c->n_mut; m++) DC[NDC++] = (dc_t) { ci, f, bi, m }; }
    cap = 400000; CC = malloc(cap * sizeof *CC); NCC = 0;
    for (int ci = 0; ci < NCLASSES; ci++) { cls_t *c = &CLASSES[ci];
        for (int f = 0; f < (c->kind ? 3 : 1); f++) {
            for (int x = 0; x < c->n_build; x++) for (int y = 0; y < c->n_build; y++) CC[NCC++] = (cc_t) { ci, f, x, y, -1 };
            for (int x = 0; x < c->n_build; x++) for (int y = 0; y < c->n_build; y++) for (int z = 0; z < c->n_build; z++) CC[NCC++] = (cc_t) { ci, f, x, y, z };
        } }
}
static const char *site(const cls_t *c, const char *m) { static char b[96]; snprintf(b, sizeof b, "%s.%s", cls_label(c), m); return b; }

/* ------------------------------------------------------------------ part A: dup */
static void dup_desc(uint64_t idx, void *ctx, char *b, size_t n)
{
    dc_t *d = &DC[idx]; cls_t *c = &CLASSES[d->ci]; (void) ctx; g_family = d->fam;
    const char *cont;
    char tmp[120];
    if (d->mode == 0) cont = "dup, compare class/type()/value, delete both";
    else if (d->mode <= c->n_mut) { snprintf(tmp, sizeof tmp, "dup, mutate the COPY with %s, original must be unchanged", c->mut_name(d->mode - 1)); cont = tmp; }
    else if (d->mode <= 2 * c->n_mut) { snprintf(tmp, sizeof tmp, "dup, mutate the ORIGINAL with %s, copy must be unchanged", c->mut_name(d->mode - 1 - c->n_mut)); cont = tmp; }
    else if (d->mode == 2 * c->n_mut + 1) cont = "dup, delete the copy, original must be unchanged, delete the original";
    else cont = "dup, delete the original, copy must be unchanged, delete the copy";
    snprintf(b, n, "%s in state %s: %s", cls_label(c), c->build_name(d->bi), cont);
}
static void cmp_prelude(cls_t *c);
static int cv(spif_cmp_t c);
static void dup_case(uint64_t idx, void *ctx)
{
    dc_t *d = &DC[idx]; cls_t *c = &CLASSES[d->ci]; (void) ctx; g_family = d->fam;
    cmp_prelude(c);
    char shape[160]; snprintf(shape, sizeof shape, "state %s", c->build_name(d->bi));
    mc_set_shape(shape);
    spif_obj_t o = c->build(d->bi);
    if (!o) { FAIL(site(c, "build"), "model:return", shape, "constructor returned NULL"); return; }
    char before[700], after[700], dobs[700];
    c->observe(o, before, sizeof before);
    spif_obj_t dd = SPIF_OBJ_DUP(o);
    if (!dd) { FAIL(site(c, "dup"), "model:return", shape, "dup returned NULL"); SPIF_OBJ_DEL(o); return; }
    if (dd == o) { FAIL(site(c, "dup"), "model:same-object", shape, "dup returned the object itself"); SPIF_OBJ_DEL(o); return; }
    c->observe(dd, dobs, sizeof dobs);
    if (d->mode == 0) {
        if (SPIF_OBJ_CLASS(dd) != SPIF_OBJ_CLASS(o)) FAIL(site(c, "dup"), "model:class", shape, "the copy has a different class record");
        if (strcmp(before, dobs)) FAIL(site(c, "dup"), "model:value", shape, "copy observes as {%s}, original {%s}", dobs, before);
        /* classes that compare by value (all but the two linked-list families, whose comp is the identity order of spif_obj_comp) */
        if (!(c->kind && g_family != 0)) { int e1 = cv(SPIF_OBJ_COMP(o, dd)), e2 = cv(SPIF_OBJ_COMP(dd, o)); if (e1 != 0 || e2 != 0) FAIL(site(c, "comp"), "model:copy-not-equal", shape, "comp(original, copy)=%d and comp(copy, original)=%d: an equal copy compares EQUAL", e1, e2); }
        spif_classname_t t = SPIF_OBJ_TYPE(o);
        if (!t || strcmp((char *) t, cls_classname(c))) { char e[60]; mc_esc(t, t ? strnlen((char *) t, 12) : 0, e, sizeof e); FAIL(site(c, "type"), "model:classname", "", "type() returned \"%s\", the class is %s", e, cls_classname(c)); }
        c->observe(o, after, sizeof after);
        if (strcmp(before, after)) FAIL(site(c, "dup"), "model:original-changed", shape, "dup changed the original: {%s} -> {%s}", before, after);
        SPIF_OBJ_DEL(dd); SPIF_OBJ_DEL(o);
    } else if (d->mode <= c->n_mut) {
        c->mutate(dd, d->mode - 1);
        c->observe(o, after, sizeof after);
        if (strcmp(before, after)) FAIL(site(c, "dup"), "model:not-independent", shape, "mutating the copy (%s) changed the original: {%s} -> {%s}", c->mut_name(d->mode - 1), before, after);
        SPIF_OBJ_DEL(dd); SPIF_OBJ_DEL(o);
    } else if (d->mode <= 2 * c->n_mut) {
        c->mutate(o, d->mode - 1 - c->n_mut);
        c->observe(dd, after, sizeof after);
        if (strcmp(dobs, after)) FAIL(site(c, "dup"), "model:not-independent", shape, "mutating the original (%s) changed the copy: {%s} -> {%s}", c->mut_name(d->mode - 1 - c->n_mut), dobs, after);
        SPIF_OBJ_DEL(o); SPIF_OBJ_DEL(dd);
    } else if (d->mode == 2 * c->n_mut + 1) {
        SPIF_OBJ_DEL(dd);
        c->observe(o, after, sizeof after);
        if (strcmp(before, after)) FAIL(site(c, "dup"), "model:not-independent", shape, "deleting the copy changed the original");
        for (int j = 0; j < c->n_mut; j++) c->mutate(o, j);             /* and it is still fully usable */
        SPIF_OBJ_DEL(o);
    } else {
        SPIF_OBJ_DEL(o);
        c->observe(dd, after, sizeof after);
        if (strcmp(dobs, after)) FAIL(site(c, "dup"), "model:not-independent", shape, "deleting the original changed the copy");
        for (int j = 0; j < c->n_mut; j++) c->mutate(dd, j);
        SPIF_OBJ_DEL(dd);
    }
    mc_nontrivial();
    mc_outcome(mc_hash_str(before) ^ (uint64_t) d->mode);
}

/* ------------------------------------------------------------------ part B: comparison laws */
static int cv(spif_cmp_t c) { return SPIF_CMP_IS_LESS(c) ? -1 : (SPIF_CMP_IS_GREATER(c) ? 1 : (SPIF_CMP_IS_EQUAL(c) ? 0 : 9)); }
static void raw(const cls_t *c, spif_obj_t o, const unsigned char **p, long *n)
{
    if (c->order == 2) { spif_mbuff_t m = (spif_mbuff_t) o; *p = m->buff; *n = m->len; }
    else { spif_str_t s = SPIF_STR(o); *p = (const unsigned char *) s->s; *n = s->s ? s->len : 0; }
}
static int model_order(const cls_t *c, spif_obj_t x, spif_obj_t y)
{
    const unsigned char *a, *b; long an, bn; raw(c, x, &a, &an); raw(c, y, &b, &bn);
    long m = an < bn ? an : bn; int r = m ? memcmp(a, b, (size_t) m) : 0;
    if (r) return r < 0 ? -1 : 1;
    return an < bn ? -1 : (an > bn ? 1 : 0);
}
static void cmp_desc(uint64_t idx, void *ctx, char *b, size_t n)
{
    cc_t *k = &CC[idx]; cls_t *c = &CLASSES[k->ci]; (void) ctx; g_family = k->fam;
    if (k->z < 0) snprintf(b, n, "%s comp laws on the pair (%s, %s): reflexive, antisymmetric, NULL first, model order", cls_label(c), c->build_name(k->x), c->build_name(k->y));
    else snprintf(b, n, "%s comp transitivity on (%s, %s, %s)", cls_label(c), c->build_name(k->x), c->build_name(k->y), c->build_name(k->z));
}
/* history: the laws are checked in a process that has already compared every pair of pool states many times (anything a comparison
 * keeps between calls - depth counters, scratch, caches - has been through 80 rounds, placeholder-against-element pairs included) */
static void cmp_prelude(cls_t *c)
{
    static unsigned char done[64][3];
    int ci = (int) (c - CLASSES);
    if (done[ci][g_family]) return;
    done[ci][g_family] = 1;
    spif_obj_t o[16]; int n = c->n_build < 16 ? c->n_build : 16;
    for (int i = 0; i < n; i++) o[i] = c->build(i);
    for (int r = 0; r < 80; r++) for (int i = 0; i < n; i++) for (int j = 0; j < n; j++) if (o[i] && o[j]) (void) SPIF_OBJ_COMP(o[i], o[j]);
    /* and a pair against a bare key (the one comparison across classes that the library defines), 150 times */
    { spif_str_t f = spif_str_new_from_ptr((spif_charptr_t) "k");
      for (int r = 0; r < 150; r++) for (int i = 0; i < n; i++) if (o[i] && SPIF_OBJ_IS_OBJPAIR(o[i])) (void) SPIF_OBJ_COMP(o[i], SPIF_OBJ(f));
      spif_str_del(f); }
    for (int i = 0; i < n; i++) if (o[i]) SPIF_OBJ_DEL(o[i]);
}
static void cmp_case(uint64_t idx, void *ctx)
{
    cc_t *k = &CC[idx]; cls_t *c = &CLASSES[k->ci]; (void) ctx; g_family = k->fam;
    cmp_prelude(c);
    spif_obj_t x = c->build(k->x), y = c->build(k->y), z = k->z >= 0 ? c->build(k->z) : NULL;
    char shape[200];
    if (k->z < 0) {
        snprintf(shape, sizeof shape, "%s", k->x == k->y ? "pair of equal states" : "pair of different states");
        mc_set_shape(shape);
        int xx = cv(SPIF_OBJ_COMP(x, x)), xy = cv(SPIF_OBJ_COMP(x, y)), yx = cv(SPIF_OBJ_COMP(y, x)), xn = cv(SPIF_OBJ_COMP(x, (spif_obj_t) NULL));
        if (xx != 0) FAIL(site(c, "comp"), "model:reflexivity", shape, "comp(x,x)=%d", xx);
        if (xy == 9 || xy != -yx) FAIL(site(c, "comp"), "model:antisymmetry", shape, "comp(x,y)=%d, comp(y,x)=%d", xy, yx);
        if (xn != 1) FAIL(site(c, "comp"), "model:null-not-first", shape, "comp(x,NULL)=%d, NULL must order before every object", xn);
        if (c->order == 1 || c->order == 2) { int e = model_order(c, x, y); if (xy != e) FAIL(site(c, "comp"), "model:value-order", shape, "comp(x,y)=%d, the value order gives %d", xy, e); }
        if (xy) mc_nontrivial();
        mc_outcome((uint64_t) (xy + 2) * 131 + mc_hash_str(shape));
    } else {
        snprintf(shape, sizeof shape, "triple");
        mc_set_shape(shape);
        int a = cv(SPIF_OBJ_COMP(x, y)), b = cv(SPIF_OBJ_COMP(y, z)), cc = cv(SPIF_OBJ_COMP(x, z));
        if (a <= 0 && b <= 0 && a != 9 && b != 9) { int e = (a < 0 || b < 0) ? -1 : 0; if (cc != e) FAIL(site(c, "comp"), "model:transitivity", shape, "comp(x,y)=%d comp(y,z)=%d but comp(x,z)=%d", a, b, cc); }
        if (a >= 0 && b >= 0 && a != 9 && b != 9) { int e = (a > 0 || b > 0) ? 1 : 0; if (cc != e) FAIL(site(c, "comp"), "model:transitivity", shape, "comp(x,y)=%d comp(y,z)=%d but comp(x,z)=%d", a, b, cc); }
        mc_nontrivial();
    }
    SPIF_OBJ_DEL(x); SPIF_OBJ_DEL(y); if (z) SPIF_OBJ_DEL(z);
}

/* ------------------------------------------------------------------ spif_obj_comp over synthetic addresses */
static const uint64_t ADDR[] = { 0x1000, 0x1008, 0x1000 + (1ULL << 31), 0x0ff8 + (1ULL << 31), 0x1000 + (1ULL << 32), 0x1008 + (1ULL << 32), 0x0800 + (1ULL << 32),
                                 0x1000 + (3ULL << 32), 0x7000 + (1ULL << 36), 0x10 + (1ULL << 40), 0x602000000010ULL, 0x603000000790ULL, 0x603000000008ULL };
#define NADDR ((int) (sizeof ADDR / sizeof *ADDR))
static void id_desc(uint64_t idx, void *ctx, char *b, size_t n) { (void) ctx; snprintf(b, n, "spif_obj_comp(%#llx, %#llx): identity order over addresses further apart than 2^31", (unsigned long long) ADDR[idx / NADDR], (unsigned long long) ADDR[idx % NADDR]); }
static void id_case(uint64_t idx, void *ctx)
{
    uint64_t a = ADDR[idx / NADDR], b = ADDR[idx % NADDR]; (void) ctx;
    const char *shape = (a > b ? a - b : b - a) >= (1ULL << 31) ? "addresses 2^31 or more apart" : "addresses close together";
    mc_set_shape(shape);
    int g = cv(spif_obj_comp((spif_obj_t) (uintptr_t) a, (spif_obj_t) (uintptr_t) b)), e = a < b ? -1 : (a > b ? 1 : 0);
    if (g != e) FAIL("obj.comp", "model:identity-order", shape, "spif_obj_comp(%#llx,%#llx)=%d, address order gives %d", (unsigned long long) a, (unsigned long long) b, g, e);
    mc_nontrivial();
}

/* ---- buffers whose lengths differ by 2^31 and more (plain build: the big block is calloc'ed and never touched) */
static const long long HUGE_DIFF[] = { 2147483647LL, 2147483648LL, 2147483649LL, 4294967296LL, 4294967297LL };
static void hm_desc(uint64_t idx, void *ctx, char *b, size_t n) { (void) ctx; snprintf(b, n, "mbuff comp of a 1-byte buffer {0} with a buffer of 1 + %lld zero bytes", HUGE_DIFF[idx]); }
static void hm_case(uint64_t idx, void *ctx)
{
    long long big = HUGE_DIFF[idx] + 1; (void) ctx;
    mc_set_shape("equal prefix, lengths far apart");
    spif_mbuff_t a = spif_mbuff_new_from_ptr((spif_byteptr_t) "\0", 1), b = spif_mbuff_new();
    void *blk = calloc((size_t) big, 1);
    if (!blk) { spif_mbuff_del(a); spif_mbuff_del(b); return; }
    b->buff = blk; b->len = (spif_memidx_t) big; b->size = (spif_memidx_t) big;          /* the object takes the block over (del frees it) */
    int ab = cv(SPIF_OBJ_COMP(SPIF_OBJ(a), SPIF_OBJ(b))), ba = cv(SPIF_OBJ_COMP(SPIF_OBJ(b), SPIF_OBJ(a)));
    if (ab != -1 || ba != 1) FAIL("mbuff.comp", "model:value-order", "equal prefix, lengths far apart", "comp(short,long)=%d comp(long,short)=%d: the shorter of two equal-prefix buffers orders first", ab, ba);
    ab = cv(spif_mbuff_cmp(a, b)); ba = cv(spif_mbuff_cmp(b, a));
    if (ab != -1 || ba != 1) FAIL("spif_mbuff_cmp", "model:value-order", "equal prefix, lengths far apart", "cmp(short,long)=%d cmp(long,short)=%d", ab, ba);
    spif_mbuff_del(a); spif_mbuff_del(b);
    mc_nontrivial();
}
/* ---- containers whose elements compare equal without being equal (pairs with one key and different values): a copy holds them in the original's order */
static void eq_desc(uint64_t idx, void *ctx, char *b, size_t n) { static const char *fam[3] = { "array", "linked_list", "dlinked_list" }; (void) ctx; snprintf(b, n, "%s %s of the pairs (k,1) (k,2) (k,3)%s: dup, element order of the copy", fam[idx % 3], (idx / 3) % 2 ? "vector" : "list", idx / 6 ? " after removing and re-adding (k,2)" : ""); }
static void eq_order(spif_obj_t c, int vector, char *b, size_t n)
{
    int cnt = vector ? (int) SPIF_VECTOR_COUNT(c) : (int) SPIF_LIST_COUNT(c); spif_obj_t *a = cnt ? (vector ? SPIF_VECTOR_TO_ARRAY(c) : SPIF_LIST_TO_ARRAY(c)) : NULL; size_t k = 0; b[0] = 0;
    for (int i = 0; a && i < cnt && k + 8 < n; i++) k += (size_t) snprintf(b + k, n - k, "%s ", a[i] && SPIF_OBJ_IS_OBJPAIR(a[i]) ? stext(SPIF_OBJPAIR(a[i])->value) : "?");
    if (a) FREE(a);
}
static void eq_case(uint64_t idx, void *ctx)
{
    (void) ctx; g_family = (int) (idx % 3); int vector = (int) ((idx / 3) % 2), churn = (int) (idx / 6);
    const char *shape = vector ? "vector of equal-comparing elements" : "list of equal-comparing elements"; mc_set_shape(shape);
    spif_obj_t c = new_container(vector ? KIND_VECTOR : KIND_LIST);
    for (int v = 1; v <= 3; v++) { char t[2] = { (char) ('0' + v), 0 }; spif_obj_t k = S_("k"), val = S_(t); spif_obj_t p = SPIF_OBJ(spif_objpair_new_from_both(k, val)); SPIF_OBJ_DEL(k); SPIF_OBJ_DEL(val);
        if (vector) SPIF_VECTOR_INSERT(c, p); else SPIF_LIST_APPEND(c, p); }
    if (churn) { spif_obj_t k = S_("k"), val = S_("2"), q = SPIF_OBJ(spif_objpair_new_from_both(k, val)); SPIF_OBJ_DEL(k); SPIF_OBJ_DEL(val);
        spif_obj_t r = vector ? SPIF_VECTOR_REMOVE(c, q) : SPIF_LIST_REMOVE(c, q); if (r) { if (vector) SPIF_VECTOR_INSERT(c, r); else SPIF_LIST_APPEND(c, r); } SPIF_OBJ_DEL(q); }
    char before[64], copy[64], after[64]; eq_order(c, vector, before, sizeof before);
    spif_obj_t d = SPIF_OBJ_DUP(c);
    if (!d || d == c) FAIL(vector ? "vector.dup" : "list.dup", "model:return", shape, "dup returned %s", d ? "self" : "NULL");
    else {
        eq_order(d, vector, copy, sizeof copy);
        if (strcmp(before, copy)) FAIL(vector ? "vector.dup" : "list.dup", "model:value", shape, "the copy holds the values in the order {%s}, the original {%s}", copy, before);
        SPIF_OBJ_DEL(d);
        eq_order(c, vector, after, sizeof after);
        if (strcmp(before, after)) FAIL(vector ? "vector.dup" : "list.dup", "model:original-changed", shape, "after deleting the copy the original reads {%s}, before {%s}", after, before);
    }
    SPIF_OBJ_DEL(c);
    mc_nontrivial();
    mc_outcome(mc_hash_str(before) + idx);
}
/* ------------------------------------------------------------------ long containers: dup, comp with the copy and del of a list, vector and map of 300000 elements in each family */
static void hc_desc(uint64_t idx, void *ctx, char *b, size_t n) { static const char *kn[3] = { "list", "vector", "map" }, *fn[3] = { "array", "linked_list", "dlinked_list" }; (void) ctx; snprintf(b, n, "%s %s of %d elements: dup, count of the copy, comp(x, x), delete both (stack limit 8 MiB)", fn[idx % 3], kn[idx / 3], (idx % 3 == 0 || idx >= 6) ? 20000 : 300000); }
static void hc_case(uint64_t idx, void *ctx)
{
    int kind = (int) (idx / 3) + 1; (void) ctx; g_family = (int) (idx % 3);
    const int n = (g_family == 0 || kind == KIND_MAP) ? 20000 : 300000;          /* the array family shifts its block for every sorted insert, the maps look through all their pairs for every set: shorter ones do there */
    const char *shape = "300000 elements"; mc_set_shape(shape);
    { struct rlimit rl; if (!getrlimit(RLIMIT_STACK, &rl) && (rl.rlim_cur == RLIM_INFINITY || rl.rlim_cur > (8u << 20))) { rl.rlim_cur = 8u << 20; setrlimit(RLIMIT_STACK, &rl); } }
    spif_obj_t c = new_container(kind); char t[16];
    for (int i = 0; i < n; i++) {
        int k = (kind == KIND_LIST || g_family == 0) ? i : n - 1 - i;            /* sorted linked containers are filled from the greatest key down (each insert lands at the head) */
        snprintf(t, sizeof t, "e%06d", k);
        if (kind == KIND_LIST) { if (g_family == 1) { snprintf(t, sizeof t, "e%06d", n - 1 - i); SPIF_LIST_PREPEND(c, S_(t)); } else SPIF_LIST_APPEND(c, S_(t)); }
        else if (kind == KIND_VECTOR) SPIF_VECTOR_INSERT(c, S_(t));
        else { spif_obj_t K = S_(t), V = S_("v"); SPIF_MAP_SET(c, K, V); SPIF_OBJ_DEL(K); SPIF_OBJ_DEL(V); }
    }
    spif_obj_t d = SPIF_OBJ_DUP(c);
    if (!d || d == c) FAIL("dup", "model:return", shape, "dup of a long container returned %s", d ? "the object itself" : "NULL");
    else {
        int cnt = kind == KIND_LIST ? (int) SPIF_LIST_COUNT(d) : (kind == KIND_VECTOR ? (int) SPIF_VECTOR_COUNT(d) : (int) SPIF_MAP_COUNT(d));
        if (cnt != n) FAIL("dup", "model:value", shape, "the copy counts %d elements", cnt);
        if (SPIF_OBJ_CLASS(d) != SPIF_OBJ_CLASS(c)) FAIL("dup", "model:class", shape, "the copy is of another class");
        if (!SPIF_CMP_IS_EQUAL(SPIF_OBJ_COMP(c, c))) FAIL("comp", "model:reflexivity", shape, "comp(x,x) is not EQUAL");
        SPIF_OBJ_DEL(d);
    }
    SPIF_OBJ_DEL(c);
    mc_nontrivial();
    mc_outcome(idx);
}
/* ------------------------------------------------------------------ string operations on objects of the classes derived from str: the object stays what it is */
static const char *PC_TEXT[] = { " \t  ", "  http://h/p  ", "a.c", "", NULL };       /* NULL: no text at all (as after new()) */
static const char *PC_OP[] = { "trim()", "clear('x')", "reverse()", "upcase()", "downcase()", "append_char('z')", "splice(0, 1, NULL)", "append_from_ptr(\" \")+trim()" };
#define NPCT 5
#define NPCO 8
static void pc_desc(uint64_t idx, void *ctx, char *b, size_t n) { (void) ctx; char e[40]; const char *t = PC_TEXT[idx / NPCO % NPCT]; if (t) mc_esc(t, strlen(t), e, sizeof e); else snprintf(e, sizeof e, "(no text)"); snprintf(b, n, "%s from \"%s\", spif_str_%s on it, then class, type(), dup, comp with the copy, del", idx / NPCO / NPCT ? "regexp" : "url", e, PC_OP[idx % NPCO]); }
static void pc_case(uint64_t idx, void *ctx)
{
    int op = (int) (idx % NPCO), isre = (int) (idx / NPCO / NPCT); const char *t = PC_TEXT[idx / NPCO % NPCT]; (void) ctx;
    const char *shape = isre ? "regexp through the str interface" : "url through the str interface"; mc_set_shape(shape);
    spif_obj_t o = isre ? SPIF_OBJ(spif_regexp_new_from_ptr((spif_charptr_t) t)) : SPIF_OBJ(spif_url_new_from_ptr((spif_charptr_t) t));
    if (!o) return;
    spif_class_t k0 = SPIF_OBJ_CLASS(o); spif_str_t s = SPIF_STR(o);
    switch (op) {
    case 0: spif_str_trim(s); break; case 1: spif_str_clear(s, 'x'); break; case 2: spif_str_reverse(s); break; case 3: spif_str_upcase(s); break; case 4: spif_str_downcase(s); break;
    case 5: spif_str_append_char(s, 'z'); break; case 6: spif_str_splice_from_ptr(s, 0, 1, (spif_charptr_t) NULL); break; case 7: spif_str_append_from_ptr(s, (spif_charptr_t) " "); spif_str_trim(s); break;
    }
    const char *want = isre ? "!spif_regexp_t!" : "!spif_url_t!";
    if (SPIF_OBJ_CLASS(o) != k0) FAIL("spif_str", "model:class", shape, "after spif_str_%s the object's class record is another one (%s)", PC_OP[op], SPIF_OBJ_CLASS(o) ? (char *) SPIF_OBJ_CLASS(o)->classname : "none");
    else {
        spif_classname_t ty = SPIF_OBJ_TYPE(o);
        if (!ty || strcmp((char *) ty, want)) FAIL("spif_str", "model:classname", shape, "after spif_str_%s type() gives \"%.20s\", expected %s", PC_OP[op], ty ? (char *) ty : "(null)", want);
        spif_obj_t d = SPIF_OBJ_DUP(o);
        if (!d) FAIL("dup", "model:return", shape, "dup returned NULL");
        else { if (SPIF_OBJ_CLASS(d) != k0) FAIL("dup", "model:class", shape, "the copy is of another class");
            if (!SPIF_CMP_IS_EQUAL(SPIF_OBJ_COMP(o, d))) FAIL("comp", "model:copy-not-equal", shape, "the object and its copy do not compare EQUAL after spif_str_%s", PC_OP[op]);
            SPIF_OBJ_DEL(d); }
    }
    if (SPIF_OBJ_CLASS(o) == k0) SPIF_OBJ_DEL(o); else { if (isre) spif_regexp_del(SPIF_REGEXP(o)); else spif_url_del(SPIF_URL(o)); }
    mc_nontrivial();
    mc_outcome(idx);
}
int main(int argc, char **argv)
{
    mc_init("C05", argc, argv);
    libast_debug_level = (unsigned) mc_dlevel();        /* --dlevel=N: the whole run at runtime debug level N (default 0) */
    if (mc_arg("only", NULL) && !strcmp(mc_arg("only", ""), "huge")) { mc_e2_level("huge_mbuff", 1, 5, hm_case, hm_desc, NULL); mc_e2_level("long_containers", 300000, 9, hc_case, hc_desc, NULL); return mc_finish(); }
    build_tables();
    mc_info("alphabet", "classes str, ustr, mbuff, objpair, tok, url, regexp and list/vector/map x {array, linked_list, dlinked_list}; per class a pool of reachable states (empty, slack after a shrinking splice, "
            "NULL placeholders, key-only pair, tokenizer before eval, URL after unparse ...); dup cases: %llu = states x (1 + 2 x mutators + 2 deletion orders); comparison cases: %llu pairs+triples; %d synthetic address pairs",
            (unsigned long long) NDC, (unsigned long long) NCC, NADDR * NADDR);
    mc_e2_level("dup", 1, NDC, dup_case, dup_desc, NULL);
    mc_e2_level("comp", 1, NCC, cmp_case, cmp_desc, NULL);
    mc_e2_level("obj_identity", 1, (uint64_t) NADDR * NADDR, id_case, id_desc, NULL);
    mc_e2_level("equal_comparing_elements", 3, 12, eq_case, eq_desc, NULL);
    mc_e2_level("str_interface_on_derived_classes", 1, 2 * NPCT * NPCO, pc_case, pc_desc, NULL);
    return mc_finish();
}
