/* h_map.c — C03: every map class is the same finite dictionary.
 * E1 over {set(k,v), set(pair,NULL), remove(k)} for the array, linked_list and dlinked_list map
 * classes against one sorted reference dictionary.  After every set the caller's key and value
 * objects are mutated and deleted ("the map holds its own copies"). */
#include "hcommon.h"

#define KMAX 8
static int NK = 3;                              /* number of keys in play */
static int CLS;
static const char *CN[3] = { "array_map", "linked_list_map", "dlinked_list_map" };
static const char *KEYS[KMAX] = { "a", "b", "c", "d", "e", "f", "g", "h" };
static const char *VALS[2] = { "1", "2" };

typedef struct { spif_map_t m; int has[KMAX]; int val[KMAX]; int n; } st_t;
enum { K_SET, K_SET_PAIR, K_REMOVE, K_SET_OWN, K_DONE, K_SET_NULL };      /* K_SET_NULL: set(absent key, NULL) on the array class, which refuses to build the entry (the linked classes do not state what a NULL value means); */           /* K_SET_OWN: the value argument is an object the map itself holds (v=0: under the same key, v=1: under the smallest other key) */
typedef struct { int k, key, v; } op_t;
static op_t OPS[128]; static int NOPS;

static void build_ops(void)
{
    NOPS = 0;
    for (int k = 0; k < NK; k++) for (int v = 0; v < 2; v++) { OPS[NOPS++] = (op_t) { K_SET, k, v }; OPS[NOPS++] = (op_t) { K_SET_PAIR, k, v }; }
    for (int k = 0; k < NK; k++) OPS[NOPS++] = (op_t) { K_REMOVE, k, 0 };
    for (int k = 0; k < NK; k++) for (int v = 0; v < 2; v++) OPS[NOPS++] = (op_t) { K_SET_OWN, k, v };
    for (int k = 0; k < NK; k++) OPS[NOPS++] = (op_t) { K_SET_NULL, k, 0 };
    OPS[NOPS++] = (op_t) { K_DONE, 0, 0 };             /* done(): the map gives up everything it holds and stays usable */
}
static void op_name(int i, char *b, size_t n)
{
    op_t *o = &OPS[i];
    if (o->k == K_SET) snprintf(b, n, "set(%s,%s)", KEYS[o->key], VALS[o->v]);
    else if (o->k == K_SET_PAIR) snprintf(b, n, "set(pair(%s,%s),NULL)", KEYS[o->key], VALS[o->v]);
    else if (o->k == K_DONE) snprintf(b, n, "done()");
    else if (o->k == K_SET_NULL) snprintf(b, n, "set(%s,NULL)", KEYS[o->key]);
    else if (o->k == K_SET_OWN) snprintf(b, n, o->v ? "set(%s, the value object the map holds under its smallest other key)" : "set(%s, get(%s))", KEYS[o->key], KEYS[o->key]);
    else snprintf(b, n, "remove(%s)", KEYS[o->key]);
}
static spif_map_t new_map(void)
{
    switch (CLS) {
    case 0: return SPIF_MAP_NEW(array);
    case 1: return SPIF_MAP_NEW(linked_list);
    default: return SPIF_MAP_NEW(dlinked_list);
    }
}
static spif_obj_t S_(const char *t) { return SPIF_OBJ(spif_str_new_from_ptr((spif_charptr_t) t)); }
static void scribble_del(spif_obj_t o) { spif_str_append_char(SPIF_STR(o), '!'); spif_str_reverse(SPIF_STR(o)); SPIF_OBJ_DEL(o); }
static void *fresh(void) { st_t *s = calloc(1, sizeof *s); s->m = new_map(); return s; }
static int other_key(void *vs, int key);
static int enabled(void *vs, int op)
{
    op_t *o = &OPS[op];
    if (o->k == K_SET_NULL) return CLS == 0 && libast_debug_level == 0 && !((st_t *) vs)->has[o->key];      /* at a runtime level >= 1 the refusal is a fatal assertion by design */
    if (o->k != K_SET_OWN) return 1;
    return o->v ? other_key(vs, o->key) >= 0 : ((st_t *) vs)->has[o->key];
}
static const char *site(const char *m) { static char b[64]; snprintf(b, sizeof b, "%s.%s", CN[CLS], m); return b; }
static int is_str(spif_obj_t o, const char *t) { return o && SPIF_OBJ_IS_STR(o) && SPIF_STR(o)->s && !strcmp((char *) SPIF_STR(o)->s, t); }
static int other_key(void *vs, int key) { st_t *s = vs; for (int k = 0; k < NK; k++) if (k != key && s->has[k]) return k; return -1; }
static const char *pos_shape(st_t *s, int key)
{
    int lo = -1, hi = -1;
    for (int k = 0; k < NK; k++) if (s->has[k]) { if (lo < 0) lo = k; hi = k; }
    if (!s->has[key]) return s->n == 0 ? "empty map" : "key absent";
    if (s->n == 1) return "only key";
    if (key == lo) return "smallest key";
    if (key == hi) return "largest key";
    return "middle key";
}

static void check_struct(st_t *s, const char *m, const char *shape)
{
    int order[KMAX], n = 0;
    for (int k = 0; k < NK; k++) if (s->has[k]) order[n++] = k;
    if (CLS == 0) {
        spif_array_t a = (spif_array_t) s->m;
        if (a->len != n) { FAIL(site(m), "invariant:len", shape, "len=%d model %d", a->len, n); return; }
        for (int i = 0; i < n; i++) { spif_objpair_t p = SPIF_OBJPAIR(a->items[i]);
            if (!p || !SPIF_OBJ_IS_OBJPAIR(p) || !is_str(p->key, KEYS[order[i]])) { FAIL(site(m), "invariant:storage-order", shape, "slot %d does not hold key %s", i, KEYS[order[i]]); return; } }
    } else if (CLS == 1) {
        spif_linked_list_t l = (spif_linked_list_t) s->m; int c = 0;
        if (l->len != n) { FAIL(site(m), "invariant:len", shape, "len=%d model %d", l->len, n); return; }
        for (spif_linked_list_item_t it = l->head; it && c <= n + 1; it = it->next, c++)
            if (c < n && (!it->data || !is_str(SPIF_OBJPAIR(it->data)->key, KEYS[order[c]]))) { FAIL(site(m), "invariant:storage-order", shape, "chain position %d does not hold key %s", c, KEYS[order[c]]); return; }
        if (c != n) FAIL(site(m), "invariant:chain-length", shape, "chain has %d items, len=%d", c, n);
    } else {
        spif_dlinked_list_t l = (spif_dlinked_list_t) s->m; int c = 0;
        if (l->len != n) { FAIL(site(m), "invariant:len", shape, "len=%d model %d", l->len, n); return; }
        if (n == 0) { if (l->head || l->tail) FAIL(site(m), "invariant:empty-map-has-head-or-tail", shape, "head=%p tail=%p on an empty map", (void *) l->head, (void *) l->tail); return; }
        if (!l->head || !l->tail) { FAIL(site(m), "invariant:missing-head-or-tail", shape, "head=%p tail=%p with %d entries", (void *) l->head, (void *) l->tail, n); return; }
        if (l->head->prev) { FAIL(site(m), "invariant:head-prev-not-null", shape, "head->prev set (stale back link)"); return; }
        if (l->tail->next) { FAIL(site(m), "invariant:tail-next-not-null", shape, "tail->next set (stale tail)"); return; }
        spif_dlinked_list_item_t it, last = NULL;
        for (it = l->head; it && c <= n + 1; last = it, it = it->next, c++) {
            if (c < n && (!it->data || !is_str(SPIF_OBJPAIR(it->data)->key, KEYS[order[c]]))) { FAIL(site(m), "invariant:storage-order", shape, "chain position %d does not hold key %s", c, KEYS[order[c]]); return; }
            if (it->prev != last) { FAIL(site(m), "invariant:prev-link-mismatch", shape, "entry %d: prev does not point at its predecessor (stale back link)", c); return; }
        }
        if (c != n) { FAIL(site(m), "invariant:chain-length", shape, "chain has %d items, len=%d", c, n); return; }
        if (last != l->tail) FAIL(site(m), "invariant:tail-not-last", shape, "tail is not the last entry (stale tail)");
    }
}

static void apply(void *vs, int op)
{
    st_t *s = vs; op_t *o = &OPS[op]; const char *shape = pos_shape(s, o->key), *m = "set";
    mc_set_shape(shape);
    /* a caller looks up the greatest key before every operation (so every operation is preceded and followed by a lookup) */
    if (s->m) { int gk = -1; for (int k = 0; k < NK; k++) if (s->has[k]) gk = k;
        if (gk >= 0) { spif_obj_t K = S_(KEYS[gk]); spif_obj_t g = SPIF_MAP_GET(s->m, K); SPIF_OBJ_DEL(K); if (!is_str(g, VALS[s->val[gk]])) FAIL(site("get"), "model:return", "key present", "get(%s), asked between two operations, returned %s", KEYS[gk], g ? "a wrong value" : "NULL"); } }
    if (o->k == K_SET || o->k == K_SET_PAIR) {
        spif_obj_t K = S_(KEYS[o->key]), V = S_(VALS[o->v]); spif_bool_t r;
        if (o->k == K_SET) r = SPIF_MAP_SET(s->m, K, V);
        else { spif_objpair_t p = spif_objpair_new_from_both(K, V); m = "set(pair)"; r = SPIF_MAP_SET(s->m, SPIF_OBJ(p), (spif_obj_t) NULL); spif_objpair_del(p); }
        scribble_del(K); scribble_del(V);           /* the map must hold its own copies */
        if ((r ? 1 : 0) != s->has[o->key]) FAIL(site(m), "model:return", shape, "set returned %d, key %s present", (int) r, s->has[o->key] ? "was" : "was not");
        if (!s->has[o->key]) { s->has[o->key] = 1; s->n++; }
        s->val[o->key] = o->v;
    } else if (o->k == K_SET_NULL) {
        spif_obj_t K = S_(KEYS[o->key]); m = "set(key,NULL)";
        if (SPIF_MAP_SET(s->m, K, (spif_obj_t) NULL)) FAIL(site(m), "model:return", shape, "set of an absent key with a NULL value reported an existing key");
        scribble_del(K);                            /* the entry was refused: nothing changes (checked below and by the probe) */
    } else if (o->k == K_DONE) {
        m = "done";
        if (!SPIF_MAP_DONE(s->m)) FAIL(site(m), "model:return", shape, "done returned FALSE");
        memset(s->has, 0, sizeof s->has); s->n = 0;
    } else if (o->k == K_SET_OWN) {
        int src = o->v ? other_key(s, o->key) : o->key;
        spif_obj_t K = S_(KEYS[o->key]), KS = S_(KEYS[src]); m = "set(own value)";
        spif_obj_t V = SPIF_MAP_GET(s->m, KS);              /* the map copies what it is given, so one of its own objects is a legal argument */
        if (!V) FAIL(site("get"), "model:return", shape, "get of a present key returned NULL");
        else {
            spif_bool_t r = SPIF_MAP_SET(s->m, K, V);
            if ((r ? 1 : 0) != s->has[o->key]) FAIL(site(m), "model:return", shape, "set returned %d, key %s present", (int) r, s->has[o->key] ? "was" : "was not");
            if (!s->has[o->key]) { s->has[o->key] = 1; s->n++; }
            s->val[o->key] = s->val[src];
        }
        scribble_del(K); SPIF_OBJ_DEL(KS);
    } else {
        spif_obj_t K = S_(KEYS[o->key]); m = "remove";
        spif_obj_t r = SPIF_MAP_REMOVE(s->m, K);
        if (!s->has[o->key]) { if (r) FAIL(site(m), "model:return", shape, "remove of an absent key returned a pair"); }
        else {
            if (!r || !SPIF_OBJ_IS_OBJPAIR(r)) FAIL(site(m), "model:return", shape, "remove of a present key did not return its pair");
            else {
                spif_objpair_t p = SPIF_OBJPAIR(r);
                if (!is_str(p->key, KEYS[o->key]) || !is_str(p->value, VALS[s->val[o->key]])) FAIL(site(m), "model:removed-pair", shape, "removed pair is not (%s,%s)", KEYS[o->key], VALS[s->val[o->key]]);
                spif_obj_t again = SPIF_MAP_REMOVE(s->m, K);
                if (again) FAIL(site(m), "model:handed-back-twice", shape, "second remove of the same key returned a pair again");
                spif_objpair_del(p);                 /* the caller owns the removed pair */
            }
            s->has[o->key] = 0; s->n--;
        }
        SPIF_OBJ_DEL(K);
    }
    check_struct(s, m, shape);
}

static void check_list(spif_list_t l, int skip, st_t *s, int what, const char *m, const char *shape)
{
    int order[KMAX], n = 0;
    for (int k = 0; k < NK; k++) if (s->has[k]) order[n++] = k;
    if (!l) { FAIL(site(m), "model:return", shape, "returned NULL"); return; }
    if ((int) SPIF_LIST_COUNT(l) != n + skip) { FAIL(site(m), "model:count", shape, "list has %d entries, expected %d", (int) SPIF_LIST_COUNT(l), n + skip); return; }
    for (int i = 0; i < n; i++) {
        spif_obj_t g = SPIF_LIST_GET(l, i + skip); int ok;
        if (what == 0) ok = is_str(g, KEYS[order[i]]);
        else if (what == 1) ok = is_str(g, VALS[s->val[order[i]]]);
        else ok = g && SPIF_OBJ_IS_OBJPAIR(g) && is_str(SPIF_OBJPAIR(g)->key, KEYS[order[i]]) && is_str(SPIF_OBJPAIR(g)->value, VALS[s->val[order[i]]]);
        if (!ok) { FAIL(site(m), "model:order", shape, "entry %d is not the %d-th smallest key's %s", i, i, what == 0 ? "key" : (what == 1 ? "value" : "pair")); return; }
    }
}
static void probe(void *vs)
{
    st_t *s = vs; spif_map_t m = s->m; const char *shape = s->n == 0 ? "empty map" : "non-empty map";
    mc_set_shape(shape);
    /* a second map of the same class lives next to this one for a moment: its first two entries right after whatever this one just did concern only itself */
    { spif_map_t b = new_map(); spif_obj_t k1 = S_("m"), k0 = S_("B"), v = S_("9");
      SPIF_MAP_SET(b, k1, v); SPIF_MAP_SET(b, k0, v);
      spif_obj_t g1 = SPIF_MAP_GET(b, k1), g0 = SPIF_MAP_GET(b, k0);
      if ((int) SPIF_MAP_COUNT(b) != 2 || !is_str(g1, "9") || !is_str(g0, "9")) FAIL(site("set"), "model:second-map", shape, "a second map holds count=%d after two sets, get(m)=%s get(B)=%s", (int) SPIF_MAP_COUNT(b), g1 ? "object" : "NULL", g0 ? "object" : "NULL");
      for (int k = 0; k < NK; k++) { spif_obj_t K = S_(KEYS[k]); if (SPIF_MAP_GET(b, K)) FAIL(site("get"), "model:second-map", shape, "a second map that holds only m and B has key %s", KEYS[k]); SPIF_OBJ_DEL(K); }
      SPIF_OBJ_DEL(k1); SPIF_OBJ_DEL(k0); SPIF_OBJ_DEL(v); SPIF_MAP_DEL(b); }
    if ((int) SPIF_MAP_COUNT(m) != s->n) FAIL(site("count"), "model:return", shape, "count=%d model %d", (int) SPIF_MAP_COUNT(m), s->n);
    for (int k = -1; k <= NK; k++) {
        const char *kt = k < 0 ? "A" : (k == NK ? "z" : KEYS[k]); int present = (k >= 0 && k < NK && s->has[k]);
        spif_obj_t K = S_(kt);
        const char *sh = k < 0 ? "probe below the minimum" : (k == NK ? "probe above the maximum" : (present ? "key present" : "key absent"));
        spif_obj_t g = SPIF_MAP_GET(m, K);
        if (present ? !is_str(g, VALS[s->val[k]]) : (g != NULL)) FAIL(site("get"), "model:return", sh, "get(%s) wrong", kt);
        spif_bool_t h = SPIF_MAP_HAS_KEY(m, K);
        if ((h ? 1 : 0) != present) FAIL(site("has_key"), "model:return", sh, "has_key(%s)=%d", kt, (int) h);
        /* the key handed over inside a pair that carries some other value (a pair from an earlier get_pairs, say): a dictionary is keyed by the key */
        { spif_obj_t V9 = S_("9"); spif_obj_t P = SPIF_OBJ(spif_objpair_new_from_both(K, V9)); SPIF_OBJ_DEL(V9);
          spif_obj_t g2 = SPIF_MAP_GET(m, P); spif_bool_t h2 = SPIF_MAP_HAS_KEY(m, P);
          if (g2 != g) FAIL(site("get"), "model:return", sh, "get(pair(%s, other value)) %s, get(%s) %s", kt, g2 ? "returns an object" : "returns NULL", kt, g ? "returns the stored value" : "returns NULL");
          if ((h2 ? 1 : 0) != present) FAIL(site("has_key"), "model:return", sh, "has_key(pair(%s, other value))=%d", kt, (int) h2);
          SPIF_OBJ_DEL(P); }
        SPIF_OBJ_DEL(K);
    }
    for (int v = 0; v < 3; v++) {
        const char *vt = v < 2 ? VALS[v] : "9"; int present = 0;
        for (int k = 0; k < NK; k++) if (s->has[k] && v < 2 && s->val[k] == v) present = 1;
        spif_obj_t V = S_(vt);
        spif_bool_t h = SPIF_MAP_HAS_VALUE(m, V);
        if ((h ? 1 : 0) != present) FAIL(site("has_value"), "model:return", present ? "value present" : "value absent", "has_value(%s)=%d", vt, (int) h);
        SPIF_OBJ_DEL(V);
    }
    for (int what = 0; what < 3; what++) {
        static const char *nm[3] = { "get_keys", "get_values", "get_pairs" };
        spif_list_t l = what == 0 ? SPIF_MAP_GET_KEYS(m, (spif_list_t) NULL) : (what == 1 ? SPIF_MAP_GET_VALUES(m, (spif_list_t) NULL) : SPIF_MAP_GET_PAIRS(m, (spif_list_t) NULL));
        check_list(l, 0, s, what, nm[what], shape);
        if (l) SPIF_LIST_DEL(l);
        /* into a caller-supplied list of each list class that already holds two elements */
        for (int lc = 0; lc < 3; lc++) {
        static const char *lcn[3] = { "array", "linked_list", "dlinked_list" };
        spif_list_t mine = lc == 0 ? SPIF_LIST_NEW(array) : (lc == 1 ? SPIF_LIST_NEW(linked_list) : SPIF_LIST_NEW(dlinked_list)); SPIF_LIST_APPEND(mine, S_("own")); SPIF_LIST_APPEND(mine, S_("own2"));      /* two elements: their order is the caller's */
        spif_class_t k0 = SPIF_OBJ_CLASS(mine);
        spif_list_t r = what == 0 ? SPIF_MAP_GET_KEYS(m, mine) : (what == 1 ? SPIF_MAP_GET_VALUES(m, mine) : SPIF_MAP_GET_PAIRS(m, mine));
        if (r != mine) FAIL(site(nm[what]), "model:return", shape, "did not return the caller's list");
        else if (SPIF_OBJ_CLASS(mine) != k0) FAIL(site(nm[what]), "model:caller-list-clobbered", shape, "the caller's %s list has another class record afterwards", lcn[lc]);
        else if ((int) SPIF_LIST_COUNT(mine) != 2 + s->n) FAIL(site(nm[what]), "model:caller-list-clobbered", shape, "the caller's %s list holds %d elements, expected its own 2 + %d", lcn[lc], (int) SPIF_LIST_COUNT(mine), s->n);
        else if (!is_str(SPIF_LIST_GET(mine, 0), "own") || !is_str(SPIF_LIST_GET(mine, 1), "own2")) FAIL(site(nm[what]), "model:caller-list-clobbered", shape, "the caller's own two elements changed or changed places (%s list)", lcn[lc]);
        else check_list(mine, 2, s, what, nm[what], shape);
        SPIF_LIST_DEL(mine);
        }
    }
    { spif_iterator_t it = SPIF_MAP_ITERATOR(m); int i = 0;
      if (!it) FAIL(site("iterator"), "model:return", shape, "iterator() returned NULL");
      else {
          for (int k = 0; k < NK; k++) if (s->has[k]) {
              if (!SPIF_ITERATOR_HAS_NEXT(it)) { FAIL(site("iterator"), "model:exhausted-early", shape, "has_next FALSE after %d of %d", i, s->n); break; }
              spif_obj_t g = SPIF_ITERATOR_NEXT(it);
              if (!g || !SPIF_OBJ_IS_OBJPAIR(g) || !is_str(SPIF_OBJPAIR(g)->key, KEYS[k]) || !is_str(SPIF_OBJPAIR(g)->value, VALS[s->val[k]])) { FAIL(site("iterator"), "model:order", shape, "iteration entry %d is not (%s,%s)", i, KEYS[k], VALS[s->val[k]]); break; }
              i++;
          }
          if (i == s->n && (SPIF_ITERATOR_HAS_NEXT(it) || SPIF_ITERATOR_NEXT(it))) FAIL(site("iterator"), "model:not-exhausted", shape, "iterator continues after %d entries", s->n);
          SPIF_ITERATOR_DEL(it);
      } }
    { spif_map_t d = (spif_map_t) SPIF_MAP_DUP(m);
      if (!d || d == m) FAIL(site("dup"), "model:return", shape, "dup returned %s", d ? "self" : "NULL");
      else { st_t t = *s; t.m = d;
          if ((int) SPIF_MAP_COUNT(d) != s->n) FAIL(site("dup"), "model:count", shape, "dup count %d", (int) SPIF_MAP_COUNT(d));
          else check_struct(&t, "dup", shape);
          SPIF_MAP_DEL(d); } }
    check_struct(s, "queries", shape);
}
static void canon(void *vs, char *b, size_t n)
{
    st_t *s = vs; size_t o = 0; b[0] = '{'; o = 1;
    for (int k = 0; k < NK; k++) if (s->has[k]) o += (size_t) snprintf(b + o, n - o, "%s=%s,", KEYS[k], VALS[s->val[k]]);
    snprintf(b + o, n - o, "}");
}
static void teardown(void *vs) { st_t *s = vs; SPIF_MAP_DEL(s->m); free(s); }

/* ---- large maps: key counts around 127/128, 255/256 and 512 set in ascending, descending or interleaved order; every key is
 * read back, a third of them overwritten, keys come out sorted, then the smallest, greatest and a middle key are removed */
static const int BIGN[] = { 126, 127, 128, 129, 254, 255, 256, 257, 511, 512, 513 };
#define NBIGN ((int) (sizeof BIGN / sizeof BIGN[0]))
static void big_decode(uint64_t idx, int *cls, int *n, int *order) { *cls = (int) (idx % 3); idx /= 3; *order = (int) (idx % 3); idx /= 3; *n = BIGN[idx % NBIGN]; }
static void big_desc(uint64_t idx, void *ctx, char *b, size_t n_)
{
    int cls, n, order; (void) ctx; big_decode(idx, &cls, &n, &order);
    snprintf(b, n_, "%s map: %d keys set in %s order, every third overwritten; get of every key, sorted keys, removal of the smallest, greatest and a middle key", CN[cls], n, order == 0 ? "ascending" : (order == 1 ? "descending" : "interleaved"));
}
static void big_case(uint64_t idx, void *ctx)
{
    int cls, n, order; (void) ctx; big_decode(idx, &cls, &n, &order);
    CLS = cls;
    char shape[64]; snprintf(shape, sizeof shape, "%d keys", n); mc_set_shape(shape);
    spif_map_t mp = new_map(); static int val[700], has[700]; char kt[16], vt[16];
    memset(has, 0, sizeof has);
    for (int i = 0; i < n; i++) { int k = order == 0 ? i : (order == 1 ? n - 1 - i : (i % 2 ? n - 1 - i / 2 : i / 2));
        snprintf(kt, sizeof kt, "k%05d", k); snprintf(vt, sizeof vt, "v%d", k); spif_obj_t K = S_(kt), V = S_(vt);
        if (SPIF_MAP_SET(mp, K, V)) FAIL(site("set"), "model:return", shape, "set of the new key %s reported a replacement", kt);
        scribble_del(K); scribble_del(V); has[k] = 1; val[k] = k; }
    for (int k = 0; k < n; k += 3) { snprintf(kt, sizeof kt, "k%05d", k); snprintf(vt, sizeof vt, "v%d", k + 100000); spif_obj_t K = S_(kt), V = S_(vt);
        if (!SPIF_MAP_SET(mp, K, V)) FAIL(site("set"), "model:return", shape, "set of the present key %s did not report a replacement", kt);
        scribble_del(K); scribble_del(V); val[k] = k + 100000; }
    int rm[3] = { 0, n - 1, n / 2 };
    for (int pass = 0; pass < 2; pass++) {
        int cnt = 0; for (int k = 0; k < n; k++) cnt += has[k];
        if ((int) SPIF_MAP_COUNT(mp) != cnt) FAIL(site("count"), "model:return", shape, "count=%d, model %d", (int) SPIF_MAP_COUNT(mp), cnt);
        for (int k = 0; k < n; k++) { snprintf(kt, sizeof kt, "k%05d", k); snprintf(vt, sizeof vt, "v%d", val[k]); spif_obj_t K = S_(kt); spif_obj_t g = SPIF_MAP_GET(mp, K);
            if (has[k] ? !is_str(g, vt) : g != NULL) { FAIL(site("get"), "model:return", shape, "get(%s) %s", kt, has[k] ? "is not the value most recently set" : "returned a value for a removed key"); SPIF_OBJ_DEL(K); break; }
            SPIF_OBJ_DEL(K); }
        { spif_list_t ks = SPIF_MAP_GET_KEYS(mp, (spif_list_t) NULL); int i = 0;
          if (!ks || (int) SPIF_LIST_COUNT(ks) != cnt) FAIL(site("get_keys"), "model:return", shape, "get_keys has %d entries, model %d", ks ? (int) SPIF_LIST_COUNT(ks) : -1, cnt);
          else for (int k = 0; k < n; k++) if (has[k]) { snprintf(kt, sizeof kt, "k%05d", k); if (!is_str(SPIF_LIST_GET(ks, i), kt)) { FAIL(site("get_keys"), "model:order", shape, "key list position %d is not %s", i, kt); break; } i++; }
          if (ks) SPIF_LIST_DEL(ks); }
        if (pass == 0) for (int r = 0; r < 3; r++) { int k = rm[r]; snprintf(kt, sizeof kt, "k%05d", k); spif_obj_t K = S_(kt); spif_obj_t g = SPIF_MAP_REMOVE(mp, K);
            if (!g || !SPIF_OBJ_IS_OBJPAIR(g) || !is_str(SPIF_OBJPAIR(g)->key, kt)) FAIL(site("remove"), "model:return", shape, "remove(%s) did not hand back its pair", kt);
            if (g) SPIF_OBJ_DEL(g);
            SPIF_OBJ_DEL(K); has[k] = 0; }
    }
    SPIF_MAP_DEL(mp);
    mc_nontrivial();
    mc_outcome((uint64_t) n * 9 + (uint64_t) order * 3 + (uint64_t) cls);
}
/* ---- a key maps to the value most recently set, also when the new value compares EQUAL to the old one without being the same value:
 * pairs are compared by their key only, a URL compares like its text */
static void eq_desc(uint64_t idx, void *ctx, char *b, size_t n) { (void) ctx; snprintf(b, n, "%s map: set(k, %s), set(k, %s), get(k)", CN[idx % 3], idx / 3 ? "str \"http://h/\"" : "pair(u,x1)", idx / 3 ? "url \"http://h/\"" : "pair(u,x2)"); }
static void eq_case(uint64_t idx, void *ctx)
{
    int kind = (int) (idx / 3); (void) ctx; CLS = (int) (idx % 3);
    const char *shape = "new value compares equal to the old one"; mc_set_shape(shape);
    spif_map_t mp = new_map(); spif_obj_t K = S_("k"), pre = S_("j"), prev = S_("0");
    SPIF_MAP_SET(mp, pre, prev);
    spif_obj_t v1, v2;
    if (kind == 0) { spif_obj_t u = S_("u"), x1 = S_("x1"), x2 = S_("x2"); v1 = SPIF_OBJ(spif_objpair_new_from_both(u, x1)); v2 = SPIF_OBJ(spif_objpair_new_from_both(u, x2)); SPIF_OBJ_DEL(u); SPIF_OBJ_DEL(x1); SPIF_OBJ_DEL(x2); }
    else { v1 = S_("http://h/"); v2 = SPIF_OBJ(spif_url_new_from_ptr((spif_charptr_t) "http://h/")); }
    if (SPIF_MAP_SET(mp, K, v1)) FAIL(site("set"), "model:return", shape, "first set reported a replacement");
    if (!SPIF_MAP_SET(mp, K, v2)) FAIL(site("set"), "model:return", shape, "second set did not report a replacement");
    SPIF_OBJ_DEL(v1); SPIF_OBJ_DEL(v2);
    spif_obj_t g = SPIF_MAP_GET(mp, K);
    if (!g) FAIL(site("get"), "model:return", shape, "get returned NULL");
    else if (kind == 0) { if (!SPIF_OBJ_IS_OBJPAIR(g) || !is_str(SPIF_OBJPAIR(g)->value, "x2")) FAIL(site("set"), "model:most-recent-value", shape, "the key still maps to the first pair (u,x1), not to (u,x2)"); }
    else if (!SPIF_OBJ_IS_URL(g)) FAIL(site("set"), "model:most-recent-value", shape, "the key still maps to the string, not to the URL set after it");
    if ((int) SPIF_MAP_COUNT(mp) != 2) FAIL(site("count"), "model:return", shape, "count=%d", (int) SPIF_MAP_COUNT(mp));
    SPIF_OBJ_DEL(K); SPIF_OBJ_DEL(pre); SPIF_OBJ_DEL(prev);
    SPIF_MAP_DEL(mp);
    mc_nontrivial();
    mc_outcome(idx);
}
int main(int argc, char **argv)
{
    mc_init("C03", argc, argv);
    libast_debug_level = (unsigned) mc_dlevel();        /* --dlevel=N: the whole run at runtime debug level N (default 0) */
    NK = (int) mc_arg_int("keys", mc_thorough() ? 6 : 3);
    if (NK > KMAX) NK = KMAX;
    build_ops();
    mc_info("alphabet", "%d keys x 2 values; ops set(k,v), set(pair(k,v),NULL), remove(k) (%d opcodes); caller objects mutated+deleted after every set; probe: count, get/has_key incl. below-min and above-max probes, "
            "has_value, get_keys/values/pairs (NULL and caller list), iterator order, dup; storage-order and link invariants", NK, NOPS);
    const char *only = mc_arg("class", NULL);
    for (CLS = 0; CLS < 3; CLS++) {
        if (only && strcmp(only, CN[CLS])) continue;
        mc_sys sys = { CN[CLS], NOPS, op_name, fresh, enabled, apply, probe, canon, teardown, (int) mc_arg_int("lookahead", 1) };
        mc_e1_run(&sys, (int) mc_arg_int("depth", 40));
    }
    if (!only) mc_e2_level("equal_comparing_values", 1, 6, eq_case, eq_desc, NULL);
    if (!only) mc_e2_level("large", 513, (uint64_t) 3 * 3 * NBIGN, big_case, big_desc, NULL);
    return mc_finish();
}
